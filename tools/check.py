#!/venv/bin/python
"""./check <ID> [--tier quick|thorough] [--replay FILE]

One run = translate -> prove (full .vo build of the property's closure, assumption and
forbidden-vernacular audit) -> correspond (extracted model vs implementation on generated
cases, corpus first) -> decide -> evidence.  See DESIGN.md section 2."""
import sys, os, json, time, argparse, importlib, traceback, subprocess
sys.path.insert(0, os.path.dirname(os.path.abspath(__file__)))
os.environ.setdefault('PYTHONHASHSEED', '0')
from vlib import paths, build, findings
from vlib.model import Model
from vlib.ctx import Ctx

TRUSTED = [
    'Coq 8.16.1 kernel (coqc), vm_compute in proofs over finite tables; no native_compute',
    'extraction: ExtrOcamlBasic only (no Extract Constant), OCaml 4.13.1, ocaml/driver.ml.in',
    'correspondence harness (tools/), CPython 3.12, generators and canonicalisation',
]

def jdump(x):
    def d(o):
        if isinstance(o, (bytes, bytearray)): return {'hex': bytes(o).hex()}
        if isinstance(o, set): return sorted(o, key=repr)
        return repr(o)
    return json.dumps(x, indent=1, default=d, sort_keys=True)

def write_replay(pid, tier, seed, kind, body):
    os.makedirs(paths.REPLAYS, exist_ok=True)
    k = 0
    while os.path.exists(os.path.join(paths.REPLAYS, '%s-%d.json' % (pid, k))): k += 1
    p = os.path.join(paths.REPLAYS, '%s-%d.json' % (pid, k))
    body = dict(body); body.update(property=pid, tier=tier, seed=seed, kind=kind,
                                   replay_cmd='./check %s --replay %s' % (pid, p))
    open(p, 'w').write(jdump(body))
    return p

def main():
    ap = argparse.ArgumentParser()
    ap.add_argument('pid'); ap.add_argument('--tier', default=os.environ.get('VERIF_TIER', 'quick'))
    ap.add_argument('--replay'); ap.add_argument('--no-build', action='store_true')
    a = ap.parse_args()
    pid, tier = a.pid, a.tier if a.tier in ('quick', 'thorough') else 'quick'
    seed = int(os.environ.get('VERIF_SEED', '0') or 0)
    t0 = time.time()
    plugin = importlib.import_module('props.%s' % pid.lower())
    paths.use_repo()
    import logging; logging.disable(logging.CRITICAL)

    if a.replay:
        case = json.load(open(a.replay))
        ok = plugin.replay(case)
        sys.exit(0 if ok else 1)

    broken = []       # proof obligations / build steps that no longer check
    prove = dict(obligations=0, discharged=0, checker_cmd='', assumptions=[], files=[])
    with build.Lock():
        # 1. translate literal tables from the source under test
        tr = os.path.join(paths.VERIF, 'tools', 'translate.py')
        if os.path.exists(tr):
            p = subprocess.run([sys.executable, tr, '--repo', paths.REPO], stdout=subprocess.PIPE, stderr=subprocess.STDOUT, text=True)
            if p.returncode != 0:
                broken.append(dict(kind='translator', detail=p.stdout[-2000:]))
        # 2. prove
        roots = list(getattr(plugin, 'COQ_ROOTS', ['Props/%s.v' % pid]))
        runner = getattr(plugin, 'RUNNER', pid)
        glue = 'Glue/%s_glue.v' % runner
        has_glue = os.path.exists(os.path.join(paths.COQ, glue))
        targets = [r[:-2] + '.vo' for r in roots] + ([glue[:-2] + '.vo'] if has_glue else [])
        ok, log, cmd = build.make(targets)
        if not ok and log.rstrip().endswith('TIMEOUT'):
            ok, log, cmd = build.make(targets, timeout=3600)
        files = build.closure(roots)
        nst, names = build.statements(files)
        prove.update(obligations=nst, checker_cmd=cmd, files=files)
        if not ok:
            failed = [l for l in log.split('\n') if 'Error' in l or l.startswith('File ')][:20]
            broken.append(dict(kind='proof', detail='\n'.join(failed) or log[-2000:]))
        else:
            prove['discharged'] = nst
        for r in roots:
            if not r.startswith(('Props/', 'GenProps/')): continue
            aok, pairs, raw = build.assumptions(r)
            if not aok and 'TIMEOUT' in raw[-20:]:
                aok, pairs, raw = build.assumptions(r, timeout=1800)      # a loaded machine, not a broken proof: once more, longer
            if not aok and ok:
                broken.append(dict(kind='assumptions', detail=raw[-1500:]))
            allowed = getattr(plugin, 'ALLOWED_AXIOMS', [])
            for name, rep in pairs:
                prove['assumptions'].append('%s: %s' % (name, rep))
                if rep != 'Closed under the global context':
                    axs = [l.split(':')[0].strip() for l in rep.split('\n')[1:] if ':' in l and not l.startswith(' ' * 4)]
                    extra = [x for x in axs if x not in allowed]
                    if extra:
                        broken.append(dict(kind='axiom', detail='%s depends on %s' % (name, extra)))
        bad = build.guard_scan()
        if bad:
            broken.append(dict(kind='forbidden-vernacular', detail='\n'.join(bad[:20])))
        # 3. model runner
        model = None
        if has_glue:
            rok, rlog = build.build_runner(runner)
            if not rok:
                broken.append(dict(kind='extraction', detail=rlog[-2000:]))
            else:
                model = Model(runner)

    # 4. correspond + oracle on the implementation
    ctx = Ctx(pid, tier, seed, model)
    # watchdog: an implementation that spins or hangs on a generated input must end in a VIOLATION, not in a check that never
    # returns (the harnesses bound individual waits, but a busy session thread can starve them)
    import signal
    limit = int(os.environ.get('VERIF_WATCHDOG', '') or (1200 if tier == 'quick' else 10800))
    def _hung(signum, frame):
        last = ctx.samples[-1] if getattr(ctx, 'samples', None) else None
        body = dict(found_by='watchdog', what='the check did not finish within %d s: the code under test hangs or spins on one of the generated inputs' % limit,
                    evaluations_so_far=ctx.evaluations, last_sample=last, stack=''.join(traceback.format_stack(frame))[-3000:],
                    note='no concrete failing input was isolated; the property is no longer shown to hold because the correspondence run does not terminate')
        pth = write_replay(pid, tier, seed, 'obligation', body)
        print('VIOLATION property=%s replay=%s no-failing-input-found' % (pid, pth), flush=True)
        os._exit(1)
    if hasattr(signal, 'SIGALRM'):
        signal.signal(signal.SIGALRM, _hung); signal.alarm(limit)
    try:
        plugin.run(ctx)
    except Exception:
        broken.append(dict(kind='harness', detail=traceback.format_exc()[-3000:]))

    # 4b. thorough: independent re-check (coqchk) and in-Coq cross-check of the extracted runner
    if tier == 'thorough' and not broken:
        with build.Lock():
            if model is not None:
                xok, xn, xlog = build.crosscheck_in_coq(runner, model.sample)
                ctx.extra['extraction_crosscheck'] = dict(cases=xn, ok=xok)
                if not xok:
                    broken.append(dict(kind='extraction-crosscheck', detail=xlog))
            if os.environ.get('VERIF_COQCHK', '1') != '0':
                cok, clog = build.coqchk([r for r in roots if r.startswith(('Props/', 'GenProps/'))])
                ctx.extra['coqchk'] = dict(ok=cok, report=clog[-1500:])
                if not cok:
                    broken.append(dict(kind='coqchk', detail=clog))

    # 5. decide
    known_lines = []
    for f in findings.open_for(pid):
        try:
            still = plugin.reproduce(f)
        except Exception:
            still = 'witness could not be re-executed: ' + traceback.format_exc()[-300:]
        if still:
            known_lines.append('KNOWN-FINDING: property=%s %s' % (pid, ' '.join(f['what'].replace('\n', '\\n').split())))
        else:
            ctx.note('known finding %s no longer reproduces' % f.get('id'))
    new_fail = [f for f in ctx.failures if not findings.covered(pid, f.get('sig'))]
    violation = None
    if new_fail:
        f = new_fail[0]
        violation = (write_replay(pid, tier, seed, 'input', dict(found_by='oracle', **f)), '')
    elif broken or ctx.disagreements:
        # the tie broke: search the implementation for an input on which the property fails
        found = None
        if hasattr(plugin, 'search'):
            try:
                found = plugin.search(ctx, [d['case'] for d in ctx.disagreements])
            except Exception:
                ctx.note('search crashed: ' + traceback.format_exc()[-500:])
        if found and not findings.covered(pid, found.get('sig')):
            violation = (write_replay(pid, tier, seed, 'input', dict(found_by='oracle-search', broken=broken, **found)), '')
        else:
            body = dict(found_by='none', broken=broken,
                        correspondence=ctx.disagreements[:5],
                        note='no concrete failing input was found; the property is no longer shown to hold because the listed theorem/correspondence no longer checks')
            violation = (write_replay(pid, tier, seed, 'obligation', body), ' no-failing-input-found')

    # 6. evidence
    cov = dict(
        obligations=prove['obligations'], discharged=prove['discharged'] if not broken else min(prove['discharged'], max(prove['obligations'] - 1, 0)),
        checker_cmd=prove['checker_cmd'], trusted_base=TRUSTED + list(getattr(plugin, 'TRUSTED', [])),
        evaluations=ctx.evaluations, distinct_nontrivial=len(ctx.nontrivial),
        rule=getattr(plugin, 'RULE', ''), samples=ctx.samples or [{'obligation': n} for n in names[:3]],
        exhaustive=ctx.exhaustive, traces_validated_against_impl=ctx.traces,
        disagreements=len(ctx.disagreements), oracle_failures=len(ctx.failures),
        oracle_failures_covered_by_known_findings=len(ctx.failures) - len(new_fail),
        distributions={k: dict(v.most_common(40)) for k, v in ctx.hists.items()},
        print_assumptions=prove['assumptions'], coq_files=prove['files'], notes=ctx.notes,
        known_findings_reported=known_lines, broken=broken,
    )
    cov.update(ctx.extra)
    ev = dict(property_id=pid, tier=tier, seed=seed, level='proof', coverage=cov,
              assumptions=list(getattr(plugin, 'ASSUMES', [])), wall_s=round(time.time() - t0, 2),
              violations=0 if violation is None else 1)
    os.makedirs(paths.EVID, exist_ok=True)
    open(os.path.join(paths.EVID, '%s.json' % pid), 'w').write(jdump(ev))

    for l in known_lines: print(l)
    print('%s tier=%s seed=%d obligations=%d/%d evaluations=%d distinct=%d disagreements=%d wall=%.1fs' % (
        pid, tier, seed, cov['discharged'], cov['obligations'], ctx.evaluations, len(ctx.nontrivial), len(ctx.disagreements), time.time() - t0))
    if violation:
        print('VIOLATION property=%s replay=%s%s' % (pid, violation[0], violation[1]))
        sys.exit(1)
    sys.exit(0)

if __name__ == '__main__':
    main()
