#!/bin/sh
# run_all.sh <tier> : every check once, one summary line each (used for full passes; not registered in MANIFEST)
tier=${1:-quick}
for i in 01 02 03 04 05 06 07 08 09 10 11 12 13 14 15 16 17 18; do
  s=$(date +%s); out=$(./check C$i --tier $tier 2>&1 | grep -E "^C[0-9]+ tier|VIOLATION|KNOWN-FINDING" | cut -c1-160); e=$(date +%s)
  printf "%s [%ss]\n" "$out" "$((e-s))"
done
