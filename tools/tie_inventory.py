#!/venv/bin/python
"""tie_inventory.py --repo <dir>      (development helper; not run by ./check)

Prints the inventory table of notes/tie.md: every literal constant defined in coq/Model/*.v and coq/Spec/*.v
(`Definition c := Eval compute in lit "..."`, numeric / octet-list constants, lists of such constants) with
  * where the same literal occurs in the source tree (first two places, by text search), and
  * the tie theorems of coq/GenProps/*.v whose statement mentions the constant, directly or through a list constant
    of the same model file that contains it.
Rows without a theorem are printed with `-`; why they are not tied (not a source literal, RFC constant of the
specification, internal code of the model) is written by hand in notes/tie.md.
"""
import sys, os, re, glob, argparse

HERE = os.path.dirname(os.path.abspath(__file__))
COQ = os.path.join(os.path.dirname(HERE), 'coq')

def strip_comments(t):
    return re.sub(r'\(\*.*?\*\)', lambda m: ' ' * len(m.group(0)) if '\n' not in m.group(0) else re.sub(r'[^\n]', ' ', m.group(0)), t, flags=re.S)

def model_literals(path):
    """[(line, name, kind, shown value, python value or None)]"""
    raw = open(path).read()
    txt = strip_comments(raw)
    out = []
    seen = set()
    for m in re.finditer(r'Definition\s+(\w+)\s*(?::\s*bytes\s*)?:=\s*Eval compute in\s+lit\s+"((?:[^"]|"")*)"%string\s*\.', txt):
        line = txt.count('\n', 0, m.start()) + 1
        out.append((line, m.group(1), 'str', '"%s"' % m.group(2), m.group(2).replace('""', '"')))
        seen.add(m.group(1))
    for m in re.finditer(r'Definition\s+(\w+)\s*(?::\s*[\w ()*]+?)?\s*:=\s*(.*?)\.(?=\s|$)', txt, flags=re.S):
        if m.group(1) in seen: continue
        name, body = m.group(1), ' '.join(m.group(2).split())
        line = txt.count('\n', 0, m.start()) + 1
        ml = re.fullmatch(r'Eval compute in lit "((?:[^"]|"")*)"%string', body)
        if ml:
            out.append((line, name, 'str', '"%s"' % ml.group(1), ml.group(1).replace('""', '"')))
            continue
        if re.fullmatch(r'\d+(%N)?', body):
            out.append((line, name, 'num', body.replace('%N', ''), None))
            continue
        if re.fullmatch(r'(Eval compute in\s*)?\(?\[.*\]\)?(%N)?', body) and 'fun ' not in body and 'match' not in body:
            out.append((line, name, 'list', body if len(body) < 70 else body[:67] + '...', None))
    out.sort()
    return out

def theorems(path):
    txt = strip_comments(open(path).read())
    out = []
    for m in re.finditer(r'(?:Theorem|Corollary|Lemma)\s+(\w+)\s*:(.*?)\.\s*Proof\.', txt, flags=re.S):
        out.append((m.group(1), m.group(2)))
    imports = re.findall(r'Model\.(\w+)', txt)
    return out, imports

# why a constant has no tie of its own: (module, regex on the constant name) -> (status, reason)
#   n/a = not a literal of the ncclient source;  b* = checked through another constant / another mechanism;  c = unchecked
REASONS = [
    ('Builders', r's_m_\w+|WD_MODES', 'n/a', 'RFC 6243 mode names: arguments the harness passes and the server advertises; not in the source'),
    ('Escape', r'r_\w+|refs', 'n/a', 'libxml2 serialiser facts, re-measured byte-exactly by tools/props/c07.py on every run (the junos parser hits are a coincidence)'),
    ('Framing10', r'K_\w+', 'n/a', 'exception codes internal to the model (glue maps them to class names)'),
    ('Framing10', r'delim10|DELIM10_LEN', 'b', 'Framing_consts.gen_msg_delim'),
    ('Framing11', r'LF|HASH', 'b', 'Framing_consts.gen_end_delim'),
    ('Writer', r'LF|HASH|MSG_DELIM|END_DELIM', 'b', 'Framing_consts.gen_msg_delim / gen_end_delim; Writer_consts.tie_transport_session_Session_run'),
    ('LockCtx', r'K_\w+', 'n/a', 'request kinds internal to the model'),
    ('Negotiate', r'uri_b11x', 'n/a', 'used only in Examples of Props/C05.v (a server capability that does not occur in the source)'),
    ('Profiles', r'E_\w+', 'n/a', 'exception codes internal to the model'),
    ('SaxFilter', r'COLON', 'n/a', 'prefix separator of XML qualified names (lxml find with a namespaces map), not a literal of the source'),
    ('Utf8', r'ws\d', 'n/a', 'CPython str.isspace code points (3.12), checked against the running interpreter by tools/props/c01.py'),
    ('XTree', r'[LR]BRACE', 'n/a', 'Clark notation of lxml'),
    ('XmlHelpers', r'Q_GT', 'b*', 'suffix of DECL_B (Proofs/XmlHelpersProofs.decl_b_split); DECL_B is tied by XmlHelpers_consts.tie_xml__to_xml'),
    ('RefFraming', r'end11', 'n/a', 'RFC 6242 end-of-chunks: part of the SPECIFICATION the code is compared with; deliberately not tied to the source'),
    ('VendorSchema', r'filter_shapes', 'n/a', 'schema of the h3c/alu filter argument (specification); its names are the Builders.v constants, tied in Builders_consts.v'),
    ('Rfc6241Schema', r'filter_shapes', 'n/a', 'RFC 6241 schema (specification); its names are the Builders.v constants, tied in Builders_consts.v'),
    ('WireSpec', r'.*', 'n/a', 'RFC 6242 / RFC 4742 constants of the SPECIFICATION; deliberately not tied to the source'),
    ('RpcErrors', r'MODE_\w+', 'b', 'RpcErrors_consts.tie_raise_modes'),
    ('Caps', r'COLON|QMARK|AMP|EQ', 'b', 'Caps_consts (separators of split())'),
    ('Gating', r'COMMA', 'b', 'Gating_consts.tie_operations_retrieve__get_valid_with_defaults_modes'),
    ('RpcErrors', r'NL|STAR', 'b', 'RpcErrors_consts.tie_operations_rpc_RPCError___init__ / tie_devices_default_DefaultDeviceHandler___init__'),
    ('SaxFilter', r'DQ|SQ', 'b', 'Sax_consts.tie_transport_third_party_junos_parser_quoteattr'),
]

def main():
    ap = argparse.ArgumentParser()
    ap.add_argument('--repo', default=os.environ.get('VERIF_REPO', '/repo'))
    a = ap.parse_args()
    src = {}
    for f in sorted(glob.glob(os.path.join(a.repo, 'ncclient', '**', '*.py'), recursive=True)):
        if f.endswith('_version.py'): continue
        src[os.path.relpath(f, a.repo)] = open(f).read().split('\n')
    gen = []
    for g in sorted(glob.glob(os.path.join(COQ, 'GenProps', '*.v'))):
        ths, imps = theorems(g)
        gen.append((os.path.basename(g)[:-2], ths, imps))
    for path in sorted(glob.glob(os.path.join(COQ, 'Model', '*.v')) + glob.glob(os.path.join(COQ, 'Spec', '*.v'))):
        mod = os.path.basename(path)[:-2]
        if mod in ('Base', 'Lit'): continue
        lits = model_literals(path)
        if not lits: continue
        names = [n for _, n, _, _, _ in lits]
        listdefs = {n: v for _, n, k, v, _ in lits if k == 'list'}
        body_of = {}
        txt = strip_comments(open(path).read())
        for n in listdefs:
            m = re.search(r'Definition\s+%s\b.*?:=(.*?)\.(?=\s|$)' % re.escape(n), txt, flags=re.S)
            body_of[n] = m.group(1) if m else ''
        print('\n### %s/%s.v\n' % (os.path.basename(os.path.dirname(path)), mod))
        print('| line | constant | value | in the source (text search) | status | tie / reason |')
        print('|---|---|---|---|---|---|')
        for line, name, kind, shown, val in lits:
            where = []
            if val is not None and val:
                for f, ls in src.items():
                    for i, l in enumerate(ls, 1):
                        if ('"%s"' % val) in l or ("'%s'" % val) in l:
                            where.append('%s:%d' % (f.replace('ncclient/', ''), i))
                            break
                    if len(where) >= 2: break
            carriers = [name] + [n for n, b in body_of.items() if re.search(r'\b%s\b' % re.escape(name), b)]
            ties = []
            for gname, ths, imps in gen:
                if mod not in imps: continue
                for tn, stmt in ths:
                    if any(re.search(r'(?<![\w.])(%s\.)?%s\b' % (mod, re.escape(c)), stmt) for c in carriers):
                        ties.append('%s.%s' % (gname, tn))
            status = 'b' if ties else 'c'
            note = '<br>'.join(ties[:3])
            if not ties:
                for m_, rx, st, why in REASONS:
                    if m_ == mod and re.fullmatch(rx, name):
                        status, note = st, why
                        break
            if mod == 'Profiles' and not ties and status == 'c':
                status, note = 'b*', 'C16_tables.C16_tables_modelled (digest of the getter body)'
            print('| %d | `%s` | `%s` | %s | %s | %s |' % (line, name, shown.replace('|', '\\|'), ', '.join(where) or '-', status, note or '-'))

if __name__ == '__main__':
    main()
