#!/venv/bin/python
"""tie_inventory.py --repo <dir>      (development helper; not run by ./check)

Prints the inventory table of notes/tie.md: every literal constant defined in coq/Model/*.v and coq/Spec/*.v
(`Definition c := Eval compute in lit "..."`, numeric / octet-list constants, lists of such constants) with
  * where the same literal occurs in the source tree (first two places, by text search), and
  * the tie theorems of coq/GenProps/*.v whose statement mentions the constant, directly or through a list constant
    of the same model file that contains it.
Rows without a theorem are printed with `-`; why they are not tied (not a source literal, RFC constant of the
specification, internal code of the model) is written by hand in notes/tie.md.
"""
import sys, os, re, glob, argparse

HERE = os.path.dirname(os.path.abspath(__file__))
COQ = os.path.join(os.path.dirname(HERE), 'coq')

def strip_comments(t):
    return re.sub(r'\(\*.*?\*\)', lambda m: ' ' * len(m.group(0)) if '\n' not in m.group(0) else re.sub(r'[^\n]', ' ', m.group(0)), t, flags=re.S)

def model_literals(path):
    """[(line, name, kind, shown value, python value or None)]"""
    raw = open(path).read()
    txt = strip_comments(raw)
    out = []
    for m in re.finditer(r'Definition\s+(\w+)\s*(?::\s*[\w ()*]+?)?\s*:=\s*(.*?)\.(?=\s|$)', txt, flags=re.S):
        name, body = m.group(1), ' '.join(m.group(2).split())
        line = txt.count('\n', 0, m.start()) + 1
        ml = re.fullmatch(r'Eval compute in lit "((?:[^"]|"")*)"%string', body)
        if ml:
            out.append((line, name, 'str', '"%s"' % ml.group(1), ml.group(1).replace('""', '"')))
            continue
        if re.fullmatch(r'\d+(%N)?', body):
            out.append((line, name, 'num', body.replace('%N', ''), None))
            continue
        if re.fullmatch(r'(Eval compute in\s*)?\(?\[.*\]\)?(%N)?', body) and 'fun ' not in body and 'match' not in body:
            out.append((line, name, 'list', body if len(body) < 70 else body[:67] + '...', None))
    return out

def theorems(path):
    txt = strip_comments(open(path).read())
    out = []
    for m in re.finditer(r'(?:Theorem|Corollary|Lemma)\s+(\w+)\s*:(.*?)\.\s*Proof\.', txt, flags=re.S):
        out.append((m.group(1), m.group(2)))
    imports = re.findall(r'Model\.(\w+)', txt)
    return out, imports

def main():
    ap = argparse.ArgumentParser()
    ap.add_argument('--repo', default=os.environ.get('VERIF_REPO', '/repo'))
    a = ap.parse_args()
    src = {}
    for f in sorted(glob.glob(os.path.join(a.repo, 'ncclient', '**', '*.py'), recursive=True)):
        if f.endswith('_version.py'): continue
        src[os.path.relpath(f, a.repo)] = open(f).read().split('\n')
    gen = []
    for g in sorted(glob.glob(os.path.join(COQ, 'GenProps', '*.v'))):
        ths, imps = theorems(g)
        gen.append((os.path.basename(g)[:-2], ths, imps))
    for path in sorted(glob.glob(os.path.join(COQ, 'Model', '*.v')) + glob.glob(os.path.join(COQ, 'Spec', '*.v'))):
        mod = os.path.basename(path)[:-2]
        if mod in ('Base', 'Lit'): continue
        lits = model_literals(path)
        if not lits: continue
        names = [n for _, n, _, _, _ in lits]
        listdefs = {n: v for _, n, k, v, _ in lits if k == 'list'}
        body_of = {}
        txt = strip_comments(open(path).read())
        for n in listdefs:
            m = re.search(r'Definition\s+%s\b.*?:=(.*?)\.(?=\s|$)' % re.escape(n), txt, flags=re.S)
            body_of[n] = m.group(1) if m else ''
        print('\n### %s/%s.v\n' % (os.path.basename(os.path.dirname(path)), mod))
        print('| line | constant | value | in the source | tie |')
        print('|---|---|---|---|---|')
        for line, name, kind, shown, val in lits:
            where = []
            if val is not None and val:
                for f, ls in src.items():
                    for i, l in enumerate(ls, 1):
                        if ('"%s"' % val) in l or ("'%s'" % val) in l:
                            where.append('%s:%d' % (f.replace('ncclient/', ''), i))
                            break
                    if len(where) >= 2: break
            carriers = [name] + [n for n, b in body_of.items() if re.search(r'\b%s\b' % re.escape(name), b)]
            ties = []
            for gname, ths, imps in gen:
                if mod not in imps: continue
                for tn, stmt in ths:
                    if any(re.search(r'(?<![\w.])(%s\.)?%s\b' % (mod, re.escape(c)), stmt) for c in carriers):
                        ties.append('%s.%s' % (gname, tn))
            print('| %d | `%s` | `%s` | %s | %s |' % (line, name, shown.replace('|', '\\|'), ', '.join(where) or '-', '<br>'.join(ties[:3]) or '-'))

if __name__ == '__main__':
    main()
