#!/venv/bin/python
"""Rewrite the table of seeded changes in DESIGN.md (between the SEEDTABLE markers) from seeded/*/meta.json."""
import json, glob, os, re
V = os.path.dirname(os.path.dirname(os.path.abspath(__file__)))
rows = ["| seeded change | what it does | caught by |", "|---|---|---|"]
for d in sorted(glob.glob(os.path.join(V, 'seeded', '*', 'meta.json'))):
    m = json.load(open(d)); name = os.path.basename(os.path.dirname(d))
    det = []
    for pid, c in m.get('checks', {}).items():
        txt = c.get('quick', '') + c.get('thorough', '')
        if 'VIOLATION' in txt:
            det.append(pid + (' (tie break, no input)' if 'no-failing-input-found' in txt else ' (replay)'))
    summ = ' '.join(m.get('summary', '').split())
    summ = summ[:170] + ('…' if len(summ) > 170 else '')
    rows.append('| %s | %s | %s |' % (name, summ.replace('|', '/'), ', '.join(det) or 'not caught'))
p = os.path.join(V, 'DESIGN.md'); s = open(p).read()
b, e = '<!-- SEEDTABLE:BEGIN -->', '<!-- SEEDTABLE:END -->'
s = s[:s.index(b) + len(b)] + '\n' + '\n'.join(rows) + '\n' + s[s.index(e):]
open(p, 'w').write(s)
print(len(rows) - 2, 'seeded changes')
