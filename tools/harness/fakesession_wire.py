"""In-memory transport and Session subclass used by the C02/C05 checks (and available to others).

Nothing in ncclient is edited.  The real `Session.run`, `Session.send`, `Session._post_connect`,
`HelloHandler`, the real parser and the real listeners run; only the four designed extension
points (`_transport_read/_write/_register`, `_send_ready`) and `close` are supplied here, and two
module-level names of `ncclient.transport.session` are rebound by `install()`:
`selectors` (to a shim whose selector waits on the in-memory transport) and `TICK`.

All blocking and all thread creation of the harness goes through a `Prims` object so that a
deterministic scheduler can later replace `Thread/Event/Lock/Condition/Queue/monotonic` and get a
`point(label)` call at every synchronisation point of the harness (transport read/write,
readiness test, selector wait, queue put).  The default `Prims` are the real threading ones.
(The session thread itself is `ncclient.transport.session.Thread`; a scheduler rebinds that name
as DESIGN Appendix B describes.)"""
import threading, queue, collections, time
from io import BytesIO


class Prims:
    Thread = threading.Thread
    Event = threading.Event
    Lock = threading.Lock
    Condition = threading.Condition
    Queue = queue.Queue
    monotonic = staticmethod(time.monotonic)
    sleep = staticmethod(time.sleep)

    def point(self, label, *info):
        """Synchronisation point; a scheduler parks the calling thread here."""
        return None


PRIMS = Prims()

ACCEPT_ALL = ('accept', None)


class MemTransport:
    """Duplex in-memory byte pipe seen from the client.

    client -> server: every `write(data)` consumes one scripted answer
        ('accept', n)  the transport takes data[:n] and returns n  (n None = everything; n may exceed len(data))
        ('ret', k)     returns k <= 0 without taking anything ("closed")
        ('raise', exc) raises exc
      and is recorded in `writes` as (bytes(data), answer); taken octets accumulate in `wire`.
    server -> client: `feed(bytes)` / `feed_eof()`; `read()` returns one fed segment (<= 4096) or b'' at EOF.
    readiness: `send_ready()` consumes `readys` (default True when exhausted)."""

    def __init__(self, prims=PRIMS):
        self.prims = prims
        self.cv = prims.Condition()
        self.inbound = collections.deque()
        self.eof = False
        self.locally_closed = False
        self.answers = collections.deque()
        self.readys = collections.deque()
        self.ready_log = []
        self.events = []              # ('ready', answer) / ('write', call index) in program order of the session thread
        self.writes = []
        self.wire = bytearray()
        self.on_write = None          # callable(transport): scripted server reacting to client bytes
        self.on_ready = None          # callable(transport, answer): scripted server reacting to a readiness poll
        self.on_select = None         # callable(transport): called at every selector wait
        self.select_calls = 0

    # ---- server side
    def feed(self, data):
        with self.cv:
            if data:
                self.inbound.append(bytes(data))
            self.cv.notify_all()

    def feed_eof(self):
        with self.cv:
            self.eof = True
            self.cv.notify_all()

    # ---- client side (called by the session thread)
    def send_ready(self):
        self.prims.point('send_ready')
        r = self.readys.popleft() if self.readys else True
        self.ready_log.append(r)
        self.events.append(('ready', r))
        if self.on_ready:
            self.on_ready(self, r)
        return r

    def write(self, data):
        self.prims.point('write')
        data = bytes(data)
        a = self.answers.popleft() if self.answers else ACCEPT_ALL
        self.events.append(('write', len(self.writes)))
        self.writes.append((data, a))
        if a[0] == 'raise':
            raise a[1]
        if a[0] == 'ret':
            return a[1]
        n = len(data) if a[1] is None else a[1]
        self.wire += data[:n]
        if self.on_write:
            self.on_write(self)
        return n

    def readable(self):
        return bool(self.inbound) or self.eof or self.locally_closed

    def wait_readable(self, timeout):
        self.prims.point('select')
        self.select_calls += 1
        if self.on_select:
            self.on_select(self)
        with self.cv:
            if not self.readable():
                self.cv.wait(timeout)
            return self.readable()

    def read(self, n=4096):
        self.prims.point('read')
        with self.cv:
            if self.inbound:
                seg = self.inbound.popleft()
                if len(seg) > n:
                    self.inbound.appendleft(seg[n:])
                    seg = seg[:n]
                return seg
            return b''

    def local_close(self):
        with self.cv:
            self.locally_closed = True
            self.cv.notify_all()


class MemSelector:
    """The part of the selectors API Session.run uses."""
    def __init__(self):
        self.objs = []

    def register(self, fileobj, events, data=None):
        self.objs.append(fileobj)

    def select(self, timeout=None):
        t = self.objs[0]
        return [(t, 1)] if t.wait_readable(timeout) else []

    def close(self):
        pass


class SelectorsShim:
    EVENT_READ = 1
    EVENT_WRITE = 2
    DefaultSelector = MemSelector


_installed = {}


def install(tick=0.002):
    """Rebind the two module-level names (idempotent).  Returns the session module."""
    import ncclient.transport.session as S
    if not _installed:
        _installed['selectors'] = S.selectors
        _installed['TICK'] = S.TICK
    S.selectors = SelectorsShim
    S.TICK = tick
    return S


def uninstall():
    import ncclient.transport.session as S
    if _installed:
        S.selectors = _installed['selectors']
        S.TICK = _installed['TICK']
        _installed.clear()


class RecordingQueue(queue.Queue):
    """queue.Queue whose put order is observable (recorded under the queue's own mutex)."""
    def __init__(self, prims=PRIMS):
        queue.Queue.__init__(self)
        self.put_log = []
        self.prims = prims

    def _put(self, item):
        self.put_log.append(item)
        queue.Queue._put(self, item)


class ErrRecorder:
    """SessionListener recording what the session dispatches (created lazily: needs ncclient)."""
    @staticmethod
    def make():
        from ncclient.transport.session import SessionListener

        class _Rec(SessionListener):
            def __init__(self):
                self.errors = []
                self.messages = []
                self.event = threading.Event()

            def callback(self, root, raw):
                self.messages.append((root, raw))

            def errback(self, ex):
                self.errors.append(ex)
                self.event.set()
        return _Rec()


def make_session(device_handler=None, capabilities=None, prims=PRIMS, cls_name='FakeSession'):
    """Build a FakeSession (class created lazily so that ncclient is imported after use_repo())."""
    S = install(S_TICK[0])
    from ncclient.capabilities import Capabilities
    from ncclient.transport.parser import DefaultXMLParser

    class FakeSession(S.Session):
        def __init__(self, device_handler, capabilities):
            if capabilities is None:
                capabilities = Capabilities(device_handler.get_capabilities())
            S.Session.__init__(self, capabilities)
            self._device_handler = device_handler
            self._buffer = BytesIO()
            self._message_list = []
            self._closing = prims.Event()
            self.parser = DefaultXMLParser(self)
            self._q = RecordingQueue(prims)
            self.t = MemTransport(prims)
            self._connected = True
            self.close_calls = 0

        def _transport_read(self):
            return self.t.read()

        def _transport_write(self, data):
            return self.t.write(data)

        def _transport_register(self, selector, event):
            selector.register(self.t, event)

        def _send_ready(self):
            return self.t.send_ready()

        def close(self):
            self.close_calls += 1
            self._closing.set()
            self._connected = False
            self.t.local_close()

        def stop(self, bound=5.0):
            """Orderly end of a case: local close, wait for the session thread."""
            self.close()
            if self.ident is not None:
                self.join(bound)
                return not self.is_alive()
            return True

    return FakeSession(device_handler, capabilities)


S_TICK = [0.002]
