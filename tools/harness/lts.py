"""Scenario runner for the session LTS (C03, C04, C11): real Session.run / RPC / RPCReplyListener /
NotificationHandler threads under the deterministic scheduler, an in-memory transport, a scripted
server; the global effect log is mapped to the labels of coq/Model/SessionLTS.v."""
import io, re, sys, threading
from . import sched
from .sched import Sched, SLock, SEvent, SQueue

BASE = 'urn:ietf:params:xml:ns:netconf:base:1.0'
NOTIF = 'urn:ietf:params:xml:ns:netconf:notification:1.0'
UNKNOWN_ID = 'urn:uuid:00000000-0000-0000-0000-00000000dead'

# ---- hostile payloads (C14): correctly framed, not XML; {id} = message-id of the request received last
HOSTILE = [
    # text that looks like an error report inside garbage (a profile may turn it into an error for the outstanding requests)
    '%%% not xml %%%<rpc-reply><rpc-error><error-severity>error</error-severity><error-message>boom</error-message></rpc-error></rpc-reply></hello>',
    # a complete, correct-looking reply to an outstanding request behind garbage: must never be taken for that reply
    'xx<rpc-reply xmlns="urn:ietf:params:xml:ns:netconf:base:1.0" message-id="{id}"><ok/></rpc-reply>',
    # text a profile may try to repair and that is still not XML afterwards
    'garbage routing-engine <ok/> <<<',
    '\x01\x02 binary <rpc-reply><rpc-error><error-severity>warning</error-severity></rpc-error><rpc-error><error-severity>error</error-severity></rpc-error></rpc-reply> tail </hello',
    '{"json": "<rpc-reply>x</rpc-reply></hello>"}',
    '<<notification xmlns="urn:ietf:params:xml:ns:netconf:notification:1.0"><ev>n9</ev></notification>',
]
# ---- what follows a VALID root start tag (and some children) and makes the document not well-formed; {root} = root tag name
BADBODY = ['<data><x>1</data></{root}>', '<x>a & b</x></{root}>', '<x>1 < 2</x></{root}>', '<x>1</x>', '<x>1</x></{root}x', '</{root}>trailing<',
           '<x>&nbsp;</x></{root}>', '<x>\x01</x></{root}>', '<x a=1/></{root}>', '<x a="1" a="2"/></{root}>', '</{root}><second/>',
           '<p:x/></{root}>', '<x><![CDATA[ open </x></{root}>', '<!-- c -- c --></{root}>', '']

def wellformed(raw):
    """independent reader (expat, not libxml2): is this text one well-formed XML document?"""
    from xml.parsers import expat
    try:
        if isinstance(raw, str): raw = raw.encode('utf-8')
        expat.ParserCreate(namespace_separator=' ').Parse(raw, True)
        return True
    except Exception:
        return False

class FakeSock:
    def __init__(self):
        self.inb = []; self.eof = False; self.err = False; self.out = bytearray(); self.closed = False
        self.nwrites = 0; self.wfail = None
        self.seg = None; self.seg_i = 0          # e2e: sizes of the successive reads (cyclic); None = one read per server message
    def next_read(self):
        """the octets of one read: the stream available now, re-cut by self.seg (tools/harness/e2e_check.py)"""
        d = self.inb.pop(0)
        if self.seg:
            n = max(1, self.seg[self.seg_i % len(self.seg)]); self.seg_i += 1
            while len(d) < n and self.inb:
                d += self.inb.pop(0)
            if len(d) > n:
                self.inb.insert(0, d[n:]); d = d[:n]
        return d
    def readable(self):
        return (bool(self.inb) or self.eof or self.err) and not self.closed

class _Selector:
    def __init__(self):
        self.socks = []
    def register(self, s, ev):
        self.socks.append(s)
    def select(self, timeout=None):
        ses = self.socks[0]
        ses._S.point('select', enabled=lambda: ses._sock.readable() or bool(ses._q.d) or ses._closing.flag)
        return [1] if ses._sock.readable() else []
    def close(self):
        pass

class _SelMod:
    EVENT_READ = 1
    DefaultSelector = _Selector

class AppOrder(set):
    """Session._listeners with a scripted iteration order: the application listeners (class `cls`) first or last, the
    others in registration order."""
    def __init__(self, items, cls, first):
        set.__init__(self); self.cls, self.first, self.seq = cls, first, []
        for x in items: self.add(x)
    def add(self, x):
        if x not in self: self.seq.append(x)
        set.add(self, x)
    def discard(self, x):
        if x in self: self.seq.remove(x)
        set.discard(self, x)
    def __iter__(self):
        apps = [x for x in self.seq if isinstance(x, self.cls)]
        rest = [x for x in self.seq if not isinstance(x, self.cls)]
        return iter(apps + rest if self.first else rest + apps)

class LDict(dict):
    """RPCReplyListener._id2rpc with every access logged as an effect."""
    def __init__(self, *a):
        dict.__init__(self, *a); self.S = sched.S
    def __setitem__(self, k, v):
        self.S.effect('tset', k); dict.__setitem__(self, k, v)
    def __getitem__(self, k):
        try:
            v = dict.__getitem__(self, k)
        except KeyError:
            self.S.effect('tget', k, False); raise
        self.S.effect('tget', k, True)
        return v
    def __delitem__(self, k):
        self.S.effect('tdel', k); dict.__delitem__(self, k)
    def values(self):
        self.S.effect('tvalues', list(dict.keys(self)))
        return dict.values(self)
    def clear(self):
        self.S.effect('tclear'); dict.clear(self)

_installed = {}
def install():
    """Rebind the module-level names ncclient imported (no source hooks)."""
    import ncclient.transport.session as ses, ncclient.operations.rpc as rpc
    if not _installed:
        _installed.update(ses=(ses.Lock, ses.Event, ses.Queue, ses.selectors), rpc=(rpc.Lock, rpc.Event, rpc.RPCReplyListener.creation_lock),
                          listener=rpc.RPCReplyListener)
        base = rpc.RPCReplyListener
        class LtsListener(base):
            """The real listener class; only its pending table is replaced by a logging dict when an
            instance is created (the creation itself, with its locks, is the library's code)."""
            def __new__(cls, session, device_handler):
                inst = base.__new__(cls, session, device_handler)
                if type(inst._id2rpc) is dict:
                    inst._id2rpc = LDict(inst._id2rpc)
                return inst
        _installed['LtsListener'] = LtsListener
    ses.Lock, ses.Event, ses.Queue, ses.selectors = SLock, SEvent, SQueue, _SelMod
    rpc.Lock, rpc.Event = SLock, SEvent
    rpc.RPCReplyListener = _installed['LtsListener']
    _installed['listener'].creation_lock = SLock()

def uninstall():
    import ncclient.transport.session as ses, ncclient.operations.rpc as rpc
    if _installed:
        ses.Lock, ses.Event, ses.Queue, ses.selectors = _installed['ses']
        rpc.RPCReplyListener = _installed['listener']
        rpc.Lock, rpc.Event, rpc.RPCReplyListener.creation_lock = _installed['rpc']

def make_session_class():
    from ncclient.transport.session import Session
    from ncclient.transport.parser import DefaultXMLParser
    from ncclient.capabilities import Capabilities
    class LtsSession(Session):
        def __init__(self, dh, sock):
            Session.__init__(self, Capabilities(dh.get_capabilities()))
            self._device_handler = dh
            self._buffer = io.BytesIO(); self._message_list = []
            self._closing = SEvent(); self._sock = sock
            self.parser = DefaultXMLParser(self)
            self._connected = True
            self._server_capabilities = Capabilities(['urn:ietf:params:netconf:base:1.0', 'urn:ietf:params:netconf:base:1.1'])
            self._q.qname = 'q'; self._notification_q.qname = 'nq'
            self._S = sched.S
        @property
        def connected(self):
            self._S.point('chk'); v = self._connected; self._S.effect('chk', v); return v
        def close(self):
            self._S.point('close')
            self._closing.flag = True; self._sock.closed = True; self._connected = False
            self._S.effect('close')
        def _transport_register(self, sel, ev):
            sel.register(self, ev)
        def _send_ready(self):
            return True
        def _transport_write(self, data):
            self._S.point('write')
            if getattr(self._S, 'draining', False):
                raise OSError('scenario over')       # end of the scheduled run: unblock a worker that would retry forever
            s = self._sock
            s.nwrites += 1
            if s.wfail is not None and s.nwrites > s.wfail[0]:
                if s.nwrites == s.wfail[0] + 1 and s.wfail[1] > 0 and len(data) > 1:
                    n = min(s.wfail[1], len(data) - 1)          # a short write first ...
                    s.out += data[:n]; self._S.effect('write', bytes(data[:n])); return n
                self._S.effect('wfail'); return 0                 # ... then the transport accepts nothing more
            s.out += data; self._S.effect('write', bytes(data)); return len(data)
        def _transport_read(self):
            self._S.point('read')
            s = self._sock
            if s.inb:
                d = s.next_read(); self._S.effect('read', 'data', bytes(d)); return d
            if s.err:
                self._S.effect('read', 'err'); raise OSError('connection reset (injected)')
            self._S.effect('read', 'eof'); return b''
        def _dispatch_message(self, raw):
            self._S.effect('dispatch', raw)
            return Session._dispatch_message(self, raw)
        def _dispatch_error(self, err):
            self._S.effect('errbcast', err)
            try:
                return Session._dispatch_error(self, err)
            finally:
                self._S.effect('errbcast_end')
    return LtsSession

def reply_xml(mid, ok=True):
    a = ' message-id="%s"' % mid if mid is not None else ''
    return '<rpc-reply xmlns="%s"%s><ok/></rpc-reply>' % (BASE, a)
def notif_xml(n):
    return '<notification xmlns="%s"><eventTime>2026-01-01T00:00:0%dZ</eventTime><ev>n%d</ev></notification>' % (NOTIF, n % 10, n)
def notif_bad_xml(n, v):
    """<notification> with a valid start tag (and event number n) whose body is not well-formed"""
    return '<notification xmlns="%s"><eventTime>2026-01-01T00:00:0%dZ</eventTime><ev>n%d</ev>' % (NOTIF, n % 10, n) + BADBODY[v % len(BADBODY)].replace('{root}', 'notification')
def reply_bad_xml(mid, v):
    """<rpc-reply> for message-id mid with a valid start tag whose body is not well-formed"""
    return '<rpc-reply xmlns="%s" message-id="%s"><data>' % (BASE, mid) + BADBODY[v % len(BADBODY)].replace('{root}', 'rpc-reply')
def hostile_text(v, mid):
    return HOSTILE[v % len(HOSTILE)].replace('{id}', mid or UNKNOWN_ID)
def other_xml(mid):
    a = ' message-id="%s"' % mid if mid is not None else ''
    return '<frob xmlns="urn:example:x"%s/>' % a

class Req:
    """What the harness keeps of a request: no strong reference to the RPC object (an application may drop its handle)."""
    def __init__(self, key, rpc):
        import weakref
        self.key, self.id, self._event = key, rpc.id, rpc._event
        self._ref = weakref.ref(rpc)
        self._final = None
    def done(self, rpc):
        """called just before the harness drops its handle: remember what the request held"""
        self._final = (rpc.reply, rpc.error)
    @property
    def reply(self):
        r = self._ref()
        return r.reply if r is not None else (self._final[0] if self._final else None)
    @property
    def error(self):
        r = self._ref()
        return r.error if r is not None else (self._final[1] if self._final else None)

class Scenario:
    """spec = dict(profile=<device name>, clients=[[op,...],...], server=[action,...], eager=bool)
    client op: ('rpc', sync) | ('take', block)
    server action: ('reply', k) ('dup', k) ('reply_noid',) ('reply_unknown',) ('notif', n)
                   ('other', k|None) ('eof',) ('err',) ('wait_all',)  -- k = index of the k-th request received"""
    def __init__(self, spec, decisions=None, seed=0, rng_after=True):
        self.spec, self.decisions, self.seed, self.rng_after = spec, decisions, seed, rng_after
    def run(self, max_steps=3000):
        from ncclient.manager import make_device_handler
        from ncclient.transport.session import NotificationHandler
        from ncclient.operations.rpc import RPCReplyListener, RaiseMode
        from ncclient.operations.retrieve import Get
        from ncclient.operations.edit import Commit
        spec = self.spec
        S = sched.S = Sched(decisions=self.decisions, seed=self.seed, eager_timeouts=bool(spec.get('eager')), rng_after=self.rng_after)
        S.release_points = True
        install()
        dh = make_device_handler({'name': spec.get('profile', 'default')})
        sock = FakeSock()
        if spec.get('wfail') is not None:
            sock.wfail = tuple(spec['wfail'])
        sock.seg = spec.get('seg')
        ses = make_session_class()(dh, sock)
        base11 = bool(spec.get('base11'))
        if base11:
            from ncclient.transport.session import NetconfBase
            ses._base = NetconfBase.BASE_11
        decl = b'<?xml version="1.0" encoding="UTF-8"?>' if spec.get('decl') else b''
        nul = b'\x00\x00' if spec.get('nulpad') else b''
        def frame(x):
            x = decl + x if x.startswith(b'<') and not x.startswith(b'<?xml') else x
            x = nul + x + nul[:1]            # Huawei devices pad messages with NUL octets; the profile strips them
            return (b'\n#%d\n' % len(x) + x + b'\n##\n') if base11 else x + b']]>]]>'
        ses.add_listener(NotificationHandler(ses._notification_q))
        self.ses, self.sock = ses, sock
        self.qualify = bool(dh.perform_qualify_check())
        if spec.get('app'):
            from ncclient.transport.session import SessionListener
            class AppListener(SessionListener):
                """An application listener using the documented API from inside its callbacks."""
                def callback(inner, root, raw):
                    ses.get_listener_instance(AppListener)
                def errback(inner, err):
                    ses.remove_listener(inner)
                    if str(spec['app']).startswith('raise'):
                        raise RuntimeError('application errback fails')      # a buggy application errback
            if spec['app'] in ('raise_first', 'raise_last'):
                # the iteration order of the listener set is the environment's choice: scripted here
                ses._listeners = AppOrder(ses._listeners, AppListener, spec['app'] == 'raise_first')
            for _ in range(2):
                ses.add_listener(AppListener())
        real_run = ses.run
        def wrun():
            try:
                real_run()
            finally:
                S.effect('exit')
        ses.run = S.wrap_run('W', wrun)
        S.adopt('W'); ses.start()
        outcomes = {}
        rpcs = []
        def received():
            return re.findall(rb'message-id="([^"]+)"', bytes(sock.out))
        def client(ci, ops):
            def body():
                try:
                    ops_loop()
                finally:
                    for key, rpc in pending_async:      # pipelined requests are collected at the end, in order
                        try:
                            rpc.event.wait(5)
                            if rpc.event.is_set():
                                if rpc.error: raise rpc.error
                                m = re.search(r'message-id="([^"]+)"', rpc.reply.xml)
                                try:                     # what an asynchronous caller gets when it looks at the reply
                                    rpc.reply.parse(); view = 'parsed'
                                except Exception as e:
                                    view = 'parse-raises:' + type(e).__name__
                                outcomes[key] = ('reply', m.group(1) if m else None, rpc.id, view)
                            else:
                                outcomes[key] = ('exc', 'TimeoutExpiredError')
                        except Exception as e:
                            outcomes[key] = ('exc', type(e).__name__)
            pending_async = []
            def ops_loop():
                for oi, op in enumerate(ops):
                    key = (ci, oi)
                    S.effect('opstart', key)
                    if op[0] in ('rpc', 'rpc_ff'):
                        sync = op[1] if op[0] == 'rpc' else False
                        if spec.get('reseed'):
                            # an application that seeds the process-wide generator before each job (reproducible runs):
                            # message-ids must stay unique whatever the application does with `random`
                            import random as _random
                            _random.seed(spec['reseed'])
                        try:
                            rpc = Get(ses, dh, async_mode=not sync, timeout=5, raise_mode=RaiseMode.NONE)
                        except Exception as e:
                            outcomes[key] = ('exc-init', type(e).__name__); continue
                        rq = Req(key, rpc)
                        rpcs.append((key, rq))
                        try:
                            r = rpc.request()
                            if op[0] == 'rpc_ff':
                                del r, rpc; continue              # fire and forget: the application drops its handle
                            if not sync:
                                pending_async.append((key, rpc)); continue
                            m = re.search(r'message-id="([^"]+)"', rpc.reply.xml)
                            outcomes[key] = ('reply', m.group(1) if m else None, rpc.id, 'returned')
                        except Exception as e:
                            outcomes[key] = ('exc', type(e).__name__)
                        if rpc is not None:
                            rq.done(rpc)
                        r = rpc = None                            # a completed / timed-out call leaves no handle behind
                    elif op[0] == 'refused':
                        # an operation the library refuses locally (the server did not advertise :candidate): it must
                        # leave nothing behind on the session
                        try:
                            Commit(ses, dh, raise_mode=RaiseMode.NONE).request()
                            outcomes[key] = ('refused-not',)
                        except Exception as e:
                            outcomes[key] = ('refused', type(e).__name__)
                    elif op[0] == 'await_disc':
                        S.point('await', enabled=lambda: not ses._connected)
                    elif op[0] == 'await_srv':
                        # until the server has performed its action number op[1] and the session thread has consumed it
                        # (it sleeps in select() again, or has ended); also released when the server gave up
                        def consumed(j=op[1]):
                            w = S.threads['W']
                            if w['done']:
                                return True              # nobody will consume anything any more
                            if not (srv_done[0] > j or S.threads['S']['done']):
                                return False
                            return not sock.inb and not sock.eof and not sock.err and w['label'] == 'select'
                        S.point('await', enabled=consumed)
                    elif op[0] == 'close':
                        ses.close(); outcomes[key] = ('closed',)
                    elif op[0] == 'take':
                        from ncclient.manager import Manager          # the documented entry point (wrapper over the session's)
                        n = Manager(ses, dh, timeout=5).take_notification(op[1], 5 if op[1] else None)
                        S.effect('took', n is None, len(ses._notification_q.d))     # what was queued when it returned
                        view = None
                        if n is not None:
                            try:
                                view = str(n.notification_ele.tag)
                            except Exception as e:
                                view = 'raises:' + type(e).__name__
                        outcomes[key] = ('took', None if n is None else n.notification_xml, view)
            return body
        srv_done = [0]
        dirty = [False]
        self.sent_texts = []                 # (action index, kind, payload text) of what the server framed correctly
        def server():
            for ai, act in enumerate(spec['server']):
                srv_done[0] = ai
                k = act[0]
                if k in ('reply', 'dup', 'partial', 'reply_bad') or (k == 'other' and act[1] is not None):
                    idx = act[1]
                    S.point('srv', enabled=lambda idx=idx: idx < len(received()))
                    if idx >= len(received()):
                        return                      # abandoned at the end of the run
                    mid = received()[idx].decode()
                    x = reply_xml(mid) if k != 'other' else other_xml(mid)
                    if k == 'reply_bad':
                        x = reply_bad_xml(mid, act[2])
                    if k == 'partial':
                        # the beginning of a reply with non-ASCII text, cut inside a multi-byte character; what follows
                        # in the script (eof / err) loses the connection inside this message
                        full = ('<rpc-reply xmlns="%s" message-id="%s"><data>Z\u00fcrich \u2013 caf\u00e9 \U0001F600</data></rpc-reply>' % (BASE, mid)).encode()
                        cut = full.index('\u00fc'.encode()) + 1 if act[2] == 0 else (full.index('\U0001F600'.encode()) + act[2])
                        body = full[:cut]
                        if act[2] >= 4:     # 4: a stray 0xff in the text; 5: control - the unfinished frame decodes (cut after a complete character)
                            body = full[:full.index('\u00fc'.encode())] + (b'\xff</da' if act[2] == 4 else '\u00fcri'.encode())
                        sock.inb.append((b'\n#%d\n' % len(full) + body) if base11 else body)
                        S.effect('srv', act); continue
                elif k == 'wait_all':
                    nreq = sum(1 for ops in spec['clients'] for op in ops if op[0] in ('rpc', 'rpc_ff'))
                    S.point('srv', enabled=lambda: len(received()) >= nreq); continue
                else:
                    # the server speaks only after it has received a request (then the reply listener exists), except to close
                    free = k in ('eof', 'err', 'notif', 'notif_bad')        # a notification needs no reply listener
                    S.point('srv', enabled=(None if free else (lambda: len(received()) >= 1)))
                    if not free and len(received()) < 1:
                        return
                    x = {'reply_noid': reply_xml(None), 'reply_unknown': reply_xml(UNKNOWN_ID),
                         'notif': notif_xml(act[1]) if k == 'notif' else None, 'other': other_xml(None),
                         'notif_bad': notif_bad_xml(act[1], act[2]) if k == 'notif_bad' else None,
                         'hostile': hostile_text(act[1], (received()[-1].decode() if received() else None)) if k == 'hostile' else None}.get(k, '')
                if k == 'eof':
                    sock.eof = True
                elif k == 'err':
                    sock.err = True
                elif k == 'garbage':              # breaks RFC 6242 chunk framing (only meaningful under base 1.1)
                    sock.inb.append(b'\n#x1\n<a/>\n##\n' if base11 else b'garbage without delimiter ')
                    dirty[0] = True               # 1.0: these octets become the beginning of the next message
                elif k == 'nonxml':               # correctly framed, not XML
                    sock.inb.append(frame(b'this is <<< not xml')); dirty[0] = False
                elif k == 'badutf8':              # correctly framed, not UTF-8
                    sock.inb.append(frame(b'<a>\xff\xfe</a>')); dirty[0] = False
                else:
                    sock.inb.append(frame(x.encode()))
                    self.sent_texts.append((ai, 'merged' if dirty[0] else k, x))
                    dirty[0] = False
                S.effect('srv', act)
            srv_done[0] = len(spec['server'])
        for ci, ops in enumerate(spec['clients']):
            S.spawn('C%d' % ci, client(ci, ops))
        S.spawn('S', server)
        def clients_done():
            return all(S.threads['C%d' % ci]['done'] for ci in range(len(spec['clients'])))
        res = S.run(max_steps=max_steps, stop_when=None)
        self.result = res
        self.blocked_at = {n: (t['label'], bool(t['timeout_ok'])) for n, t in S.threads.items() if not t['done']}
        self.n_effects = len(S.effects)
        self.received = [r.decode() for r in received()]
        self.connected_end = ses._connected
        self.worker_done = S.threads['W']['done']
        self.nq_left = [n.notification_xml for n in ses._notification_q.d]
        from ncclient.operations.rpc import RPCReplyListener as _L
        self.reply_listeners = [l for l in ses._listeners if isinstance(l, _installed['listener'])]
        self.pending_end = [k for l in self.reply_listeners for k in list(l._id2rpc.keys())]
        # let every parked thread run to its end outside the scheduler
        self._drain(S, ses, sock)
        self.S, self.outcomes, self.rpcs = S, outcomes, rpcs
        return self
    def _drain(self, S, ses, sock):
        ses._closing.flag = True; sock.closed = True
        def free_point(label, enabled=None, timeout_ok=False):
            return 'timeout' if timeout_ok else 'go'
        S.point = free_point
        S.effect = lambda *e: None
        S.draining = True
        for t in S.threads.values():
            if not t['done']:
                t['why'] = 'timeout' if t['timeout_ok'] else 'go'
                t['sem'].release()
        ses.join(2)
        for th in S.handles:
            th.join(2)

    # ---------- effect log -> LTS labels ----------
    def labels(self):
        """Returns (labels, rid_of_key, id_of_rid). Message ids are renamed 100+rid; unknown id = 7."""
        effs = self.S.effects[:self.n_effects]
        rid_of_rpc, rid_of_id, labels, reg = {}, {}, [], []
        cur = {}                                  # client thread -> rid of the request in progress
        mode_err = mode_soft = False
        client_closed = False
        def idn(mid):
            return 100 + rid_of_id[mid] if mid in rid_of_id else 7
        def notif_idx(raw):
            m = re.search(r'<ev>n(\d+)</ev>', raw)
            return int(m.group(1)) if m else 0
        def rid_of_event(ev):
            for _, rq in self.rpcs:
                if rq._event is ev:
                    return rid_of_id.get(rq.id)
            return None
        for e in effs:
            th, k = e[0], e[1]
            if k == 'tset':
                rid = len(reg); reg.append(e[2]); rid_of_id[e[2]] = rid; cur[th] = rid
                labels.append([1, rid, 100 + rid])
            elif k == 'chk':
                labels.append([2, cur.get(th, 99), 1 if e[2] else 0])
            elif k == 'q.put':
                labels.append([3, cur.get(th, 99)])
            elif k == 'waitres':
                rid = rid_of_event(e[2])
                if rid is not None:
                    labels.append([4, rid, 1 if e[3] else 0])
            elif k == 'q.get' and th == 'W':
                m = re.search(r'message-id="([^"]+)"', e[2])
                labels.append([5, rid_of_id.get(m.group(1), 99) if m else 99])
            elif k == 'dispatch':
                raw = e[2]
                fixed = None
                if not self._parses(raw):
                    fixed = self.ses._device_handler.handle_raw_dispatch(raw)     # what the profile makes of it
                    if isinstance(fixed, str): raw = fixed
                raw = re.sub(r'^<\?xml[^>]*\?>', '', raw)
                m = re.search(r'message-id="([^"]+)"', raw)
                if isinstance(fixed, Exception):
                    labels.append([6, 6, self.err_code(fixed)])      # not XML; the profile answers with an exception (SessionSoft.v)
                elif not self._parses(raw):
                    labels.append([6, 5, 0])
                elif raw.startswith('<rpc-reply'):
                    labels.append([6, 0, idn(m.group(1))] if m else [6, 1, 0])
                elif raw.startswith('<notification'):
                    # the start tag is readable; the body is judged by an independent reader (SessionSoft.v XRecvBadNotif)
                    labels.append([6, 2, notif_idx(raw)] if wellformed(raw) else [6, 7, notif_idx(raw)])
                else:
                    labels.append([6, 3, idn(m.group(1))] if m else [6, 4, 0])
            elif k == 'nq.put':
                labels.append([7, notif_idx(e[2].notification_xml)])
            elif k == 'tget':
                labels.append([8, idn(e[2]), 1 if e[3] else 0])
            elif k == 'evset':
                rid = rid_of_event(e[2])
                if rid is not None:
                    labels.append([15 if mode_err else 9, rid])
            elif k == 'tdel':
                labels.append([10, idn(e[2])])
            elif k == 'errbcast_end':
                if mode_soft: mode_err = mode_soft = False      # the non-fatal broadcast is over: the worker goes back into its loop
            elif k == 'read' and e[2] == 'eof':
                labels.append([11])
            elif k == 'read' and e[2] == 'data' and getattr(self, 'keep_reads', False):
                labels.append([30, e[3]])            # e2e: the octets of the read (not an LTS label)
            elif k == 'read' and e[2] == 'err':
                labels.append([12])
            elif k == 'wfail':
                if not labels or labels[-1] != [20]:
                    labels.append([20])
            elif k == 'tvalues':
                labels.append([13, [idn(x) for x in e[2]]])
            elif k == 'tclear':
                labels.append([14])
            elif k == 'close':
                if th != 'W': client_closed = True
                labels.append([16, 0 if th == 'W' else 1])
            elif k == 'exit':
                labels.append([17])
            elif k == 'nq.get' and th != 'W':
                labels.append([18, 0 if e[2] is None else 1, 0 if e[2] is None else notif_idx(e[2].notification_xml)])
            elif k == 'errbcast':
                mode_err = True
                code = self.err_code(e[2])
                prev = next((l for l in reversed(labels) if l[0] in (5, 6, 7, 8, 9, 10, 11, 12, 20)), None)
                explained = prev is not None and (prev[0] in (11, 12, 20) or (prev[0] == 8 and prev[2] == 0) or
                                                  (prev[0] == 6 and (prev[1] in (1, 6, 7) or (prev[1] == 4 and not self.qualify))))
                mode_soft = prev is not None and prev[0] == 6 and prev[1] == 6
                if not explained and not client_closed:
                    labels.append([21, code])         # the exception came out of parser.parse (framing / decoding)
                labels.append([19, code])
        self.rid_of_id, self.reg = rid_of_id, reg
        return labels
    @staticmethod
    def _parses(raw):
        from ncclient.xml_ import parse_root
        try:
            parse_root(raw); return True
        except Exception:
            return False
    @staticmethod
    def err_code(err):
        from ncclient.transport.errors import SessionCloseError, TransportError
        from ncclient.operations.errors import OperationError, TimeoutExpiredError
        from ncclient.transport.errors import NetconfFramingError
        if isinstance(err, SessionCloseError): return 1
        if isinstance(err, NetconfFramingError): return 6
        if isinstance(err, TimeoutExpiredError): return 4
        if isinstance(err, OperationError): return 2
        if isinstance(err, TransportError): return 5
        return 3
