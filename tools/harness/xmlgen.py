"""XML document generator, independent reader (expat) and tree canonicaliser (used by C17, C10).

Canonical trees are nested lists mirroring coq/Glue/XCodec.v (so a decoded model answer compares with ==):
  xnode : [0, name, attrs, kids] | [1, text] | [2, comment] | [3, target, data]
  name  : [ns, local]   ns : [] | [uri]     attr : [name, value]       (all strings are UTF-8 bytes)
  mnode : [0, name, prefixed, decls, attrs, kids] | 1,2,3 as above       decl : [has_prefix, uri]
Source documents ("sdoc") keep prefixes and declarations so that the harness serialises them itself:
  {'k':'e','prefix':p|None,'local':s,'decls':[(p|None,uri)],'attrs':[(p|None,local,value)],'kids':[...]}
  {'k':'t','s':text,'cdata':bool} | {'k':'c','s':text} | {'k':'p','t':target,'s':data}
"""
import xml.parsers.expat

B = lambda s: s.encode('utf-8')

# ---------------------------------------------------------------- generator
NAMES = ['a', 'b', 'data', 'config', 'x', 'item', 'rpc-reply', 'ok', 'name', 'i_f', 'v1.2', 'é', '名', 'A', '_u', 'long-element-name']
URIS = ['urn:u', 'urn:v', 'http://example.com/ns/1', 'urn:ietf:params:xml:ns:netconf:base:1.0', 'urn:x:%C3%A9', 'urn:w', 'u']
PREFIXES = ['p', 'q', 'nc', 'ns0', 'ns1', 'x', 'é']
TEXT_ATOMS = ['a', 'b', ' ', '  ', '\n', '\t', '\r', '\r\n', '<', '>', '&', '"', "'", ']]>', '&amp;', '&#13;', '<a>', '</a>', '<!--', '-->',
              '<?xml', 'é', 'ß', '€', '名前', '\U0001F600', '́', '\u0085', ' ', '�', '퟿', '', 'xmlns', '=', '{', '}',
              'word', '0', '-', '--', '\x7f', '\xa0']


def gen_text(rng, maxlen=6, blank_p=0.15):
    if rng.random() < blank_p:
        return ''.join(rng.choice([' ', '\n', '\t', '\r', '  ']) for _ in range(rng.randint(1, 3)))
    return ''.join(rng.choice(TEXT_ATOMS) for _ in range(rng.randint(1, maxlen)))


def gen_comment(rng):
    s = ''.join(rng.choice([a for a in TEXT_ATOMS if '-' not in a and '\r' not in a]) for _ in range(rng.randint(0, 4)))
    return s


def gen_pi(rng):
    t = rng.choice(['pi', 'target', 'xml-stylesheet', 'php', 'é'])
    s = ''.join(rng.choice([a for a in TEXT_ATOMS if '?' not in a and '\r' not in a]) for _ in range(rng.randint(0, 3)))
    s = s.lstrip(' \t\n')
    if '?>' in s: s = s.replace('?>', '')
    return t, s


class DocGen:
    """Random well-formed documents with namespaces/prefixes, attributes, mixed content, comments, PIs."""
    def __init__(self, rng, max_depth=4, max_kids=4, pis=True, comments=True, same_local_attrs=0.15, blank_p=0.15, names=None):
        self.rng, self.max_depth, self.max_kids, self.pis, self.comments = rng, max_depth, max_kids, pis, comments
        self.same_local_attrs, self.blank_p = same_local_attrs, blank_p
        self.names = names or NAMES

    def element(self, scope=None, depth=0, local=None, force_ns=None):
        """-> (sdoc, expected xnode).  scope: dict prefix|None -> uri ('' = undeclared default)."""
        rng = self.rng
        scope = dict(scope or {})
        decls = []
        for _ in range(rng.choice([0, 0, 0, 1, 1, 2])):
            if rng.random() < 0.4:
                p, u = None, rng.choice(URIS)
            else:
                p, u = rng.choice(PREFIXES), rng.choice(URIS)
            if p in [d[0] for d in decls]: continue
            decls.append((p, u)); scope[p] = u
        if scope.get(None) and rng.random() < 0.08 and None not in [d[0] for d in decls]:
            decls.append((None, '')); scope[None] = ''
        if force_ns is not None:
            # choose/declare a binding for the wanted namespace
            cands = [p for p, u in scope.items() if u == force_ns]
            if force_ns == '':
                if scope.get(None):
                    decls = [d for d in decls if d[0] is not None] + [(None, '')]; scope[None] = ''
                prefix = None
            elif cands and rng.random() < 0.7:
                prefix = rng.choice(cands)
            else:
                prefix = rng.choice([None, 'nc', 'p'])
                decls = [d for d in decls if d[0] != prefix] + [(prefix, force_ns)]; scope[prefix] = force_ns
        else:
            prefix = rng.choice([None, None] + [p for p in scope if p is not None])
        local = local or rng.choice(self.names)
        ens = scope.get(prefix) or None
        # attributes: unique expanded names
        attrs, seen = [], set()
        for _ in range(rng.choice([0, 0, 1, 1, 2, 3])):
            ap = rng.choice([None, None] + [p for p in scope if p is not None])
            al = rng.choice(self.names)
            if attrs and rng.random() < self.same_local_attrs:
                al = rng.choice(attrs)[1]                     # same local name under another namespace
                others = [p for p in scope if p is not None]
                if others: ap = rng.choice(others)
            key = (scope.get(ap) if ap is not None else None, al)
            if key in seen or al == 'xmlns': continue
            seen.add(key)
            attrs.append((ap, al, gen_text(rng, 4, 0.1) if rng.random() < 0.9 else ''))
        # annotation attributes servers do send (xsi:type / xsi:nil, lxml's py:pytype): data like any other attribute
        for ap, uri, al, val, pr in (('xsi', 'http://www.w3.org/2001/XMLSchema-instance', 'type', 'xs:unsignedLong', 0.07),
                                    ('xsi', 'http://www.w3.org/2001/XMLSchema-instance', 'nil', 'true', 0.03),
                                    ('py', 'http://codespeak.net/lxml/objectify/pytype', 'pytype', 'int', 0.04)):
            if rng.random() < pr and scope.get(ap, uri) == uri and (uri, al) not in seen:
                if scope.get(ap) != uri:
                    decls.append((ap, uri)); scope[ap] = uri
                seen.add((uri, al)); attrs.append((ap, al, val))
        kids, xkids = [], []
        if depth < self.max_depth:
            last_text = False
            for _ in range(rng.randint(0, self.max_kids)):
                r = rng.random()
                if r < 0.45:
                    s, x = self.element(scope, depth + 1)
                    kids.append(s); xkids.append(x); last_text = False
                elif r < 0.8:
                    if last_text: continue
                    t = gen_text(rng, 6, self.blank_p)
                    kids.append({'k': 't', 's': t, 'cdata': ']]>' not in t and rng.random() < 0.1}); xkids.append([1, B(t)]); last_text = True
                elif r < 0.92 and self.comments:
                    c = gen_comment(rng)
                    kids.append({'k': 'c', 's': c}); xkids.append([2, B(c)]); last_text = False
                elif self.pis:
                    t, s = gen_pi(rng)
                    kids.append({'k': 'p', 't': t, 's': s}); xkids.append([3, B(t), B(s)]); last_text = False
        sd = {'k': 'e', 'prefix': prefix, 'local': local, 'decls': decls, 'attrs': attrs, 'kids': kids}
        xa = [[mkname(scope.get(ap) if ap is not None else None, al), B(v)] for ap, al, v in attrs]
        return sd, [0, mkname(ens, local), xa, xkids]


def mkname(ns, local):
    return [[B(ns)] if ns else [], B(local)]


def esc_text(s):
    return s.replace('&', '&amp;').replace('<', '&lt;').replace('>', '&gt;').replace('\r', '&#13;')


def esc_attr(s, q):
    s = s.replace('&', '&amp;').replace('<', '&lt;').replace('\r', '&#13;').replace('\n', '&#10;').replace('\t', '&#9;')
    return s.replace('"', '&quot;') if q == '"' else s.replace("'", '&apos;')


def serialise(sd, rng=None, out=None):
    """Harness-side serialiser of an sdoc (no declaration)."""
    top = out is None
    if top: out = []
    k = sd['k']
    if k == 't':
        out.append('<![CDATA[%s]]>' % sd['s'] if sd.get('cdata') and '\r' not in sd['s'] else esc_text(sd['s']))
    elif k == 'c':
        out.append('<!--%s-->' % sd['s'])
    elif k == 'p':
        out.append('<?%s%s?>' % (sd['t'], (' ' + sd['s']) if sd['s'] else ''))
    else:
        qn = (sd['prefix'] + ':' if sd['prefix'] else '') + sd['local']
        parts = [qn]
        items = [('xmlns' + (':' + p if p else ''), u) for p, u in sd['decls']] + \
                [((p + ':' if p else '') + l, v) for p, l, v in sd['attrs']]
        if rng is not None and len(items) > 1 and rng.random() < 0.3:
            rng.shuffle(items)
        for n, v in items:
            q = '"' if rng is None or rng.random() < 0.7 else "'"
            parts.append('%s=%s%s%s' % (n, q, esc_attr(v, q), q))
        sep = ' ' if rng is None or rng.random() < 0.9 else '\n  '
        if not sd['kids'] and (rng is None or rng.random() < 0.6):
            out.append('<%s/>' % sep.join(parts))
        else:
            out.append('<%s>' % sep.join(parts))
            for c in sd['kids']: serialise(c, rng, out)
            out.append('</%s>' % qn)
    if top: return ''.join(out)


# ---------------------------------------------------------------- independent reader (expat)
def _split(n):
    if ' ' in n:
        u, l = n.split(' ', 1)
        return [[B(u)], B(l)]
    return [[], B(n)]


def expat_events(doc):
    """Event stream of the independent parser: ('s', name, attrs) ('e',) ('t', bytes) ('c', bytes) ('p', t, d);
    ends with ('x', message) if the document is rejected.  Adjacent character data is merged."""
    if isinstance(doc, str): doc = doc.encode('utf-8')
    evs = []
    p = xml.parsers.expat.ParserCreate(namespace_separator=' ')
    p.ordered_attributes = True
    p.buffer_text = True
    def chars(s):
        if evs and evs[-1][0] == 't': evs[-1] = ('t', evs[-1][1] + B(s))
        else: evs.append(('t', B(s)))
    p.StartElementHandler = lambda n, a: evs.append(('s', _split(n), [[_split(a[i]), B(a[i + 1])] for i in range(0, len(a), 2)]))
    p.EndElementHandler = lambda n: evs.append(('e',))
    p.CharacterDataHandler = chars
    p.CommentHandler = lambda s: evs.append(('c', B(s)))
    p.ProcessingInstructionHandler = lambda t, d: evs.append(('p', B(t), B(d)))
    try:
        p.Parse(doc, True)
    except xml.parsers.expat.ExpatError as e:
        evs.append(('x', str(e)))
    return evs


def tree_from_events(evs):
    """Root element tree (prolog/epilog comments and PIs dropped); raises ValueError on a rejected document."""
    stack, root = [], None
    for e in evs:
        if e[0] == 'x': raise ValueError('independent reader rejects: ' + e[1])
        if e[0] == 's':
            n = [0, e[1], e[2], []]
            if stack: stack[-1][3].append(n)
            else: root = n
            stack.append(n)
        elif e[0] == 'e': stack.pop()
        elif stack:
            if e[0] == 't': stack[-1][3].append([1, e[1]])
            elif e[0] == 'c': stack[-1][3].append([2, e[1]])
            else: stack[-1][3].append([3, e[1], e[2]])
    if root is None: raise ValueError('no element')
    return root


def indep_read(doc):
    return tree_from_events(expat_events(doc))


def events_val(evs):
    """expat events -> model event values (C17 glue fn 6/7)."""
    out = []
    for e in evs:
        if e[0] == 's': out.append([0, e[1], e[2]])
        elif e[0] == 'e': out.append([1])
        elif e[0] == 't': out.append([2, e[1]])
        elif e[0] == 'c': out.append([3, e[1]])
        elif e[0] == 'p': out.append([4, e[1], e[2]])
        else: out.append([5])
    return out


# ---------------------------------------------------------------- views of lxml trees
def _lx_name(tag):
    tag = str(tag)                       # a QName object after replace_namespace
    if tag[0] == '{':
        u, l = tag[1:].split('}', 1)
        return [[B(u)] if u else [], B(l)]
    return [[], B(tag)]


def _lx_special(e):
    from lxml import etree
    if e.tag is etree.Comment: return [2, B(e.text or '')]
    if e.tag is etree.ProcessingInstruction: return [3, B(e.target), B(e.text or '')]
    if e.tag is etree.Entity: return [1, B(e.text or '')]
    return None


def lx_tree(e, with_tail=False):
    """In-memory names of an lxml element as an xnode (text/tail as Text siblings), iterative in depth."""
    sp = _lx_special(e)
    if sp is not None: return sp
    root = [0, _lx_name(e.tag), [[_lx_name(k), B(v)] for k, v in e.attrib.items()], []]
    stack = [(e, root)]
    while stack:
        el, node = stack.pop()
        kids = node[3]
        if el.text: kids.append([1, B(el.text)])
        for c in el:
            sp = _lx_special(c)
            if sp is not None:
                kids.append(sp)
            else:
                n = [0, _lx_name(c.tag), [[_lx_name(k), B(v)] for k, v in c.attrib.items()], []]
                kids.append(n); stack.append((c, n))
            if c.tail: kids.append([1, B(c.tail)])
    return root


def lx_mnode(e, parent_nsmap=None):
    """In-memory view with binding facts (prefixed?, own declarations) for the model."""
    sp = _lx_special(e)
    if sp is not None: return sp
    pm = parent_nsmap or {}
    nm = e.nsmap
    # own declarations in document order (lxml lists the element's own nsDef first, in order; binding picks the first match)
    decls = [[1 if p is not None else 0, B(u)] for p, u in nm.items() if pm.get(p) != u]
    if None in pm and None not in nm:
        decls.append([0, b''])
    kids = []
    if e.text: kids.append([1, B(e.text)])
    for c in e:
        kids.append(lx_mnode(c, nm))
        if c.tail: kids.append([1, B(c.tail)])
    return [0, _lx_name(e.tag), 1 if e.prefix else 0, decls, [[_lx_name(k), B(v)] for k, v in e.attrib.items()], kids]


def lx_resolved(e, dflt=None):
    """Namespace-resolved view computed by the harness from nsmap (un-namespaced element in a default scope)."""
    sp = _lx_special(e)
    if sp is not None: return sp
    d = e.nsmap.get(None) or None
    n = _lx_name(e.tag)
    if not n[0] and d: n = [[B(d)], n[1]]
    kids = []
    if e.text: kids.append([1, B(e.text)])
    for c in e:
        kids.append(lx_resolved(c))
        if c.tail: kids.append([1, B(c.tail)])
    return [0, n, [[_lx_name(k), B(v)] for k, v in e.attrib.items()], kids]


def m_strip(m):
    """mnode -> (name, prefixed, attrs, kids) without declarations (binding names are not compared)."""
    if m[0] != 0: return m
    return [0, m[1], m[2], m[4], [m_strip(k) for k in m[5]]]


# ---------------------------------------------------------------- canonicaliser
def canon(t, sort_attrs=True, erase_ns=False, drop_blank=False, drop_comments=False, drop_pis=False):
    """Canonical form for comparison: attributes sorted, adjacent text merged, empty text dropped;
    optionally namespaces erased / white-space-only text dropped."""
    if t[0] != 0: return t
    def nm(n): return [[], n[1]] if erase_ns else n
    attrs = [[nm(a[0]), a[1]] for a in t[2]]
    if sort_attrs: attrs = sorted(attrs)
    kids = []
    for k in t[3]:
        if k[0] == 1:
            if kids and kids[-1][0] == 1: kids[-1] = [1, kids[-1][1] + k[1]]
            elif k[1]: kids.append([1, k[1]])
        elif k[0] == 2 and drop_comments: continue
        elif k[0] == 3 and drop_pis: continue
        else: kids.append(canon(k, sort_attrs, erase_ns, drop_blank, drop_comments, drop_pis))
    if drop_blank:
        kids = [k for k in kids if not (k[0] == 1 and k[1].strip(b' \t\r\n') == b'')]
    return [0, nm(t[1]), attrs, kids]


def has_local_collision(t):
    """Some element carries two attributes with one local name (hypothesis of C10_strip_shape)."""
    if t[0] != 0: return False
    ls = [a[0][1] for a in t[2]]
    return len(set(ls)) != len(ls) or any(has_local_collision(k) for k in t[3])


def tree_stats(t):
    """(elements, max depth, text nodes, comments, pis, namespaces) of an xnode."""
    n = d = tx = c = p = 0; nss = set()
    stack = [(t, 1)]
    while stack:
        x, dep = stack.pop()
        if x[0] == 0:
            n += 1; d = max(d, dep)
            if x[1][0]: nss.add(x[1][0][0])
            for k in x[3]: stack.append((k, dep + 1))
        elif x[0] == 1: tx += 1
        elif x[0] == 2: c += 1
        else: p += 1
    return n, d, tx, c, p, len(nss)
