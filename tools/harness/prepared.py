"""C09, order of calls: WHEN is the operation object built relative to the <hello> exchange?

The property says a gated operation is refused locally "when the server did not advertise" the capability, whatever the
application did before: a Manager builds a fresh operation object per call on a connected session, but the classes are public
(`from ncclient.operations import Commit`; `Commit(session, device_handler).request()`), and an object can be built on a
Session that is not connected yet - `Session.__init__` sets `_server_capabilities = None  # yet`, `_post_connect` fills it in
from the server's <hello>.  A history is

    pcr : build the object (server capabilities still None)  ->  connect (capabilities known)  ->  request()
    cpr : connect  ->  build the object  ->  request()          (what Manager.execute does, without the Manager)

and in both the request must not reach the wire unless every capability it depends on was advertised: either the
construction fails, or request() refuses.  The session is capture.CaptureSession with the real Session's start state
(`server_capabilities` None, not connected) until `connect()`; the class is the one a Manager of the profile would use
(manager.OPERATIONS overridden by the device handler's add_additional_operations())."""

ORDERS = ('pcr', 'cpr')

_cls = {}

def _session_class():
    if _cls: return _cls['S']
    from harness import capture
    Base = capture._classes()['CaptureSession']

    class LateSession(Base):
        """CaptureSession that starts like a real Session: no server capabilities, not connected."""
        def __init__(self, server_uris, device_handler):
            Base.__init__(self, server_uris, device_handler)
            self._hello_caps = self._server_capabilities
            self._server_capabilities = None        # yet (transport/session.py Session.__init__)
            self._connected = False
            self._id = None
        def connect(self):
            """what Session._post_connect's ok_cb does once the server's <hello> is parsed"""
            self._id = '1'
            self._server_capabilities = self._hello_caps
            self._connected = True
    _cls['S'] = LateSession
    return LateSession

def op_class(dh, method):
    from ncclient import manager
    ops = dict(manager.OPERATIONS)
    ops.update(dh.add_additional_operations())
    return ops[method]

def run(profile, server_uris, method, kwargs, order):
    """one history; returns the dict capture.call returns + stage ('construct' | 'request' | None: where it raised)"""
    from ncclient import manager
    from harness import capture
    assert order in ORDERS
    dh = manager.make_device_handler({'name': profile})
    s = _session_class()(list(server_uris), dh)
    cls = op_class(dh, method)
    caps = s._hello_caps
    exc = stage = obj = None
    def construct():
        return cls(s, dh, async_mode=True, timeout=2)
    if order == 'cpr': s.connect()
    r0 = s.registered()
    try:
        obj = construct()
    except Exception as e:              # noqa: the class is the observable
        exc, stage = capture.exc_name(e), 'construct'
    if order == 'pcr': s.connect()
    if obj is not None:
        try:
            obj.request(**kwargs)
        except Exception as e:          # noqa
            exc, stage = capture.exc_name(e), 'request'
    return dict(exc=exc, stage=stage, sent=list(s.sent), log=list(caps.log), registered=s.registered() - r0, msgid=getattr(obj, '_id', None))
