"""C07, the carries theorems (C07_carries / C07_vendor_carries / C07_fill_only_holes, Spec/Template.v):
(1) TEMPLATES — the extracted tables (runner fn 10 / 11: wrap (fill (values c) (template (erase c))), the holes, the number of
    values) against the request a real Manager call puts on the capturing session, read by the independent reader: the
    template instance IS the captured request and the holes are 0..n-1.
(2) FRAME — an oracle on the implementation alone, independent of the model: two Manager calls that differ in ONE caller
    value (another value of the same class: a URL stays a URL, a datastore name a name, an enumerated value another member,
    free text non-empty free text) produce requests that differ in exactly ONE place — one text node, one attribute value or one
    element name — and what stands there is exactly the old and the new value.  That is "carried exactly once, at one
    position, unaltered, and nothing else in the request depends on it", observed on the wire.  For a caller XML fragment (subtree
    filter): all differences lie inside the one subtree below <filter>.
Cases are fresh draws of the generators of props/c07.py and harness/vendorops.py (all standard operations x 14 profiles, all 30
vendor classes)."""
import copy, json

def c07():
    import importlib
    return importlib.import_module('props.c07')

def vops():
    import importlib
    return importlib.import_module('harness.vendorops')

def is_vendor(case): return 'vop' in case
def key_of(case): return json.dumps(case, sort_keys=True, default=repr)

def impl_run(case):
    return vops().impl_run(case) if is_vendor(case) else c07().impl_run(case)

def read_sent(r):
    """canonical tree of the single captured message (message-id blanked), or None"""
    from harness import capture
    if r['exc'] is not None or len(r['sent']) != 1: return None
    try: t = capture.read_independent(r['sent'][0])
    except Exception: return None
    t = copy.deepcopy(t)
    t[3] = [[a[0], a[1], '' if (a[0], a[1]) == ('', 'message-id') else a[2]] for a in t[3]]
    return t

# ---------------- (1) templates ----------------
def model_call(case, r):
    """runner call fn 10 / 11 for a case, or None when the case is outside the model's domain (as in c07 / vendorops)"""
    G, V = c07(), vops()
    mid = (r['msgid'] or 'mid').encode()
    try:
        if is_vendor(case):
            if G.shadow_pred(case) or (V.uses_base_ns(case) and case['profile'] in ('huawei', 'sros')): return None
            return [11, mid, V.to_model(case)]
        if G.shadow_pred(case): return None
        prof = [1 if case['profile'] in G.DEFAULT_NS_PROFILES else 0, 1 if case['profile'] == 'iosxe' else 0]
        return [10, prof, mid, G.to_model(case)]
    except (G.NoModel, V.NoModel):
        return None

def run_templates(ctx, cases):
    from harness import capture
    results = [impl_run(c) for c in cases]
    mcalls, midx = [], []
    for i, (case, r) in enumerate(zip(cases, results)):
        if r['exc'] is not None or len(r['sent']) != 1 or not ctx.model: continue
        mc = model_call(case, r)
        if mc is not None: mcalls.append(mc); midx.append(i)
    outs = ctx.model.batch(mcalls) if mcalls else []
    for i, mo in zip(midx, outs):
        case, r = cases[i], results[i]
        kcase = {'carries_template': json.loads(key_of(case))}
        ctx.count(kcase, nontrivial=c07().carried(case), key='tpl:' + key_of(case))
        if isinstance(mo, str) or (mo and mo[0] == 999):
            ctx.disagree(kcase, repr(mo), None, 'model runner rejected the call encoding (carries tables)'); continue
        trees, holes, n = mo
        ctx.hist('carries_values', n)
        try: it = capture.read_independent(r['sent'][0])
        except Exception: it = 'ill-formed'
        mts = [capture.model_tree(t) for t in trees]
        if mts != [it]:
            ctx.disagree(kcase, mts, it, 'fill (values c) (template (erase c)) vs captured request tree', theorem='C07_carries/C07_vendor_carries')
        elif list(holes) != list(range(n)):
            ctx.disagree(kcase, list(holes), list(range(n)), 'holes of the template vs 0..n-1', theorem='C07_carries/C07_vendor_carries')

# ---------------- (2) frame ----------------
def tdiff(a, b, path=()):
    """minimal differences of two canonical trees: [(path, kind, va, vb)], kind in text | attr | name | node | children"""
    if a[0] != b[0]: return [(path, 'node', a, b)]
    if a[0] == 'T': return [] if a[1] == b[1] else [(path, 'text', a[1], b[1])]
    if (a[1], a[2]) != (b[1], b[2]):
        if a[1] == b[1] and a[3] == b[3] and a[4] == b[4]: return [(path, 'name', a[2], b[2])]
        return [(path, 'node', a, b)]
    if [(x[0], x[1]) for x in a[3]] != [(x[0], x[1]) for x in b[3]]: return [(path, 'node', a, b)]
    out = [(path + ('@' + x[1],), 'attr', x[2], y[2]) for x, y in zip(a[3], b[3]) if x[2] != y[2]]
    if [c[0] for c in a[4]] != [c[0] for c in b[4]]: return out + [(path, 'children', a[4], b[4])]
    for i, (x, y) in enumerate(zip(a[4], b[4])): out += tdiff(x, y, path + (i,))
    return out

def fresh(rng, make, avoid, ok=lambda s: True):
    for _ in range(50):
        s = make()
        if s != avoid and s and ok(s): return s
    return None

def free_text(rng, avoid, ok=lambda s: True):
    G = c07()
    return fresh(rng, lambda: G.gen_str(rng, 6), avoid, lambda s: len(s) < 200 and ok(s))

def string_slots(rng, case):
    """[(key path, old value as sent, alternative argument, new value as sent)] for the string arguments of the case that are
    carried verbatim; the alternative is of the same class"""
    G, V = c07(), vops()
    a = case['args']; out = []
    def add(path, old, alt, new=None, sent_old=None):
        if alt is not None and alt != old: out.append((path, old if sent_old is None else sent_old, alt, alt if new is None else new))
    if not is_vendor(case):
        op = case['op']
        for k in G.TEXT_KEYS.get(op, []):
            v = a.get(k)
            if not isinstance(v, str) or v == '': continue
            if op == 'commit' and k in ('timeout', 'persist') and not a.get('confirmed'): continue      # documented: only with confirmed=True
            if k in ('source', 'target'):
                if op in ('lock', 'unlock') or '://' not in v:
                    if v in G.GOOD_NAMES: add([k], v, rng.choice([n for n in G.GOOD_NAMES if n != v]))
                else: add([k], v, fresh(rng, lambda: G.gen_url(rng), v))
            elif k == 'default_operation':
                if v in G.DEFAULT_OPS: add([k], v, rng.choice([x for x in G.DEFAULT_OPS if x != v]))
            elif k == 'test_option':
                pass        # test-only also changes nothing else, but it is an enumerated selector of capability checks (C09)
            elif k == 'error_option':
                if v in G.ERROR_OPTS: add([k], v, rng.choice([x for x in G.ERROR_OPTS if x != v]))
            elif k == 'with_defaults':
                if v.strip().lower() in G.WD_MODES: add([k], v, rng.choice([x for x in G.WD_MODES if x != v.strip().lower()]), sent_old=v.strip().lower())
            elif k == 'config':
                if a.get('format') == 'text': add([k], v, free_text(rng, v))
                elif a.get('format') == 'url' and G.url_valid(v): add([k], v, fresh(rng, lambda: 'http://h2/' + G.gen_str(rng, 4), v, G.url_valid))
            else:
                add([k], v, free_text(rng, v))
        f = a.get('filter')
        if isinstance(f, dict) and f.get('kind') in ('xpath', 'xpath-ns') and isinstance(f.get('select'), str) and f['select']:
            add(['filter', 'select'], f['select'], free_text(rng, f['select']))
        cmd = a.get('rpc_command')
        if isinstance(cmd, dict) and cmd.get('name') in G.GOOD_NAMES:
            add(['rpc_command', 'name'], cmd['name'], rng.choice([n for n in G.GOOD_NAMES if n != cmd['name']]))
    else:
        pv = (case['profile'], case['vop'])
        for k in V.STR_KEYS.get(pv, []):
            v = a.get(k)
            if isinstance(v, list) and v and all(isinstance(x, str) and x for x in v):      # a list carried joined with LF
                i = rng.randrange(len(v)); alt = free_text(rng, v[i], lambda s: '\n' not in s)
                if alt is None: continue
                l2 = list(v); l2[i] = alt
                if pv[1] in ('cli_display', 'cli_config') or (pv == ('junos', 'load_configuration') and (a.get('action') == 'set' or a.get('format') in ('text', 'json'))):
                    out.append(([k], '\n'.join(v), l2, '\n'.join(l2)))
                continue
            if not isinstance(v, str) or v == '': continue
            if pv == ('sros', 'commit') and k in ('timeout', 'persist') and not a.get('confirmed'): continue
            if k == 'action':
                if v != 'set': add([k], v, free_text(rng, v, lambda s: s != 'set'))
            elif k == 'format' and pv == ('junos', 'load_configuration'): pass          # enumerated selector
            elif k == 'config':
                if pv == ('junos', 'load_configuration') and not (a.get('action') == 'set' or a.get('format') in ('text', 'json')): continue
                if pv == ('alu', 'load_configuration') and a.get('format') != 'cli': continue
                add([k], v, free_text(rng, v))
            elif k == 'comment' and pv[0] == 'sros':
                if v.strip(): add([k], v, free_text(rng, v, lambda s: s.strip() != ''))
            else:
                add([k], v, free_text(rng, v))
        if pv == ('nexus', 'exec_command') and isinstance(a.get('cmds'), list) and a['cmds'] and all(isinstance(x, str) and x for x in a['cmds']):
            i = rng.randrange(len(a['cmds'])); alt = free_text(rng, a['cmds'][i])
            if alt: l2 = list(a['cmds']); l2[i] = alt; out.append((['cmds'], a['cmds'][i], l2, alt))
        if pv == ('alu', 'get_configuration') and a.get('content') == 'cli' and isinstance(a.get('filter'), list) and a['filter'] and all(isinstance(x, str) and x for x in a['filter']):
            i = rng.randrange(len(a['filter'])); alt = free_text(rng, a['filter'][i])
            if alt: l2 = list(a['filter']); l2[i] = alt; out.append((['filter'], a['filter'][i], l2, alt))
        if pv in (('h3c', 'get_bulk_config'),) and isinstance(a.get('source'), str) and a['source'] in G.GOOD_NAMES:
            add(['source'], a['source'], rng.choice([n for n in G.GOOD_NAMES if n != a['source']]))
    return out

def fragment_slots(rng, case):
    """[(key path, alternative fragment)]: a caller XML fragment replaced by another of the same kind"""
    G = c07(); a = case['args']; out = []
    f = a.get('filter')
    if isinstance(f, dict) and f.get('kind') == 'subtree' and isinstance(f.get('xml'), str) and (not is_vendor(case) or case['profile'] == 'h3c'):
        alt = G.gen_fragment(rng)
        if alt != f['xml']: out.append((['filter', 'xml'], alt))
    return out

def with_value(case, path, alt):
    c = copy.deepcopy(case); d = c['args']
    for k in path[:-1]: d = d[k]
    d[path[-1]] = alt
    return c

def judge_pair(pair):
    """pair = {base, path, alt, old, new, kind}: None | 'skipped' | (what, sig, expected, actual)"""
    G = c07()
    c1 = pair['base']; c2 = with_value(c1, pair['path'], pair['alt'])
    if G.shadow_pred(c1) or G.shadow_pred(c2): return 'skipped'
    t1, t2 = read_sent(impl_run(c1)), read_sent(impl_run(c2))
    if t1 is None or t2 is None: return 'skipped'       # one of the two calls is refused locally or is not a request: not this oracle's business
    d = tdiff(t1, t2)
    show = [(list(p), k, (va if isinstance(va, str) else '…'), (vb if isinstance(vb, str) else '…')) for p, k, va, vb in d][:6]
    if pair['kind'] == 'fragment':
        # all differences lie inside ONE subtree below the <filter> element (rpc / operation / filter / fragment: depth >= 3)
        els = [[x for x in p if not isinstance(x, str)] for p, _, _, _ in d]
        lcp = els[0] if els else []
        for e in els[1:]:
            n = 0
            while n < min(len(lcp), len(e)) and lcp[n] == e[n]: n += 1
            lcp = lcp[:n]
        if d and len(lcp) < 3:
            return ('two calls that differ in one caller fragment (%s) give requests that differ outside that fragment' % '.'.join(pair['path']),
                    'carries_frame', 'all differences inside one subtree below <filter>', show)
        return None
    exp = (pair['old'], pair['new'])
    if len(d) != 1:
        return ('two calls that differ in one caller string (%s: %r -> %r) give requests that differ in %d places' % ('.'.join(pair['path']), pair['old'], pair['new'], len(d)),
                'carries_frame', 'exactly one differing text / attribute / element name holding %r and %r' % exp, show)
    p, k, va, vb = d[0]
    if k not in ('text', 'attr', 'name') or (va, vb) != exp:
        return ('the one place where the two requests differ does not hold the two values of %s verbatim' % '.'.join(pair['path']),
                'carries_frame', 'text / attribute / element name %r and %r' % exp, show)
    return None

def gen_pairs(rng, cases, per_case=2):
    pairs = []
    for case in cases:
        if case.get('invalid'): continue
        ss = string_slots(rng, case); rng.shuffle(ss)
        for path, old, alt, new in ss[:per_case]:
            pairs.append(dict(base=case, path=path, alt=alt, old=old, new=new, kind='string'))
        for path, alt in fragment_slots(rng, case)[:1]:
            pairs.append(dict(base=case, path=path, alt=alt, old=None, new=None, kind='fragment'))
    return pairs

def run_frame(ctx, pairs):
    for pair in pairs:
        doc = {'carries_pair': json.loads(json.dumps(pair, default=repr))}
        j = judge_pair(pair)
        if j == 'skipped': ctx.hist('carries_frame', 'skipped (a call of the pair is refused)'); continue
        ctx.count(doc, nontrivial=True, key='pair:' + key_of(doc))
        ctx.hist('carries_frame', pair['kind']); ctx.hist('carries_frame_slot', '.'.join(pair['path']))
        if j: ctx.fail(doc, j[0], sig=j[1], expected=j[2], actual=j[3])

def fresh_cases(rng, tier):
    G, V = c07(), vops()
    base = G.gen_cases(rng, 'quick')
    vend = V.gen_vendor_cases(rng, 'quick')
    if tier != 'quick':
        for _ in range(5): base += G.gen_cases(rng, 'quick'); vend += V.gen_vendor_cases(rng, 'quick')
    return base, vend

def run(ctx):
    base, vend = fresh_cases(ctx.rng, ctx.tier)
    run_templates(ctx, base + vend)
    run_frame(ctx, gen_pairs(ctx.rng, base + vend))

def search(ctx):
    base, vend = fresh_cases(ctx.rng, 'quick')
    for pair in gen_pairs(ctx.rng, base + vend):
        try: j = judge_pair(pair)
        except Exception: continue
        if j and j != 'skipped':
            return dict(case={'carries_pair': json.loads(json.dumps(pair, default=repr))}, what=j[0], sig=j[1], expected=j[2], actual=j[3])
    return None

def replay(case):
    pair = case['carries_pair']
    j = judge_pair(pair)
    print('case     : call', {k: pair['base'][k] for k in pair['base'] if k != 'args'}, 'args', pair['base']['args'])
    print('           and the same call with', '.'.join(pair['path']), '=', repr(pair['alt']))
    print('expected : the two requests differ in exactly one place, which holds', repr(pair['old']), 'and', repr(pair['new']))
    print('actual   :', 'as expected' if j is None else j)
    return j is None or j == 'skipped'

def reproduce(witness):
    j = judge_pair(witness['carries_pair'])
    return j is not None and j != 'skipped'
