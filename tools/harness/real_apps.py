"""C04 with APPLICATION listeners on the session: the error broadcast must reach every outstanding request whatever else is
registered with `Session.add_listener` (public API) and however it behaves.

The reply listener that fails the outstanding requests is one member of the session's listener SET; the broadcast visits the
set in its iteration order.  A case is

    kind     ssh | tls | unix          (stand-in sockets of real_end.py / real_later.py; the library's own session code)
    apps     0..3 application listeners, each {'err': behaviour of errback, 'cb': behaviour of callback}
               err: ok | raise:<exception class, incl. SystemExit (sys.exit() in an errback) and other non-`Exception`s> | slow (0.25 s) | leave (unregisters itself) | leave_raise | wreck (unregisters
                    EVERY listener it can find on the session, then raises) | add (registers two more listeners, one raising) |
                    reenter (looks itself up and re-registers itself: needs the session's lock)
               cb : ok | slow (20 ms per message) | raise_on_notif (used by loss = cb_raise)
    pattern  the order in which the broadcast is to visit the application listeners and the reply listener 'R', e.g. [0, 'R', 1]:
             listeners are constructed until the set iterates in that order (when = 'after': registered once the reply listener
             exists); when = 'before': registered before the first request, the order is what it is and is recorded
    n_sync / n_async   outstanding requests (received by the peer, unanswered) when the connection is lost
    answered requests answered before;  chatter: the peer sends a notification for every request it receives (every listener's
             callback runs, the queue drains without waiting for the idle tick)
    loss     close | partial (inside a reply) | inactive_first (ssh) | cb_raise (no loss by the peer: an application callback
             raises on a notification, the session thread takes that for a failure of the session)

    hook / profile / nonfatal   the EARLIER history of the session: a custom handler class whose handle_raw_dispatch() hands an exception
             back (hook = its class) or the junos profile; the peer first sends payloads that are not XML (HOSTILE of lts.py): a NON-fatal
             error broadcast, the session goes on; before the application listeners register or with them registered (nonfatal_at)

Oracle (property sentences on observables, the same for every composition): every outstanding request - synchronous: the call
raises; asynchronous: event set, error stored, no reply - fails with a TransportError (cb_raise: with any error but a timeout)
within PROMPT + the time the slow errbacks take, never waits out its timeout; the session thread ends, `connected` is False, a
later request (one plain, one that needs a capability) is refused with a TransportError promptly.
Correspondence (apart, `_tie`): Model/SessionEnd.v `dispatch_error` on the snapshot read before the loss predicts which
application errbacks ran, in which order, and what is left registered."""
import socket, threading, time
from . import real_end as R
from . import real_later as L

TIMEOUT, PROMPT, SLOW = 4.0, 1.5, 0.25
KINDS = ('ssh', 'tls', 'unix')
RAISES = ('RuntimeError', 'AttributeError', 'KeyError', 'StopIteration', 'SessionCloseError', 'TransportError', 'TimeoutExpiredError',
          'OperationError', 'OSError', 'AssertionError', 'SystemExit', 'KeyboardInterrupt', 'GeneratorExit')   # the last three: not `Exception`s
ERRS = ['ok', 'slow', 'leave', 'leave_raise', 'wreck', 'add', 'reenter'] + ['raise:' + x for x in RAISES]

def now():
    return time.monotonic()

def exc_of(name):
    from ncclient.transport import errors as TE
    from ncclient.operations import errors as OE
    import builtins
    return getattr(TE, name, None) or getattr(OE, name, None) or getattr(builtins, name)

def make_listener(ses, idx, spec, log, extra):
    """an application listener (documented base class, documented session API only)"""
    from ncclient.transport.session import SessionListener
    err, cb = spec.get('err', 'ok'), spec.get('cb', 'ok')
    class App(SessionListener):
        def __init__(self): self.idx, self.seen = idx, 0
        def callback(self, root, raw):
            self.seen += 1
            if cb == 'slow': time.sleep(0.02)
            elif cb == 'raise_on_notif' and root[0].endswith('}notification'):
                log.append(('cb_raise', idx, now()))
                raise RuntimeError('application callback %d cannot handle %s' % (idx, root[0]))
        def errback(self, ex):
            log.append(('errback', idx, now()))
            if err == 'slow': time.sleep(SLOW)
            elif err in ('leave', 'leave_raise'): ses.remove_listener(self)
            elif err == 'wreck':
                while True:
                    l = ses.get_listener_instance(SessionListener)
                    if l is None: break
                    ses.remove_listener(l)
            elif err == 'add':
                for k, sp in enumerate(({'err': 'raise:RuntimeError'}, {'err': 'ok'})):
                    x = make_listener(ses, 100 + 10 * idx + k, sp, log, extra); extra.append(x); ses.add_listener(x)
            elif err == 'reenter':
                ses.get_listener_instance(type(self)); ses.add_listener(self)
            if err.startswith('raise:'):
                raise exc_of(err[6:])('application errback %d fails' % idx)
            if err in ('leave_raise', 'wreck'):
                raise RuntimeError('application errback %d fails' % idx)
    return App()

def effect_of(idx, spec, universe):
    """(removes, adds, raises) of the errback in the vocabulary of Model/SessionEnd.v"""
    err = spec.get('err', 'ok')
    removes = [10 + idx] if err in ('leave', 'leave_raise') else (list(universe) if err == 'wreck' else [])
    adds = [10 + 100 + 10 * idx, 10 + 100 + 10 * idx + 1] if err == 'add' else []
    return removes, adds, 1 if (err.startswith('raise:') or err in ('leave_raise', 'wreck')) else 0

def order_of(ses, objs):
    """the order in which the broadcast will visit (application listeners, reply listener): iteration order of the set NOW"""
    from ncclient.operations.rpc import RPCReplyListener
    out = []
    for x in list(ses._listeners):
        if isinstance(x, RPCReplyListener): out.append('R')
        elif x in objs: out.append(objs.index(x))
    return out

def arrange(ses, specs, pattern, log, extra, tries=4000):
    """register one listener per spec such that the set iterates (apps, reply listener) in `pattern`; -> (objects, attempts) or None"""
    keep = []
    for attempt in range(tries):
        if attempt % 150 == 149:
            # the reply listener may sit in the first slot of a small table (nothing can precede it): registering and
            # unregistering a batch of listeners makes the set rebuild its table with another size
            fill = [make_listener(ses, -1, {}, log, extra) for _ in range(16 + attempt // 10)]
            for o in fill: ses.add_listener(o)
            for o in fill: ses.remove_listener(o)
            keep.append(fill)
        objs = [make_listener(ses, i, sp, log, extra) for i, sp in enumerate(specs)]
        for o in objs: ses.add_listener(o)
        if order_of(ses, objs) == list(pattern):
            return objs, attempt + 1
        for o in objs: ses.remove_listener(o)
        keep.append(objs)              # kept alive: the next objects get other addresses, the set other slots
    return None

def run_apps(case):
    """-> None or a text"""
    from ncclient.transport.errors import TransportError
    from ncclient.operations.rpc import RPCReplyListener
    kind, specs, loss = case['kind'], case.get('apps', []), case.get('loss', 'close')
    n_sync, n_async, answered = case.get('n_sync', 1), case.get('n_async', 0), case.get('answered', 1)
    when, pattern = case.get('when', 'after'), case.get('pattern')
    tag = '%s with %d application listener(s) [%s]' % (kind, len(specs), ', '.join('%s/%s' % (s.get('err', 'ok'), s.get('cb', 'ok')) for s in specs))
    caps = L.hello_caps(case)
    nf, nf_at = case.get('nonfatal') or [], case.get('nonfatal_at', 'before_apps')
    if case.get('hook') or case.get('profile'):
        tag += ' [%s%s]' % (case.get('profile', 'default'), ', custom handler: handle_raw_dispatch returns %s' % case['hook'] if case.get('hook') else '')
    if nf: tag += ' after %d message(s) that could not be parsed (%s)' % (len(nf), nf_at)
    st = L.Stand(kind, case.get('profile', 'default'), caps, case.get('base11'), answer=answered, chatter=bool(case.get('chatter')), hook=case.get('hook'))
    no_notif = any(s.get('cb') == 'raise_on_notif' for s in specs)
    log, extra = [], []
    tie = case['_tie'] = dict(snapshot=None, visited=None, left=None)
    try:
        st.connect()
        ses = st.ses
        m, ma = st.managers()
        objs = []
        if when == 'before':
            objs = [make_listener(ses, i, sp, log, extra) for i, sp in enumerate(specs)]
            for o in objs: ses.add_listener(o)
        for i in range(answered):
            r = L.timed(lambda: m.get())
            if r is None or r[0] != 'value':
                return 'rig: %s: the warm-up request was not answered: %r' % (tag, r and r[1])
        if nf and (nf_at == 'before_apps' or when == 'before'):
            # earlier in the life of the session: payloads that are not XML (dropped / broadcast as a non-fatal error); with
            # when = 'before' the application listeners' errbacks see that broadcast as well
            f = st.nonfatal(m, nf, sync=not (no_notif and when == 'before'))
            if f: return '%s %s: %s' % (f[:4], tag, f[5:])
        if when != 'before':
            if answered == 0:
                RPCReplyListener(ses, st.dh)          # what the first RPC.__init__ does
            got = arrange(ses, specs, pattern if pattern is not None else list(range(len(specs))) + ['R'], log, extra)
            if got is None:
                return 'rig: %s: could not arrange the listener set in the order %r' % (tag, pattern)
            objs, case['_attempts'] = got
            if nf and nf_at == 'with_apps':
                f = st.nonfatal(m, nf, sync=not no_notif)
                if f: return '%s %s: %s' % (f[:4], tag, f[5:])
        n_log = len(log)
        res = {}
        def sync_call(slot):
            try: res[slot] = ('value', m.get_config(source='running'))
            except BaseException as e: res[slot] = ('error', e)
            res[slot + '_end'] = now()
        n0 = len(st.srv.ids)
        ths = [threading.Thread(target=sync_call, args=('s%d' % i,), daemon=True) for i in range(n_sync)]
        for th in ths: th.start()
        asyncs = []
        for i in range(n_async):
            r = L.timed(lambda: ma.get(filter=L.FLT))
            if r is None or r[0] != 'value':
                return '%s: a pipelined request was not accepted on the live session: %r' % (tag, r and r[1])
            asyncs.append(r[1])
        if not st.srv.wait_ids(n0 + n_sync + n_async, 8.0):
            return '%s: only %d of %d requests reached the peer' % (tag, len(st.srv.ids) - n0, n_sync + n_async)
        if case.get('chatter'):
            time.sleep(0.05)                         # let the last notification be dispatched
        st.srv.chatter = False
        order = order_of(ses, objs)
        case['_order'] = order
        # the snapshot in the model's vocabulary: reply listener 1, notification handler 2, application listener i -> 10 + i
        snap_ids = []
        for x in list(ses._listeners):
            if isinstance(x, RPCReplyListener): snap_ids.append(1)
            elif x in objs: snap_ids.append(10 + objs.index(x))
            else: snap_ids.append(2)
        tie['snapshot'] = snap_ids
        slow_total = SLOW * sum(1 for s in specs if s.get('err') == 'slow')
        if loss == 'cb_raise':
            t_loss = now()
            try: st.srv.notify(999)
            except OSError: pass
        else:
            t_loss = st.lose(loss, partial_for=st.srv.ids[-1] if st.srv.ids else None)
        transport_error = loss != 'cb_raise'
        bound = PROMPT + slow_total
        def bad(e):
            return (not isinstance(e, TransportError)) if transport_error else type(e).__name__ == 'TimeoutExpiredError'
        for i, th in enumerate(ths):
            th.join(max(0.0, t_loss + TIMEOUT + 2 - now()))
            slot = 's%d' % i
            if th.is_alive() or slot not in res:
                return '%s: an outstanding synchronous request did not return within its timeout after the connection was lost' % tag
            k, v = res[slot]
            if k != 'error':
                return '%s: an outstanding request returned a reply although the peer never answered it' % tag
            if bad(v):
                return ('%s: an outstanding request ended with %s instead of %s: the error broadcast did not reach it (broadcast order %r)'
                        % (tag, type(v).__name__, 'a transport error' if transport_error else 'the error that ended the session', order))
            if res[slot + '_end'] - t_loss > bound:
                return '%s: an outstanding request was failed only %.1f s after the loss (timeout %.0f s)' % (tag, res[slot + '_end'] - t_loss, TIMEOUT)
        for rpc in asyncs:
            if not rpc.event.wait(max(0.0, t_loss + bound - now())):
                return ('%s: a pipelined request outstanding at the loss was not failed within %.1f s: the error broadcast did not reach it (broadcast order %r)'
                        % (tag, bound, order))
            if rpc.reply is not None or rpc.error is None or bad(rpc.error):
                return '%s: a pipelined request outstanding at the loss ended with %r instead of a transport error' % (tag, rpc.error if rpc.reply is None else 'a reply')
        ses.join(max(0.0, t_loss + bound + 1.5 - now()))
        if ses.is_alive():
            return '%s: the session thread is still running after the connection was lost' % tag
        if ses.connected or m.connected:
            return '%s: the session still reports connected after the connection was lost' % tag
        tie['visited'] = [10 + e[1] for e in log[n_log:] if e[0] == 'errback']
        left = []
        for x in list(ses._listeners):
            if isinstance(x, RPCReplyListener): left.append(1)
            elif x in objs: left.append(10 + objs.index(x))
            elif x in extra: left.append(10 + x.idx)
            else: left.append(2)
        tie['left'] = sorted(left)
        for name, fn in (('get_config', lambda: m.get_config(source='running')), ('commit', lambda: m.commit()), ('pipelined get', lambda: ma.get())):
            r = L.timed(fn)
            if r is None:
                return '%s: a %s request made after the loss did not return within its timeout' % (tag, name)
            if r[0] != 'error' or not isinstance(r[1], TransportError):
                return '%s: a %s request made after the loss ended with %s instead of being refused with a transport error' % (tag, name, type(r[1]).__name__ if r[0] == 'error' else 'a reply')
            if r[2] > PROMPT:
                return '%s: a %s request made after the loss was refused only after %.1f s' % (tag, name, r[2])
        return None
    finally:
        st.cleanup()

# ---- correspondence with Model/SessionEnd.v (runner HIST, call 10) --------------------------------------------------------
def model_call(case, tie):
    specs = case.get('apps', [])
    universe = [1, 2] + [10 + i for i in range(len(specs))] + [10 + 100 + 10 * i + k for i in range(len(specs)) for k in (0, 1)]
    snap = []
    for lid in tie['snapshot']:
        if lid in (1, 2): snap.append([lid, lid - 1, [], [], 0])
        else:
            rm, ad, ra = effect_of(lid - 10, specs[lid - 10], universe)
            snap.append([lid, 2, rm, ad, ra])
    return [10, snap, list(tie['snapshot'])]

def compare(case, tie, mo):
    """-> None or the first difference between Model/SessionEnd.dispatch_error and the real broadcast"""
    if not tie or tie.get('snapshot') is None or tie.get('visited') is None: return None
    if isinstance(mo, str) or not isinstance(mo, list) or len(mo) != 4:
        return 'model runner rejected the call: %r' % (mo,)
    want = [x for x in mo[0] if x >= 10]
    if want != tie['visited']:
        return 'application errbacks called %r, the model (every listener of the snapshot, in order) %r' % (tie['visited'], want)
    if sorted(mo[2]) != tie['left']:
        return 'listeners registered after the broadcast %r, the model %r' % (tie['left'], sorted(mo[2]))
    return None

def discriminates(mo):
    """the broadcast with one try around the loop would have missed the reply listener on this snapshot"""
    return isinstance(mo, list) and len(mo) == 4 and 1 in mo[0] and 1 not in mo[3]

# ---- generator ---------------------------------------------------------------------------------------------------------------
def _c(kind, apps, pattern, **kw):
    d = dict(kind=kind, apps=apps, pattern=pattern, when='after', n_sync=1, n_async=1, answered=1, loss='close', chatter=True)
    d.update(kw); return d

def core_cases():
    """per transport one composition with a misbehaving errback BEFORE the reply listener, plus: none at all, all after, a slow one,
    one that unregisters everything, an application callback that raises"""
    return [_c('unix', [{'err': 'raise:RuntimeError'}], [0, 'R'], n_sync=2, loss='partial'),
            _c('ssh', [{'err': 'leave_raise'}, {'err': 'ok', 'cb': 'slow'}], [0, 'R', 1], loss='inactive_first'),
            _c('tls', [{'err': 'wreck'}, {'err': 'raise:SystemExit'}, {'err': 'add'}], [1, 0, 'R', 2], n_async=2),
            _c('unix', [{'err': 'slow'}, {'err': 'raise:SessionCloseError'}], ['R', 0, 1], chatter=False),
            _c('ssh', [], ['R'], n_sync=1, n_async=0),
            # a NON-fatal error broadcast earlier (custom handler / junos hook hands an exception back for a payload that is not XML), then the loss
            _c('tls', [{'err': 'raise:RuntimeError'}, {'err': 'ok'}], [0, 'R', 1], hook='OperationError', nonfatal=[1, 2], nonfatal_at='with_apps'),
            _c('unix', [{'err': 'leave'}], ['R', 0], profile='junos', nonfatal=[3], n_sync=2, base11=True),
            _c('tls', [{'err': 'reenter'}, {'err': 'raise:TimeoutExpiredError', 'cb': 'raise_on_notif'}], [0, 1, 'R'], loss='cb_raise', chatter=False)]

def gen_case(rng, kind=None):
    kind = kind or rng.choice(KINDS)
    n = rng.choice([0, 1, 1, 2, 2, 3, 3])
    apps = [{'err': rng.choice(ERRS + ['raise:' + rng.choice(RAISES)] * 4), 'cb': rng.choice(['ok', 'ok', 'slow'])} for _ in range(n)]
    while sum(1 for a in apps if a['err'] == 'slow') > 1:
        next(a for a in apps if a['err'] == 'slow')['err'] = 'ok'
    pattern = list(range(n)) + ['R']; rng.shuffle(pattern)
    loss = rng.choice(['close', 'close', 'partial'] + (['inactive_first'] if kind == 'ssh' else []) + ['cb_raise'])
    c = dict(kind=kind, apps=apps, pattern=pattern, when=rng.choice(['after', 'after', 'after', 'before']), n_sync=rng.choice([0, 1, 1, 2]),
             n_async=rng.choice([0, 1, 2, 5]), answered=rng.choice([0, 1, 1, 2]), loss=loss, chatter=rng.random() < 0.6, base11=rng.random() < 0.3)
    if c['n_sync'] + c['n_async'] == 0: c['n_sync'] = 1
    if loss == 'cb_raise':
        if not apps: apps.append({'err': 'ok'})
        rng.choice(apps)['cb'] = 'raise_on_notif'; c['chatter'] = False
        c['pattern'] = list(range(len(apps))) + ['R']; rng.shuffle(c['pattern'])
    if c['when'] == 'before': c['pattern'] = None
    if rng.random() < 0.4:
        from .lts import HOSTILE
        if rng.random() < 0.7: c['hook'] = rng.choice(L.HOOKS)
        else: c['profile'] = 'junos'
        c['nonfatal'] = [rng.randrange(len(HOSTILE)) for _ in range(rng.choice([1, 1, 2]))]
        quiet = all(a['err'] in ('ok', 'slow') or a['err'].startswith('raise:') for a in apps)      # errbacks that leave the listener set alone
        c['nonfatal_at'] = rng.choice(['before_apps', 'with_apps']) if quiet else 'before_apps'
        if c['when'] == 'before' and not quiet: c['when'] = 'after'; c['pattern'] = pattern
        if c.get('profile') == 'junos': c['nonfatal'] = [v if v != 2 else 3 for v in c['nonfatal']]     # 2 ends a junos session (C14)
    return c

def all_cases():
    """every behaviour before and after the reply listener (transports in turn); every transport x positions of two / three misbehaving errbacks"""
    out = []
    for i, err in enumerate(ERRS):
        for j, pattern in enumerate(([0, 'R'], ['R', 0])):
            out.append(_c(KINDS[(i + j) % 3], [{'err': err}], pattern, n_sync=1, n_async=2))
    for kind in KINDS:
        for pattern in ([0, 1, 'R'], [0, 'R', 1], ['R', 1, 0], [1, 0, 'R']):
            out.append(_c(kind, [{'err': 'raise:KeyError'}, {'err': 'leave_raise'}], pattern, loss='partial'))
        for pattern in ([2, 1, 0, 'R'], [0, 'R', 2, 1], [1, 2, 'R', 0]):
            out.append(_c(kind, [{'err': 'raise:OSError'}, {'err': 'wreck'}, {'err': 'add'}], pattern, answered=0, chatter=False))
        out.append(_c(kind, [{'err': 'ok', 'cb': 'raise_on_notif'}, {'err': 'raise:RuntimeError'}], [1, 'R', 0], loss='cb_raise', chatter=False))
        out.append(_c(kind, [{'err': 'raise:RuntimeError'}] * 3, None, when='before'))
        from .lts import HOSTILE
        for v in (v for v in range(len(HOSTILE)) if v != 2):      # 2: the junos hook repairs it into text that is still not XML: the session ends on it (C14)
            out.append(_c(kind, [{'err': 'raise:KeyError'}, {'err': 'slow'}], [0, 'R', 1], profile='junos', nonfatal=[v], nonfatal_at=('before_apps', 'with_apps')[v % 2]))
        for i, hook in enumerate(L.HOOKS):
            out.append(_c(kind, [{'err': ('wreck', 'add', 'leave_raise')[i % 3]}], [0, 'R'], hook=hook, nonfatal=[i, i + 2], answered=i % 2))
            out.append(_c(kind, [{'err': 'raise:SystemExit'}] * 2, None, when='before', hook=hook, nonfatal=[i + 1]))
    return out

def judge(case, tries=2):
    import logging
    from . import lts
    was = bool(lts._installed)
    lts.uninstall()
    lg = logging.getLogger('ncclient'); lvl = lg.level
    lg.setLevel(logging.ERROR)            # the library logs every swallowed errback exception as a warning
    try:
        f = None
        for _ in range(tries):
            c = dict(case)
            f = run_apps(c)
            for k in ('_tie', '_order', '_attempts'): case[k] = c.get(k)
            if f is None or f.startswith('rig:'): return f
        return f
    finally:
        lg.setLevel(lvl)
        if was: lts.install()
