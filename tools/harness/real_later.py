"""C04, last clause ("the session then reports itself disconnected and later requests are refused with a transport error"),
for EVERY kind of request, on the real transport classes.

real_end / real_hist / real_backlog ask one question after the loss: is a later `get_config` refused?  A request is whatever
the Manager API offers: the operations of RFC 6241 and its extensions (`OPERATIONS` of manager.py), the operations a device
profile adds, the lock context manager, synchronous and asynchronous mode.  Many of them consult what was negotiated with the
server (capabilities, session-id) before anything reaches `Session.send`; what close() leaves of that state decides how they
end on a session that is gone.  A case is

    kind      ssh | tls | unix            (the stand-in sockets of real_end.py: no handshake, the library's own session code)
    profile   device profile (its vendor operations are part of the table)
    base11    the server also advertises base:1.1 (chunked framing on both directions)
    caps      'all' | 'most' (all but the listed ones: `drop`) -- the server's <hello>; an operation whose capability the server
              did not advertise is refused locally on the live session as well and is not judged
    n_out     requests of DIFFERENT operations outstanding (received by the peer, unanswered) when the connection is lost
    answered  requests answered before that (the reply listener exists, a reply has been delivered)
    loss      close | partial (inside a reply to one of the outstanding requests) | inactive_first (ssh)

Oracle = the property sentence, operation by operation.  An operation is a REQUEST when the same call, on the live twin of the
session (same transport class, same hello), makes the peer receive an <rpc> (that is checked in the same case, before the loss,
so the table below cannot silently rot).  After the loss: every outstanding request raised / holds a TransportError promptly;
the session thread has ended; `connected` is False; then EVERY request of the table - synchronous and asynchronous, in table
order and once more in reverse - is refused with a TransportError, promptly, and nothing reaches the peer.  Nothing looks at
the source or at the attributes of the session object (the correspondence with Model/SessionEnd.v reads two of them, apart).

The CLOSING operations are requests / calls of the API as well, and they are the ones an application makes on a lost session
(from its error handler, or implicitly by leaving `with manager:`): `close_session()` (a request on the live twin: the peer
receives <close-session>; it also calls `session.close()` - a SECOND close, the session thread closed the session when it
processed the loss), leaving the manager's with-block (without an exception, with an exception of the body, with a body whose
request is refused), and further explicit `session.close()` calls.  `closing` = the sequence of them made on the ended session,
before or after the table (`closing_first`).  Oracle: close_session() (synchronous, asynchronous) and leaving the with-block
are refused with a TransportError; when the body raised, what leaves the block is the body's exception or a TransportError
that carries it as its context - never another exception in its place; session.close() returns (or is refused with a
TransportError); each comes back promptly; the session stays disconnected and nothing reaches the peer.  On the live twin the
last call is the closing operation `twin_close`: the peer must receive the <close-session> for it (so it IS a request).
"""
import re, socket, threading, time
from . import real_end as R

TIMEOUT, PROMPT = 4.0, 1.5
KINDS = ('ssh', 'tls', 'unix')
B10 = 'urn:ietf:params:netconf:base:1.0'
B11 = 'urn:ietf:params:netconf:base:1.1'
NS = 'urn:ietf:params:xml:ns:netconf:base:1.0'
# abbreviation -> URI a server advertises for it (RFC 6241 section 8, RFC 5277, RFC 6243, the two power-control URIs flowmon.py names)
CAPS = [(':candidate', 'urn:ietf:params:netconf:capability:candidate:1.0'),
        (':confirmed-commit', 'urn:ietf:params:netconf:capability:confirmed-commit:1.1'),
        (':validate', 'urn:ietf:params:netconf:capability:validate:1.1'),
        (':rollback-on-error', 'urn:ietf:params:netconf:capability:rollback-on-error:1.0'),
        (':url', 'urn:ietf:params:netconf:capability:url:1.0?scheme=ftp,file'),
        (':xpath', 'urn:ietf:params:netconf:capability:xpath:1.0'),
        (':startup', 'urn:ietf:params:netconf:capability:startup:1.0'),
        (':writable-running', 'urn:ietf:params:netconf:capability:writable-running:1.0'),
        (':notification', 'urn:ietf:params:netconf:capability:notification:1.0'),
        (':with-defaults', 'urn:ietf:params:netconf:capability:with-defaults:1.0?basic-mode=explicit&also-supported=report-all,trim'),
        ('power', 'urn:liberouter:param:netconf:capability:power-control:1.0'),
        ('powers', 'urn:liberouter:params:netconf:capability:power-control:1.0')]
CAPIDX = {a: i for i, (a, _) in enumerate(CAPS)}
CFG = '<config xmlns="%s"><sys xmlns="urn:example:s"><name>r1</name></sys></config>' % NS
FLT = ('subtree', '<sys xmlns="urn:example:s"/>')

def now():
    return time.monotonic()

def _ele(x):
    from ncclient.xml_ import to_ele
    return to_ele(x)

# ---- the table: (name, profile or None = every profile, capabilities the call needs, call(m) ) -------------------------
# `needs` is what RFC 6241 / the extension says the operation presupposes (and the library checks locally); the arguments are
# valid, so that on a live session that advertised `needs` the call is sent.
def _ops():
    T = []
    def op(name, needs, fn, profile=None, like=None): T.append(dict(name=name, needs=list(needs), fn=fn, profile=profile, like=like))
    op('get', [], lambda m: m.get())
    op('get/filter', [], lambda m: m.get(filter=FLT))
    op('get/xpath', [], lambda m: m.get(filter=('xpath', '/s:sys')))
    op('get/with-defaults', [':with-defaults'], lambda m: m.get(with_defaults='report-all'))
    op('get_config', [], lambda m: m.get_config(source='running'))
    op('get_config/candidate', [], lambda m: m.get_config(source='candidate', filter=FLT))
    op('get_config/url', [':url'], lambda m: m.get_config(source='ftp://h/f.xml'))
    op('get_config/with-defaults', [':with-defaults'], lambda m: m.get_config(source='running', with_defaults='trim'))
    op('get_schema', [], lambda m: m.get_schema('ietf-interfaces', version='2018-02-20', format='yang'))
    op('dispatch', [], lambda m: m.dispatch('frob'))
    op('dispatch/source', [], lambda m: m.dispatch('frob', source='running', filter=FLT))
    op('rpc', [], lambda m: m.rpc('frob', source='running', filter=FLT))
    op('edit_config', [], lambda m: m.edit_config(CFG, target='running'))
    op('edit_config/candidate', [], lambda m: m.edit_config(CFG, target='candidate', default_operation='merge'))
    op('edit_config/test', [':validate'], lambda m: m.edit_config(CFG, target='candidate', test_option='test-then-set'))
    op('edit_config/test-only', [':validate'], lambda m: m.edit_config(CFG, target='candidate', test_option='test-only'))
    op('edit_config/rollback', [':rollback-on-error'], lambda m: m.edit_config(CFG, target='candidate', error_option='rollback-on-error'))
    op('edit_config/url', [':url'], lambda m: m.edit_config('ftp://h/f.xml', format='url', target='candidate'))
    op('copy_config', [], lambda m: m.copy_config(source='running', target='startup'))
    op('copy_config/url', [':url'], lambda m: m.copy_config(source='running', target='ftp://h/f.xml'))
    op('delete_config', [], lambda m: m.delete_config('startup'))
    op('delete_config/url', [':url'], lambda m: m.delete_config('file://h/f.xml'))
    op('validate', [':validate'], lambda m: m.validate(source='candidate'))
    op('validate/config', [':validate'], lambda m: m.validate(source=_ele(CFG)))
    op('commit', [':candidate'], lambda m: m.commit())
    op('commit/confirmed', [':candidate', ':confirmed-commit'], lambda m: m.commit(confirmed=True, timeout='120', persist='p1'))
    op('discard_changes', [':candidate'], lambda m: m.discard_changes())
    op('cancel_commit', [':candidate', ':confirmed-commit'], lambda m: m.cancel_commit(persist_id='p1'))
    op('lock', [], lambda m: m.lock('running'))
    op('lock/candidate', [], lambda m: m.lock('candidate'))
    op('unlock', [], lambda m: m.unlock('candidate'))
    # the context manager waits for the reply with a timeout of its own: on the live twin it stands for the lock it sends
    op('locked', [], lambda m: m.locked('candidate').__enter__(), like='lock/candidate')
    op('create_subscription', [':notification'], lambda m: m.create_subscription(stream_name='NETCONF'))
    op('kill_session', [], lambda m: m.kill_session('9'))
    op('poweroff_machine', ['power'], lambda m: m.poweroff_machine())
    op('reboot_machine', ['powers'], lambda m: m.reboot_machine())
    # what the device profiles add (Manager methods by the names of <profile>DeviceHandler.add_additional_operations)
    op('junos.rpc', [], lambda m: m.rpc('<get-software-information/>'), 'junos')
    op('junos.get_configuration', [], lambda m: m.get_configuration(format='text'), 'junos')
    op('junos.load_configuration', [], lambda m: m.load_configuration(format='text', action='merge', config='system { host-name r1; }'), 'junos')
    op('junos.compare_configuration', [], lambda m: m.compare_configuration(rollback=1), 'junos')
    op('junos.command', [], lambda m: m.command('show version', format='text'), 'junos')
    op('junos.reboot', [], lambda m: m.reboot(), 'junos')
    op('junos.halt', [], lambda m: m.halt(), 'junos')
    op('junos.commit', [':candidate'], lambda m: m.commit(comment='c', synchronize=True), 'junos')
    op('junos.commit/confirmed', [':candidate', ':confirmed-commit'], lambda m: m.commit(confirmed=True, timeout='300'), 'junos')
    op('junos.rollback', [], lambda m: m.rollback(rollback=2), 'junos')
    op('nexus.exec_command', [], lambda m: m.exec_command(['show version']), 'nexus')
    op('iosxe.save_config', [], lambda m: m.save_config(), 'iosxe')
    op('huawei.cli', [], lambda m: m.cli(command='<cmd><id>1</id><cmdline>display version</cmdline></cmd>'), 'huawei')
    op('huawei.action', [], lambda m: m.action(action='<frob xmlns="urn:example:x"/>'), 'huawei')
    op('alu.get_configuration', [], lambda m: m.get_configuration(content='cli', detail=True), 'alu')
    op('alu.show_cli', [], lambda m: m.show_cli(command='show version'), 'alu')
    op('alu.load_configuration', [], lambda m: m.load_configuration(format='cli', config='configure system name r1'), 'alu')
    op('h3c.get_bulk', [], lambda m: m.get_bulk(filter=FLT), 'h3c')
    op('h3c.get_bulk_config', [], lambda m: m.get_bulk_config(source='running', filter=FLT), 'h3c')
    op('h3c.cli', [], lambda m: m.cli(command='<Execution>display version</Execution>'), 'h3c')
    op('h3c.action', [], lambda m: m.action(action='<frob xmlns="urn:example:x"/>'), 'h3c')
    op('h3c.save', [], lambda m: m.save(file='a.cfg'), 'h3c')
    op('h3c.load', [], lambda m: m.load(file='a.cfg'), 'h3c')
    op('h3c.rollback', [], lambda m: m.rollback(file='a.cfg'), 'h3c')
    op('hpcomware.cli_display', [], lambda m: m.cli_display(['display version']), 'hpcomware')
    op('hpcomware.cli_config', [], lambda m: m.cli_config(['sysname r1']), 'hpcomware')
    op('hpcomware.action', [], lambda m: m.action(action='<frob xmlns="urn:example:x"/>'), 'hpcomware')
    op('hpcomware.rollback', [], lambda m: m.rollback(filename='a.cfg'), 'hpcomware')
    op('hpcomware.save', [], lambda m: m.save(filename='a.cfg'), 'hpcomware')
    op('sros.md_cli_raw_command', [], lambda m: m.md_cli_raw_command(command='show version'), 'sros')
    op('sros.commit', [':candidate'], lambda m: m.commit(comment='c'), 'sros')
    op('sros.commit/confirmed', [':candidate', ':confirmed-commit'], lambda m: m.commit(confirmed=True, timeout='60', persist='p'), 'sros')
    return T

OPS = _ops()
PROFILES = ('default', 'junos', 'nexus', 'iosxe', 'huawei', 'alu', 'h3c', 'hpcomware', 'sros', 'csr', 'iosxr', 'huaweiyang', 'ericsson', 'ciena')
# a profile's own operation replaces the base operation of the same Manager method name
SHADOWED = {'junos': ('rpc', 'commit', 'commit/confirmed'), 'sros': ('commit', 'commit/confirmed')}

def table(profile):
    out = []
    for o in OPS:
        if o['profile'] is None and o['name'] not in SHADOWED.get(profile, ()): out.append(o)
        elif o['profile'] == profile: out.append(o)
    return out

# ---- the peer -----------------------------------------------------------------------------------------------------------
class CapServer(threading.Thread):
    """sends a <hello> with the given capabilities, counts the <rpc>s it receives (by message-id, whatever the framing),
    answers the first `answer` of them with <ok/>, holds the others"""
    NOTIF = ('<notification xmlns="urn:ietf:params:xml:ns:netconf:notification:1.0"><eventTime>2026-01-01T00:00:00Z</eventTime>'
             '<ev xmlns="urn:example:e">%d</ev></notification>')
    def __init__(self, sock, caps, base11=False, answer=0, chatter=False):
        threading.Thread.__init__(self, daemon=True, name='later-server')
        self.sock, self.caps, self.offer11, self.base11, self.answer = sock, caps, base11, False, answer
        self.chatter = chatter          # a notification for every request received (real_apps.py)
        self.ids, self.cond, self.stream = [], threading.Condition(), b''
    def frame(self, x):
        return (b'\n#%d\n' % len(x) + x + b'\n##\n') if self.base11 else x + R.DELIM
    def run(self):
        hello = ('<?xml version="1.0" encoding="UTF-8"?><hello xmlns="%s"><capabilities>%s</capabilities><session-id>7</session-id></hello>'
                 % (NS, ''.join('<capability>%s</capability>' % c.replace('&', '&amp;') for c in self.caps))).encode()
        try: self.sock.sendall(hello + R.DELIM)
        except OSError: return
        seen = 0
        while True:
            try: data = self.sock.recv(65536)
            except OSError: return
            if not data: return
            self.stream += data
            hello, sep, rest = self.stream.partition(R.DELIM)
            if not sep: continue
            # chunked framing is in force when BOTH hellos name base:1.1 (a profile may advertise 1.0 only)
            self.base11 = self.offer11 and b'netconf:base:1.1' in hello
            ids = re.findall(rb'<(?:[A-Za-z0-9_]+:)?rpc [^>]*message-id="([^"]+)"', rest)
            # an id counts when the message that carries it is complete (its end mark follows)
            ids = ids[:rest.count(b'\n##\n') if self.base11 else rest.count(R.DELIM)]
            for mid in ids[seen:]:
                if seen < self.answer:
                    try: self.sock.sendall(self.frame(('<rpc-reply xmlns="%s" message-id="%s"><ok/></rpc-reply>' % (NS, mid.decode())).encode()))
                    except OSError: return
                seen += 1
                if self.chatter:
                    try: self.notify(seen)
                    except OSError: return
            with self.cond:
                self.ids = [i.decode() for i in ids]; self.cond.notify_all()
    def notify(self, n):
        self.sock.sendall(self.frame((self.NOTIF % n).encode()))
    def wait_ids(self, n, timeout=5.0):
        with self.cond: return self.cond.wait_for(lambda: len(self.ids) >= n, timeout)
    def has(self, mid, timeout=3.0):
        with self.cond: return self.cond.wait_for(lambda: mid in self.ids, timeout)

def hello_caps(case):
    drop = set(case.get('drop') or ())
    return [B10] + ([B11] if case.get('base11') else []) + [u for a, u in CAPS if a not in drop]

def advertised(case):
    drop = set(case.get('drop') or ())
    return [a for a, _ in CAPS if a not in drop]

HOOKS = ('ValueError', 'RuntimeError', 'OperationError', 'SessionError', 'RPCError')
def make_handler(profile, hook=None):
    """the device handler of `profile`; hook = name of an exception class: a CUSTOM handler class (device_params={'handler': cls},
    documented) derived from the profile's, whose handle_raw_dispatch() hands an exception of that class back for every message
    that cannot be parsed (what the junos profile does for some of them)"""
    from ncclient import manager
    dh = manager.make_device_handler({'name': profile})
    if not hook: return dh
    def make_exc(raw):
        if hook == 'RPCError':
            from ncclient.operations.rpc import RPCError
            from ncclient.xml_ import to_ele
            return RPCError(to_ele('<rpc-error xmlns="%s"><error-severity>error</error-severity><error-message>unparsable</error-message></rpc-error>' % NS))
        from ncclient.transport import errors as TE
        from ncclient.operations import errors as OE
        import builtins
        return (getattr(TE, hook, None) or getattr(OE, hook, None) or getattr(builtins, hook))('the device sent a message that cannot be parsed: %r' % raw[:20])
    class Custom(type(dh)):
        def handle_raw_dispatch(self, raw):
            return make_exc(raw)
    return manager.make_device_handler({'name': profile, 'handler': Custom})

class Stand(object):
    """one session of the given transport class on a socketpair + its peer"""
    def __init__(self, kind, profile, caps, base11=False, answer=0, chatter=False, hook=None):
        from ncclient import manager
        self.kind = kind
        self.dh = make_handler(profile, hook)
        self.a, self.b = socket.socketpair(socket.AF_UNIX, socket.SOCK_STREAM)
        self.srv = CapServer(self.b, caps, base11, answer, chatter); self.srv.start()
        self.transport = None
        if kind == 'ssh':
            from ncclient.transport.ssh import SSHSession
            ses = SSHSession(self.dh); self.transport = R.FakeTransport(self.a); ses._transport = self.transport; ses._channel = R.FakeChannel(self.a)
        elif kind == 'tls':
            from ncclient.transport.tls import TLSSession
            ses = TLSSession(self.dh); ses._socket = R.TlsSock(self.a)
        else:
            from ncclient.transport.unixSocket import UnixSocketSession
            ses = UnixSocketSession(self.dh); ses._socket = self.a
        self.ses = ses
    def connect(self):
        self.ses._connected = True
        self.ses._post_connect(timeout=5)
    def managers(self, timeout=TIMEOUT):
        from ncclient import manager
        m = manager.Manager(self.ses, self.dh, timeout=timeout)
        ma = manager.Manager(self.ses, self.dh, timeout=timeout); ma.async_mode = True
        return m, ma
    def nonfatal(self, m, items, sync=True):
        """the EARLIER part of the history: the peer sends payloads that are not XML (HOSTILE of lts.py, correctly framed).  What the
        session makes of one is the business of C14 (dropped, or - profile / custom handler whose handle_raw_dispatch() hands an
        exception back - broadcast to the listeners as an error); it is not a loss of the connection: the session goes on.  After
        each the peer sends a notification and the application takes it (public API): the payload has been processed.
        -> None or a text ('rig:' when the session did not survive: then there is no later loss to judge)"""
        from .lts import HOSTILE
        for k, v in enumerate(items):
            p = HOSTILE[v % len(HOSTILE)].replace('{id}', self.srv.ids[-1] if self.srv.ids else 'urn:uuid:0').encode('utf-8')
            try:
                self.b.sendall(self.srv.frame(p))
                if sync: self.srv.notify(700 + k)
            except OSError:
                return 'rig: the peer could not send the payload that is not XML'
            if sync:
                # earlier notifications (chatter) may still be queued: take them until the one sent behind the payload comes
                end, seen = now() + 2.0, False
                while not seen and now() < end:
                    r = timed(lambda: m.take_notification(True, 0.5))
                    if r is None or r[0] != 'value': break
                    seen = r[1] is not None and ('>%d<' % (700 + k)) in r[1].notification_xml
                if not seen: time.sleep(0.2)
            else:
                time.sleep(0.2)
            if not (self.ses.connected and self.ses.is_alive()):
                return 'rig: the session ended on a payload that is not XML (C14), before the loss'
        return None
    def lose(self, loss, partial_for=None):
        if loss == 'inactive_first' and self.transport is not None:
            self.transport.active = False
        if loss == 'partial' and partial_for is not None:
            x = ('<rpc-reply xmlns="%s" message-id="%s"><data><sys xmlns="urn:example:s"><name>Zü' % (NS, partial_for)).encode()[:-1]
            try: self.b.sendall((b'\n#%d\n' % (len(x) + 40) + x) if self.srv.base11 else x)
            except OSError: pass
            time.sleep(0.05)
        t = now()
        try: self.b.shutdown(socket.SHUT_RDWR)
        except OSError: pass
        self.b.close()
        return t
    def cleanup(self):
        try: self.ses.close()
        except Exception: pass
        for s in (self.a, self.b):
            try: s.close()
            except OSError: pass

def timed(fn, *a):
    """run fn(*a) in a thread -> (kind, value, seconds) or None when it did not come back within TIMEOUT + 2 s"""
    res = {}
    def body():
        t0 = now()
        try: res['r'] = ('value', fn(*a))
        except BaseException as e: res['r'] = ('error', e)
        res['t'] = now() - t0
    th = threading.Thread(target=body, daemon=True); th.start(); th.join(TIMEOUT + 2)
    if th.is_alive() or 'r' not in res: return None
    return res['r'][0], res['r'][1], res['t']

def classify(r):
    """outcome class of a call in the vocabulary of Model/SessionEnd.v: 0 sent | 1 refused (TransportError) |
    2 missing capability | 3 any other exception | 4 did not come back"""
    from ncclient.transport.errors import TransportError
    from ncclient.operations.errors import MissingCapabilityError
    if r is None: return 4
    if r[0] == 'value': return 0
    if isinstance(r[1], TransportError): return 1
    if isinstance(r[1], MissingCapabilityError): return 2
    return 3

# ---- the closing operations -------------------------------------------------------------------------------------------------
class BodyError(Exception):
    """what the body of a with-block raises (an exception of the application, not of the library)"""

CLOSING = ('close', 'close_session', 'close_session/async', 'with', 'with/raise', 'with/request')
CLOSING_DEFAULT = ['close_session', 'close', 'with', 'with/raise', 'close', 'close_session/async', 'with/request', 'close']
CLOSING_CODE = {n: i for i, n in enumerate(CLOSING)}
# on the live twin: the synchronous ones (an asynchronous close_session() closes the transport while its request is still queued)
TWIN_CLOSING = ('close_session', 'with', 'with/raise', 'with/request')

def closing_call(name, ses, m, ma):
    def w_pass():
        with m: pass
    def w_raise():
        with m: raise BodyError('raised by the body of the with-block')
    def w_request():
        with m: m.get_config(source='running')
    return {'close': lambda: ses.close(), 'close_session': lambda: m.close_session(), 'close_session/async': lambda: ma.close_session(),
            'with': w_pass, 'with/raise': w_raise, 'with/request': w_request}[name]

def _chain(e):
    seen = []
    while e is not None and e not in seen:
        seen.append(e); e = e.__cause__ or e.__context__
    return seen

def classify_closing(name, r):
    """classify() + 5: the exception of the with-block's body left the block"""
    if r is not None and r[0] == 'error' and isinstance(r[1], BodyError): return 5
    return classify(r)

def judge_closing(tag, name, r):
    """the property on ONE closing operation made on the ended session -> None or a text"""
    from ncclient.transport.errors import TransportError
    what = {'close': 'session.close()', 'close_session': 'close_session()', 'close_session/async': 'an asynchronous close_session()',
            'with': 'leaving the with-block of the manager', 'with/raise': 'leaving the with-block of the manager with an exception of the body',
            'with/request': 'leaving the with-block of the manager after the request of its body was refused'}[name]
    if r is None:
        return '%s: %s after the loss did not return within its timeout' % (tag, what)
    err = r[1] if r[0] == 'error' else None
    desc = 'returned' if err is None else 'raised %s (%s)' % (type(err).__name__, str(err)[:60])
    if name == 'close':
        if err is not None and not isinstance(err, TransportError):
            return '%s: %s on the session that was lost (closed already by the session thread) %s' % (tag, what, desc)
    elif name == 'with/raise':
        if err is None:
            return '%s: %s: the exception of the body disappeared' % (tag, what)
        if not isinstance(err, BodyError) and not (isinstance(err, TransportError) and any(isinstance(x, BodyError) for x in _chain(err))):
            return '%s: %s %s in place of the exception of the body / the transport error of the refused <close-session>' % (tag, what, desc)
    elif err is None or not isinstance(err, TransportError):
        return '%s: %s after the loss %s instead of being refused with a transport error' % (tag, what, desc)
    if r[2] > PROMPT:
        return '%s: %s after the loss came back only after %.1f s' % (tag, what, r[2])
    return None

def run_later(case):
    """-> None or a text"""
    from ncclient.transport.errors import TransportError
    kind, profile, loss = case['kind'], case.get('profile', 'default'), case.get('loss', 'close')
    n_out, answered = case.get('n_out', 1), case.get('answered', 0)
    tag = '%s/%s%s' % (kind, profile, '/1.1' if case.get('base11') else '')
    if case.get('hook'): tag += '/custom handler (handle_raw_dispatch returns %s)' % case['hook']
    if case.get('nonfatal'): tag += ' after %d message(s) that could not be parsed (%s)' % (len(case['nonfatal']), case.get('nonfatal_at', 'first'))
    caps, adv = hello_caps(case), set(advertised(case))
    ops = table(profile)
    tie = case['_tie'] = dict(live=[], later=[], caps_known=None, has_id=None)
    # ---- the live twin: which calls of the table are requests (the peer receives an <rpc> for them) ----
    twin = Stand(kind, profile, caps, case.get('base11'), answer=1 << 30, hook=case.get('hook'))     # answers everything: every reply wakes the session thread, the queue drains fast
    requests = []
    try:
        twin.connect()
        m, ma = twin.managers()
        sent = []
        for o in ops:
            if o['like']: continue
            r = timed(o['fn'], ma)
            c = classify(r)
            tie['live'].append([o['name'], [CAPIDX[a] for a in o['needs']], c])
            if c == 0:
                sent.append((o, getattr(r[1], 'id', None)))
            elif set(o['needs']) <= adv:
                # the server advertised what the operation needs and the session is live: the table is wrong (or the library is)
                return 'rig: %s: %s is not accepted on a LIVE session that advertised %s: %s' % (tag, o['name'], o['needs'], r and r[1])
        for o, mid in sent:
            if mid is None or not twin.srv.has(mid):
                return 'rig: %s: %s returned on the live session but the peer received no <rpc> for it' % (tag, o['name'])
            requests.append(o)
        requests += [o for o in ops if o['like'] and any(q['name'] == o['like'] for q in requests)]
        # the closing operation is a request: the peer of the live twin receives a <close-session> for it (and the reply comes back)
        tc = case.get('twin_close', 'close_session')
        n_before = len(twin.srv.ids)
        r = timed(closing_call(tc, twin.ses, m, ma))
        c = classify_closing(tc, r)
        tie['live_closing'] = [[CLOSING_CODE[tc], c]]
        if c != (5 if tc == 'with/raise' else 0):
            return 'rig: %s: %s on the LIVE session: %r' % (tag, tc, r and r[1])
        if not twin.srv.wait_ids(n_before + (2 if tc == 'with/request' else 1)) or b'close-session' not in twin.srv.stream:
            return 'rig: %s: %s on the live session but the peer received no <close-session>' % (tag, tc)
        if twin.ses.connected:
            return '%s: the session still reports connected after %s on the live session' % (tag, tc)
    finally:
        twin.cleanup()
    if not requests:
        return 'rig: %s: no operation of the table is a request' % tag
    # ---- the session that is lost ----
    st = Stand(kind, profile, caps, case.get('base11'), answer=answered, hook=case.get('hook'))
    try:
        st.connect()
        ses = st.ses
        m, ma = st.managers()
        nf = case.get('nonfatal') or []
        if nf and case.get('nonfatal_at', 'first') == 'first':
            f = st.nonfatal(m, nf)
            if f: return '%s %s: %s' % (f[:4], tag, f[5:])
        pick = case.get('out_ops') or [o['name'] for o in requests]
        outs = [o for o in requests if o['name'] in pick and o['name'] != 'locked'][:answered + n_out]
        held, issued = [], []
        for i, o in enumerate(outs):
            r = timed(o['fn'], ma)
            if r is None or r[0] != 'value':
                return '%s: %s was not accepted on the live session: %r' % (tag, o['name'], r and r[1])
            issued.append((o, r[1]))
        for i, (o, rpc) in enumerate(issued):
            if not st.srv.has(rpc.id):
                return '%s: the request %s never reached the peer' % (tag, o['name'])
            if i < answered:
                if not rpc.event.wait(3) or rpc.error is not None:
                    return 'rig: %s: %s was not answered' % (tag, o['name'])
            else:
                held.append((o, rpc))
        if nf and case.get('nonfatal_at', 'first') == 'mid':
            # the requests outstanding NOW may be failed by the error the hook handed back (or not: C14); the ones made after it are
            # outstanding at the loss
            f = st.nonfatal(m, nf)
            if f: return '%s %s: %s' % (f[:4], tag, f[5:])
            old, held = held, []
            for o, rpc in old:
                if rpc.event.is_set(): continue
                held.append((o, rpc))
            for o in [q for q in requests if q['name'] not in ('locked',) and q['like'] is None][:max(1, n_out)]:
                r = timed(o['fn'], ma)
                if r is None or r[0] != 'value':
                    return '%s: %s was not accepted on the session that is still live after a message that could not be parsed: %r' % (tag, o['name'], r and r[1])
                if not st.srv.has(r[1].id):
                    return '%s: the request %s made after a message that could not be parsed never reached the peer' % (tag, o['name'])
                held.append((o, r[1]))
        sync_res = {}
        def sync_call():
            t0 = now()
            try: sync_res['r'] = ('value', m.get_config(source='running'))
            except BaseException as e: sync_res['r'] = ('error', e)
            sync_res['end'] = now()
        n_before = len(st.srv.ids)
        ths = threading.Thread(target=sync_call, daemon=True); ths.start()
        if not st.srv.wait_ids(n_before + 1):
            return '%s: the synchronous request never reached the peer' % tag
        t_loss = st.lose(loss, partial_for=(held[0][1].id if held else st.srv.ids[-1]))
        ths.join(TIMEOUT + 2)
        if ths.is_alive() or 'r' not in sync_res:
            return '%s: the outstanding synchronous request did not return within its timeout after the connection was lost' % tag
        k, v = sync_res['r']
        if k != 'error' or not isinstance(v, TransportError):
            return '%s: the outstanding synchronous request ended with %s instead of a transport error' % (tag, type(v).__name__ if k == 'error' else 'a reply')
        if sync_res['end'] - t_loss > PROMPT:
            return '%s: the outstanding synchronous request was failed only %.1f s after the loss' % (tag, sync_res['end'] - t_loss)
        for o, rpc in held:
            if not rpc.event.wait(max(0.0, t_loss + PROMPT - now())):
                return '%s: the outstanding %s request was not failed within %.1f s of the loss' % (tag, o['name'], PROMPT)
            if rpc.reply is not None or not isinstance(rpc.error, TransportError):
                return '%s: the outstanding %s request ended with %r instead of a transport error' % (tag, o['name'], rpc.error if rpc.reply is None else 'a reply')
        ses.join(3)
        if ses.is_alive():
            return '%s: the session thread is still running after the connection was lost' % tag
        if ses.connected or m.connected:
            return '%s: the session still reports connected after the connection was lost' % tag
        tie['caps_known'] = 1 if ses._server_capabilities is not None else 0
        tie['has_id'] = 1 if ses._id is not None else 0
        n_ids = len(st.srv.ids)
        tie['closing'] = []
        def closing_phase():
            for name in case.get('closing', CLOSING_DEFAULT):
                r = timed(closing_call(name, ses, m, ma))
                tie['closing'].append([CLOSING_CODE[name], classify_closing(name, r)])
                f = judge_closing(tag, name, r)
                if f: return f
                if ses.connected or m.connected:
                    return '%s: the session reports connected again after %s on the lost session' % (tag, name)
            r = timed(lambda: m.get_config(source='running'))
            if classify(r) != 1:
                return ('%s: a request made after the closing operations %s on the lost session was not refused with a transport error: %r'
                        % (tag, case.get('closing', CLOSING_DEFAULT), r and r[1]))
            tie['handle'] = 1 if (ses._channel if kind == 'ssh' else ses._socket) is not None else 0
            return None
        if case.get('closing_first'):
            f = closing_phase()
            if f: return f
        for mode, mgr in (('synchronous', m), ('asynchronous', ma)):
            seq = ops if mode == 'synchronous' else list(reversed(ops))
            for o in seq:
                r = timed(o['fn'], mgr)
                c = classify(r)
                if mode == 'synchronous':
                    tie['later'].append([o['name'], [CAPIDX[a] for a in o['needs']], c])
                if o not in requests:
                    continue                      # refused locally on the live session as well (capability not advertised): not judged
                if c == 4:
                    return '%s: a %s %s request made after the loss did not return within its timeout' % (tag, mode, o['name'])
                if c != 1:
                    return ('%s: a %s %s request made after the loss %s instead of being refused with a transport error'
                            % (tag, mode, o['name'], 'was accepted' if c == 0 else 'raised %s (%s)' % (type(r[1]).__name__, str(r[1])[:60])))
                if r[2] > PROMPT:
                    return '%s: a %s %s request made after the loss was refused only after %.1f s' % (tag, mode, o['name'], r[2])
        if not case.get('closing_first'):
            f = closing_phase()
            if f: return f
        if len(st.srv.stream) and len(st.srv.ids) != n_ids:
            return '%s: the peer received a request after the connection was lost' % tag
        case['_stats'] = dict(ops=len(ops), requests=len(requests), outstanding=len(held) + 1)
        return None
    finally:
        st.cleanup()

# ---- generator --------------------------------------------------------------------------------------------------------------
def core_cases():
    """each transport once with everything advertised (every operation of the base table is a request), the three profiles that
    replace base operations / add capability-dependent ones on different transports"""
    return [dict(kind='unix', profile='default', n_out=2, answered=1, loss='partial', twin_close='with/raise'),
            # history: payloads that are not XML first (the junos hook hands an RPCError back for them: non-fatal broadcast), requests, loss
            dict(kind='ssh', profile='junos', n_out=2, answered=0, loss='close', closing_first=True, twin_close='with', nonfatal=[0, 3],
                 closing=['with/raise', 'close', 'close', 'close_session/async', 'with', 'close_session', 'with/request']),
            # custom handler class; the payload arrives while requests are outstanding, others follow it
            dict(kind='unix', profile='default', hook='ValueError', nonfatal=[1], nonfatal_at='mid', n_out=2, answered=1, loss='close',
                 closing=['close_session', 'close'], out_ops=['get', 'get_config', 'lock', 'commit']),
            dict(kind='tls', profile='sros', n_out=1, answered=1, loss='close', base11=True, twin_close='with/request')]

def gen_case(rng, kind=None):
    kind = kind or rng.choice(KINDS)
    c = dict(kind=kind, profile=rng.choice(PROFILES[:9] + PROFILES), n_out=rng.choice([0, 1, 2, 3, 6]), answered=rng.choice([0, 0, 1, 2]),
             loss=rng.choice(['close', 'partial'] + (['inactive_first'] if kind == 'ssh' else [])), base11=rng.random() < 0.4)
    if rng.random() < 0.4:
        c['drop'] = sorted(rng.sample([a for a, _ in CAPS], rng.choice([1, 2, 4])))
    # the closing operations on the ended session: any sequence (a second, third ... close() of every origin), before or after the table
    c['closing'] = [rng.choice(CLOSING) for _ in range(rng.choice([1, 2, 3, 5, 8]))]
    c['closing_first'] = rng.random() < 0.5
    c['twin_close'] = rng.choice(TWIN_CLOSING)
    # the earlier history of the session: payloads that are not XML (dropped, or broadcast as a NON-fatal error: junos, custom handler)
    if rng.random() < 0.5:
        from .lts import HOSTILE
        if rng.random() < 0.6: c['hook'] = rng.choice(HOOKS)
        elif rng.random() < 0.5: c['profile'] = 'junos'
        c['nonfatal'] = [rng.randrange(len(HOSTILE)) for _ in range(rng.choice([1, 1, 2, 3]))]
        c['nonfatal_at'] = rng.choice(['first', 'mid'])
        if c['profile'] == 'junos' and not c.get('hook'): c['nonfatal'] = [v if v != 2 else 0 for v in c['nonfatal']]   # 2 ends a junos session (C14)
    return c

def all_cases():
    out = []
    for i, profile in enumerate(PROFILES):
        for kind in (KINDS if profile in ('default', 'junos', 'sros') else (KINDS[i % 3],)):
            out.append(dict(kind=kind, profile=profile, n_out=2, answered=1, loss='close', base11=(len(out) % 2 == 1)))
    for kind in KINDS:
        for loss in ('close', 'partial') + (('inactive_first',) if kind == 'ssh' else ()):
            for n_out in (0, 1, 15):
                out.append(dict(kind=kind, profile='default', n_out=n_out, answered=0, loss=loss))
        out.append(dict(kind=kind, profile='default', n_out=1, answered=1, loss='close', drop=[':candidate', ':validate']))
        # every closing operation as the FIRST one after the loss (the second close() of the session), then twice more; every
        # closing operation once as the last call on the live twin
        for i, first in enumerate(CLOSING):
            out.append(dict(kind=kind, profile='default', n_out=1, answered=0, loss=('close', 'partial')[i % 2], closing=[first, first, 'close', first],
                            closing_first=(i % 2 == 0), twin_close=TWIN_CLOSING[i % len(TWIN_CLOSING)], out_ops=['get']))
        # a non-fatal error broadcast earlier in the life of the session: every hostile payload x junos / every custom hook, both places
        from .lts import HOSTILE
        for v in (v for v in range(len(HOSTILE)) if v != 2):      # 2: the junos hook repairs it into text that is still not XML: the session ends on it (C14)
            out.append(dict(kind=kind, profile='junos', n_out=1, answered=v % 2, loss='close', nonfatal=[v], nonfatal_at=('first', 'mid')[v % 2],
                            closing=['close'], out_ops=['get', 'get_config', 'lock']))
        for i, hook in enumerate(HOOKS):
            out.append(dict(kind=kind, profile=('default', 'junos', 'huawei')[i % 3], hook=hook, n_out=2, answered=i % 2, loss=('close', 'partial')[i % 2],
                            nonfatal=[i, i + 1], nonfatal_at=('mid', 'first')[i % 2], closing=['close_session'], out_ops=['get', 'get_config', 'lock', 'unlock']))
    return out

def judge(case, tries=2):
    from . import lts
    was = bool(lts._installed)
    lts.uninstall()
    try:
        f = None
        for _ in range(tries):
            c = dict(case)
            f = run_later(c)
            case['_stats'] = c.get('_stats'); case['_tie'] = c.get('_tie')
            if f is None or f.startswith('rig:'): return f
        return f
    finally:
        if was: lts.install()

# ---- correspondence with Model/SessionEnd.v (runner HIST, call 11): the outcome class of every call of the table on the live
# twin and on the ended session, and what the ended object still knows of the negotiation ---------------------------------------
MODEL_COP = {'close': 0, 'close_session': 1, 'close_session/async': 1, 'with': [2, 0], 'with/raise': [2, 1], 'with/request': [2, []]}
MODEL_STYLE = {'tls': 0, 'unix': 0, 'ssh': 1}        # close() keeps the socket | drops the channel behind a guard

def model_calls(case, tie):
    caps = [CAPIDX[a] for a in advertised(case)]
    cop = lambda rows: [MODEL_COP[CLOSING[x[0]]] for x in rows]
    sty = MODEL_STYLE[case['kind']]
    return [[11, caps, 7, 0, [x[1] for x in tie['live']]], [11, caps, 7, 1, [x[1] for x in tie['later']]],
            [12, caps, 7, sty, 0, cop(tie.get('live_closing') or [])], [12, caps, 7, sty, 1, cop(tie.get('closing') or [])]]

def compare(case, tie, mos):
    """-> None or the first difference between Model/SessionEnd.request and the real calls"""
    if not tie: return None
    for which, mo, n in (('live_closing', mos[2], 0), ('closing', mos[3], 1)):
        rows = tie.get(which) or []
        if isinstance(mo, str) or not isinstance(mo, list) or len(mo) != 2 or len(mo[0]) != len(rows):
            return 'model runner rejected the call: %r' % (mo,)
        for (code, c), want in zip(rows, mo[0]):
            if c != want:
                return ('%s on the %s session: outcome class %d, the model %d (0 returned, 1 transport error, 2 missing capability, 3 other exception, '
                        '4 no return, 5 the exception of the with-block\'s body)' % (CLOSING[code], 'live' if n == 0 else 'lost', c, want))
        if n == 1 and tie.get('handle') is not None and [0, tie['handle']] != list(mo[1]):
            return 'after the closing operations the lost session object has (connected, transport handle referenced) = %r, the model %r' % ([0, tie['handle']], list(mo[1]))
    for which, mo, n in (('live', mos[0], 0), ('later', mos[1], 1)):
        rows = tie[which]
        if isinstance(mo, str) or not isinstance(mo, list) or len(mo) != 2 or len(mo[1]) != len(rows):
            return 'model runner rejected the call: %r' % (mo,)
        for (name, needs, c), want in zip(rows, mo[1]):
            if c != want:
                return ('%s on the %s session: outcome class %d, the model %d (0 sent, 1 refused with a transport error, 2 missing capability, 3 other exception, 4 no return)'
                        % (name, 'live' if n == 0 else 'ended', c, want))
        if n == 1 and rows and tie.get('caps_known') is not None:
            got = [0, tie['caps_known'], tie['has_id']]
            if got != list(mo[0]):
                return 'the ended session object has (connected, capabilities known, session-id known) = %r, the model %r' % (got, list(mo[0]))
    return None
