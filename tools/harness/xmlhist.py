"""Deep snapshots of caller-owned lxml trees and of argument objects, for histories of helper calls (C17).

A snapshot records everything a caller can observe on the tree through the lxml API - for every node: kind, tag,
prefix, in-scope nsmap, attributes in order, text, tail, children - starting at the topmost ancestor and including
the comments / processing instructions around the root element and the document information.  It is plain JSON data,
so two snapshots compare with == and `first_diff` names the first place where they differ.

  node : ['e', tag, prefix, [[prefix, uri]..], [[name, value]..], text, [[node, tail]..]]
       | ['c', text] | ['p', target, text] | ['n', text]
  full : {'root': node, 'tail': text, 'pre': [[node, tail]..], 'post': [[node, tail]..], 'doc': [...]}
"""
import copy

FIELDS = ['kind', 'tag', 'prefix', 'nsmap', 'attributes', 'text', 'children']


def snap_node(e):
    from lxml import etree
    if e.tag is etree.Comment: return ['c', e.text]
    if e.tag is etree.ProcessingInstruction: return ['p', e.target, e.text]
    if e.tag is etree.Entity: return ['n', e.text]
    nm = sorted(([p, u] for p, u in e.nsmap.items()), key=lambda x: (x[0] is not None, x[0] or ''))
    return ['e', str(e.tag), e.prefix, nm, [[str(k), v] for k, v in e.attrib.items()], e.text,
            [[snap_node(c), c.tail] for c in e]]


def top_of(e):
    while e.getparent() is not None: e = e.getparent()
    return e


def snapshot(e):
    """everything reachable from the tree that `e` belongs to"""
    top = top_of(e)
    pre = [[snap_node(s), s.tail] for s in top.itersiblings(preceding=True)]
    post = [[snap_node(s), s.tail] for s in top.itersiblings()]
    di = top.getroottree().docinfo
    return {'root': snap_node(top), 'tail': top.tail, 'pre': pre, 'post': post,
            'doc': [di.xml_version, di.encoding, di.standalone, di.doctype]}


def node_at(snap_root, path):
    n = snap_root
    for i in path: n = n[6][i][0]
    return n


def mask(full, path, keep=None):
    """the snapshot with the node at `path` (below the root element) replaced by a placeholder; its tail stays.
    keep: a function of that node's snapshot giving what still has to be compared (default: nothing)."""
    full = copy.deepcopy(full)
    repl = lambda n: ['MASKED'] if keep is None else ['MASKED', keep(n)]
    if not path:
        full['root'] = repl(full['root'])
        return full
    parent = node_at(full['root'], path[:-1])
    parent[6][path[-1]][0] = repl(parent[6][path[-1]][0])
    return full


def first_diff(a, b, loc='/'):
    """human-readable place and values of the first difference between two snapshots (or None)"""
    if a == b: return None
    if isinstance(a, dict) and isinstance(b, dict):
        for k in ('doc', 'pre', 'root', 'tail', 'post'):
            if a.get(k) != b.get(k):
                if k == 'root': return first_diff(a[k], b[k], loc)
                return '%s: %r -> %r' % (k, a.get(k), b.get(k))
    if isinstance(a, list) and isinstance(b, list) and a and b and a[0] == 'e' and b[0] == 'e':
        for i in range(1, 6):
            if a[i] != b[i]: return '%s %s: %r -> %r' % (loc, FIELDS[i], a[i], b[i])
        ka, kb = a[6], b[6]
        if len(ka) != len(kb): return '%s number of children: %d -> %d' % (loc, len(ka), len(kb))
        for i, (x, y) in enumerate(zip(ka, kb)):
            if x[0] != y[0]: return first_diff(x[0], y[0], '%s%d/' % (loc, i))
            if x[1] != y[1]: return '%s%d tail: %r -> %r' % (loc, i, x[1], y[1])
    return '%s: %r -> %r' % (loc, a, b)


# ---------------------------------------------------------------- views of the independent reading
def x_at(t, path):
    """sub-tree of an xnode at a path of lxml child indices (text is not a child)"""
    for i in path:
        kids = [k for k in t[3] if k[0] != 1]
        t = kids[i]
    return t


def lx_child_counts(exp, path=(), out=None):
    """{path of an element: number of its lxml children (elements, comments, PIs)} of an xnode"""
    out = {} if out is None else out
    kids = [k for k in exp[3] if k[0] != 1]
    out[tuple(path)] = len(kids)
    for i, k in enumerate(kids):
        if k[0] == 0: lx_child_counts(k, tuple(path) + (i,), out)
    return out
