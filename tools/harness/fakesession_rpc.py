"""A synchronous fake NETCONF session for RPC-level properties (C06, C13).

`make_session(device_handler, server)` returns a real `ncclient.transport.session.Session`
subclass instance that is "connected" without any transport.  `send(message)` hands the
request text to `server(message) -> list[str]` (the scripted peer) and feeds every returned
reply through the *real* `Session._dispatch_message` (parse_root -> listeners ->
RPCReplyListener.callback -> RPC.deliver_reply) in the caller's thread, so that
`RPC._request` finds its event already set.  No thread is started, nothing is patched.

`parse_request(message)` reads a request with the independent reader (xml.etree): returns
(message_id, operation local name, target datastore local name or None).
ncclient is imported lazily (vlib.paths.use_repo() must have run)."""
import xml.etree.ElementTree as ET

BASE = 'urn:ietf:params:xml:ns:netconf:base:1.0'
DEFAULT_CAPS = ['urn:ietf:params:netconf:base:1.0', 'urn:ietf:params:netconf:capability:candidate:1.0',
                'urn:ietf:params:netconf:capability:startup:1.0', 'urn:ietf:params:netconf:capability:writable-running:1.0']

def local(tag):
    return tag.split('}', 1)[1] if isinstance(tag, str) and tag.startswith('{') else tag

def parse_request(message):
    root = ET.fromstring(message.encode() if isinstance(message, str) else message)
    mid = root.attrib.get('message-id')
    kids = list(root)
    if local(root.tag) != 'rpc' or len(kids) != 1:
        return mid, None, None
    op = kids[0]
    target = None
    for c in op:
        if local(c.tag) in ('target', 'source'):
            sub = list(c)
            if sub:
                target = local(sub[0].tag) if local(sub[0].tag) != 'url' else (sub[0].text or '')
    return mid, local(op.tag), target

def session_class(server, caps=None, connect_hook=None):
    """A Session subclass constructed like the real transports: cls(device_handler).
    `connect_hook(session, args, kwds)`, when given, runs inside `connect()` and may raise (a refused connection)."""
    from ncclient.transport.session import Session
    from ncclient.transport.errors import TransportError
    from ncclient.capabilities import Capabilities

    class FakeRPCSession(Session):
        transport = None                      # connect_ssh looks at session.transport on failure
        _socket = None                        # connect_tls / connect_uds look at session._socket on failure
        def __init__(self, device_handler):
            Session.__init__(self, Capabilities(device_handler.get_capabilities()))
            self._device_handler = device_handler
            self._server_capabilities = Capabilities(caps if caps is not None else DEFAULT_CAPS)
            self._id = '4711'
            self.sent = []
            self.connect_args = None
            self._connected = True
        def connect(self, *args, **kwds):     # the transports' connect(): nothing to do
            self.connect_args = (args, kwds)
            if connect_hook is not None:
                connect_hook(self, args, kwds)
        def run(self):                        # never started
            pass
        def send(self, message):
            if not self.connected:
                raise TransportError('Not connected to NETCONF server')
            self.sent.append(message)
            for reply in server(message):
                self._dispatch_message(reply)
    return FakeRPCSession

def make_session(device_handler, server, caps=None):
    return session_class(server, caps)(device_handler)

class patched_transports:
    """Rebind ncclient.transport.{SSHSession,TLSSession,UnixSocketSession} (the names manager.connect_*
    look up at call time) to the fake session class, so that the real connect_* functions run."""
    NAMES = ('SSHSession', 'TLSSession', 'UnixSocketSession')
    def __init__(self, server, caps=None, connect_hook=None):
        self.cls = session_class(server, caps, connect_hook)
    def __enter__(self):
        import ncclient.transport as T
        self.saved = {n: getattr(T, n) for n in self.NAMES}
        for n in self.NAMES: setattr(T, n, self.cls)
        return self
    def __exit__(self, *a):
        import ncclient.transport as T
        for n, v in self.saved.items(): setattr(T, n, v)
        return False

def reply_doc(message_id, body, prefix=None, extra_attrs=''):
    """An <rpc-reply> in the base namespace (default namespace, or the given prefix)."""
    mid = '' if message_id is None else ' message-id="%s"' % message_id
    if prefix:
        return '<%s:rpc-reply xmlns:%s="%s"%s%s>%s</%s:rpc-reply>' % (prefix, prefix, BASE, mid, extra_attrs, body, prefix)
    return '<rpc-reply xmlns="%s"%s%s>%s</rpc-reply>' % (BASE, mid, extra_attrs, body)
