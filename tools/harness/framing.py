"""Shared harness for C01 / C14 (inbound NETCONF framing).

* ParserRig      - the real DefaultXMLParser on a minimal session stand-in (no thread)
* oracle10/11    - independent statements of the two framings, written from RFC 4742 / RFC 6242
                   and the property text (no regex, not derived from the model or the code)
* generators     - messages, chunkings, segmentations (all randomness from a passed random.Random)
* SessionRig     - the real UnixSocketSession worker thread over a socketpair

Canonical per-segment record (same shape as the model runner, Glue/FramingGlue.v):
    [events, buf, pos | frags, dead]      event = [0, utf8 octets of the dispatched text] | [1, kind]
    kind 1 = UnicodeDecodeError, 2 = NetconfFramingError, [1, 50, clsname] = anything else.
ncclient is imported lazily (check.py calls vlib.paths.use_repo() before plugin.run)."""
import io, os, socket, time, threading, struct, fcntl, termios, itertools, re

DELIM10 = b']]>]]>'
END11 = b'\n##\n'
READ_SIZE = 4096


def hx(b): return bytes(b).hex()
def unhx(s): return bytes.fromhex(s)


# ------------------------------------------------------------------ parser-level rig
class ParserRig:
    id = None                                   # SessionLoggerAdapter looks at session.id

    def __init__(self, base):
        from ncclient.transport.session import NetconfBase
        from ncclient.transport.parser import DefaultXMLParser
        self.base = base
        self._buffer = io.BytesIO()
        self._message_list = []
        self._base = NetconfBase.BASE_11 if base == 11 else NetconfBase.BASE_10
        self._device_handler = None
        self.delivered = []
        self.dead = False
        self.parser = DefaultXMLParser(self)

    def _dispatch_message(self, raw):
        self.delivered.append(raw)

    def feed(self, seg):
        """One transport read handed to parser.parse. After the first exception nothing is fed any more
        (Session.run leaves its loop): later segments give an empty, dead record."""
        if self.dead:
            return [[], b'', 0 if self.base == 10 else b'', 1]
        from ncclient.transport.errors import NetconfFramingError
        n0 = len(self.delivered)
        exc = None
        try:
            self.parser.parse(seg)
        except UnicodeDecodeError:
            exc = [1, 1]
        except NetconfFramingError:
            exc = [1, 2]
        except ParseDidNotReturn:
            exc = list(DID_NOT_RETURN)
        except BaseException as e:              # always a disagreement
            exc = [1, 50, type(e).__name__]
        evs = []
        for r in self.delivered[n0:]:
            try:
                evs.append([0, r.encode('utf-8') if isinstance(r, str) else bytes(r)])
            except Exception as e:
                evs.append([1, 51, type(e).__name__])
        if exc is not None:
            evs.append(exc)
            self.dead = True
        third = self.parser._parsing_pos10 if self.base == 10 else b''.join(
            x if isinstance(x, (bytes, bytearray)) else str(x).encode('utf-8', 'surrogatepass') for x in self._message_list)
        return [evs, self._buffer.getvalue(), third, 1 if self.dead else 0]


# A parse() that does not RETURN is a failing input like any other ("never wedge a session"): every parser-level stream runs
# under a limit of PARSE_LIMIT_S seconds of CPU time of this process (ITIMER_VIRTUAL: a spinning parser burns CPU; a loaded
# machine does not make the limit fire; ITIMER_REAL/SIGALRM is left to check.py's global watchdog).  The signal interrupts
# parse() in the main thread; the record of that segment ends in [1, 60, 'parse did not return ...'] and the rig is dead.
PARSE_LIMIT_S = 2.0
DID_NOT_RETURN = [1, 60, 'parse did not return within %g s of CPU time (spins: the session thread would be wedged)' % PARSE_LIMIT_S]

class ParseDidNotReturn(BaseException):
    pass

_guard_state = {'installed': False, 'armed': False}

def _vt_expired(signum, frame):
    if _guard_state['armed']:            # a signal that arrives after the stream ended is ignored
        _guard_state['armed'] = False
        raise ParseDidNotReturn()

def _guard_on():
    """arm the per-stream limit; False where it cannot be (not the main thread / no setitimer)"""
    import signal
    if threading.current_thread() is not threading.main_thread() or not hasattr(signal, 'setitimer'):
        return False
    if not _guard_state['installed']:
        signal.signal(signal.SIGVTALRM, _vt_expired); _guard_state['installed'] = True
    _guard_state['armed'] = True
    signal.setitimer(signal.ITIMER_VIRTUAL, PARSE_LIMIT_S)
    return True

def _guard_off():
    import signal
    _guard_state['armed'] = False
    signal.setitimer(signal.ITIMER_VIRTUAL, 0)

def did_not_return(records):
    """index of the segment during which parse() did not return, or None"""
    for i, r in enumerate(records):
        if any(e[:2] == [1, 60] for e in r[0]):
            return i
    return None


def run_parser(base, segs):
    rig = ParserRig(base)
    out = []
    armed = _guard_on()
    try:
        try:
            for s in segs:
                out.append(rig.feed(s))
        finally:
            if armed: _guard_off()
    except ParseDidNotReturn:            # fired outside feed's own handler (between two feeds): same verdict
        rig.dead = True
        out.append([[list(DID_NOT_RETURN)], b'', 0 if base == 10 else b'', 1])
    while len(out) < len(segs):
        out.append([[], b'', 0 if base == 10 else b'', 1])
    return out


def flat_events(records):
    """[(segment index, event)] in delivery order."""
    return [(i, e) for i, r in enumerate(records) for e in r[0]]


def records_equal(model_recs, impl_recs):
    """Per-segment comparison; buf/pos/frags are not compared from the raising segment on."""
    if not isinstance(model_recs, list) or len(model_recs) != len(impl_recs):
        return False, 'record count'
    dead = False
    for i, (m, r) in enumerate(zip(model_recs, impl_recs)):
        if m[0] != r[0]:
            return False, 'events of segment %d' % i
        if m[3] != r[3]:
            return False, 'dead flag after segment %d' % i
        if m[3]:
            dead = True
        if not dead and (m[1] != r[1] or m[2] != r[2]):
            return False, 'parser state after segment %d' % i
    return True, ''


# ------------------------------------------------------------------ independent oracles
# Oracle events: (kind, payload, need) - kind 'msg' (payload = delivered text as UTF-8 octets),
# 'decode_error' (the frame is not UTF-8: the session must end with UnicodeDecodeError, the frame is never
# delivered), 'framing_error' (1.1 only). `need` = number of stream octets that must have arrived for the
# event to be decidable (msg / decode_error: up to and including the last octet of the terminator;
# framing_error: up to and including the first octet at which the stream stops being a prefix of a chunk stream).
# Nothing follows a decode_error / framing_error.

def oracle10(stream):
    """RFC 4742 end-of-message framing: split on the first ]]>]]> repeatedly; each frame is decoded strictly
    and stripped (the property allows surrounding white space to be dropped)."""
    out, start = [], 0
    while True:
        k = stream.find(DELIM10, start)
        if k < 0:
            return out
        frame, end = stream[start:k], k + len(DELIM10)
        try:
            text = frame.decode('utf-8')
        except UnicodeDecodeError:
            out.append(('decode_error', None, end))
            return out
        out.append(('msg', text.strip().encode('utf-8'), end))
        start = end


def oracle11(stream):
    """RFC 6242 chunked framing as a byte-at-a-time state machine:
         chunk = LF '#' 1*DIGIT LF <that many octets>      end-of-chunks = LF '#' '#' LF
    Deliberately as lenient as the code where the RFC is stricter (none of these is a framing error here):
    leading zeros in the size, a size of 0 (an empty chunk), sizes above 4294967295, and an end-of-chunks with
    no preceding chunk (delivers the empty message). Everything else that is not a prefix of a chunk stream is
    a framing error at the first offending octet."""
    out = []
    st, size, left, acc = 'LF', 0, 0, []
    i, n = 0, len(stream)
    while i < n:
        c = stream[i]
        if st == 'DATA':
            take = min(left, n - i)
            acc.append(stream[i:i + take])
            left -= take
            i += take
            if left == 0:
                st = 'LF'
            continue
        if st == 'LF':
            ok = c == 0x0A; nxt = 'HASH'
        elif st == 'HASH':
            ok = c == 0x23; nxt = 'FIRST'
        elif st == 'FIRST':                      # first octet after LF '#': a digit or the second '#'
            if c == 0x23:
                ok = True; nxt = 'ENDLF'
            else:
                ok = 0x30 <= c <= 0x39; nxt = 'SIZE'
                if ok: size = c - 0x30
        elif st == 'SIZE':                       # more digits or the LF closing the header
            if c == 0x0A:
                ok = True
                left = size
                nxt = 'DATA' if left > 0 else 'LF'
            else:
                ok = 0x30 <= c <= 0x39; nxt = 'SIZE'
                if ok: size = size * 10 + (c - 0x30)
        elif st == 'ENDLF':
            ok = c == 0x0A; nxt = 'LF'
            if ok:
                payload = b''.join(acc); acc = []
                try:
                    payload.decode('utf-8')
                except UnicodeDecodeError:
                    out.append(('decode_error', None, i + 1))
                    return out
                out.append(('msg', payload, i + 1))
        if not ok:
            out.append(('framing_error', None, i + 1))
            return out
        st = nxt
        i += 1
    return out


def oracle(base, stream):
    return oracle11(stream) if base == 11 else oracle10(stream)


EV_OF = {'decode_error': [1, 1], 'framing_error': [1, 2]}

def expected_timeline(oevents, seglens):
    """[(segment index, canonical event)] the property demands: an event whose `need` octets have arrived by the
    end of segment i (and not before) happens during segment i. Events needing more than was fed do not happen."""
    cum, c = [], 0
    for l in seglens:
        c += l; cum.append(c)
    out, i = [], 0
    for kind, payload, need in oevents:
        while i < len(cum) and cum[i] < need:
            i += 1
        if i == len(cum):
            break
        out.append((i, [0, payload] if kind == 'msg' else EV_OF[kind]))
    return out


def judge(base, segs, records=None, oevents=None):
    """The property oracle on one parser-level run. Returns (ok, what, sig, expected, actual).
    oevents: what was sent (C01, from the independent encoder); default: oracle10/11 of the concatenated stream."""
    if records is None:
        records = run_parser(base, segs)
    stream = b''.join(segs)
    exp = expected_timeline(oracle(base, stream) if oevents is None else oevents, [len(s) for s in segs])
    act = flat_events(records)
    ex_c = [[i, e] for i, e in exp]; ac_c = [[i, e] for i, e in act]
    stuck = did_not_return(records)
    if stuck is not None:
        return False, ('parse did not return: DefaultXMLParser.parse(segment %d = %r) was still running after %g s of CPU time - the session '
                       'thread would spin for ever on this stream: nothing further is framed, pending requests are neither answered nor failed'
                       % (stuck, bytes(segs[stuck])[:60], PARSE_LIMIT_S)), 'parse_did_not_return', ex_c, ac_c
    if exp == [(i, e) for i, e in act]:
        return True, '', None, ex_c, ac_c
    e_ev, a_ev = [e for _, e in exp], [e for _, e in act]
    if e_ev == a_ev:
        # same events, different segment: early = before the terminator, late = stall / lost promptness
        for (ei, e), (ai, _) in zip(exp, act):
            if ai < ei:
                return False, 'event %r happened during segment %d, before its last octet arrived (segment %d)' % (e, ai, ei), 'early', ex_c, ac_c
            if ai > ei:
                return False, 'event %r was due during segment %d but happened only during segment %d' % (e, ei, ai), 'late', ex_c, ac_c
    e_msgs = [e[1] for e in e_ev if e[0] == 0]; a_msgs = [e[1] for e in a_ev if e[0] == 0]
    if e_msgs != a_msgs:
        if len(a_msgs) > len(e_msgs) or any(m not in e_msgs for m in a_msgs):
            sig = 'delivered_not_framed'
        else:
            sig = 'delivery_missing'
        return False, 'delivered messages %r, correctly framed messages of the stream %r' % (a_msgs, e_msgs), sig, ex_c, ac_c
    e_x = [e for e in e_ev if e[0] == 1]; a_x = [e for e in a_ev if e[0] == 1]
    if e_x and not a_x:
        return False, 'stream requires %r (by segment %d) but the parser raised nothing: stall' % (e_x[0], exp[-1][0]), 'no_raise', ex_c, ac_c
    if a_x and not e_x:
        return False, 'parser raised %r on a stream with no error' % (a_x[0],), 'spurious_raise', ex_c, ac_c
    return False, 'events %r, expected %r' % (a_ev, e_ev), 'events_differ', ex_c, ac_c


# ------------------------------------------------------------------ independent encoders
def encode10(msgs):
    return b''.join(m + DELIM10 for m in msgs)

def encode11(chunked):
    out = []
    for chunks in chunked:
        for c in chunks:
            out.append(b'\n#' + str(len(c)).encode('ascii') + b'\n' + c)
        out.append(END11)
    return b''.join(out)

def ends11(chunked):
    """offset just past the terminator of each message of encode11(chunked)"""
    out, p = [], 0
    for chunks in chunked:
        for c in chunks:
            p += 3 + len(str(len(c))) + len(c)
        p += 4
        out.append(p)
    return out

def ends10(msgs):
    out, p = [], 0
    for m in msgs:
        p += len(m) + 6
        out.append(p)
    return out


# ------------------------------------------------------------------ generators: messages
MB = ['\u00e9', '\u20ac', '\U0001F600', '\u00a0', '\u3000', '\u2028', '\u00df', '\u4e2d', '\U00010348']
WS_ENDS = [' ', '\n', '\t', '\r\n', '\u00a0', '\u3000', '\u2028', '\x1f', '\x85', ' \n ']
# Characters a decoder / reader might treat specially when they are the FIRST character of a text (for framing they are
# characters of the message like any other: "text intact"): U+FEFF (byte order mark / zero width no-break space, octets
# EF BB BF - legal in front of an XML document), other zero-width and format characters, non-characters, U+FFFD, line feeds.
# None of them is white space for str.strip except the line feeds / U+001C.
BOM = '\ufeff'
FIRSTS_ZW = [BOM, '\u200b', '\u200c', '\u200d', '\u2060', '\u00ad', '\u180e', '\u061c', '\u202e', '\u200e', '\ufff9',
             '\ufffd', '\ufffe', '\uffff', '\ufdd0', '\ufdef', '\U0001fffe', '\U0010ffff', '\U000e0001', '\u034f']
FIRSTS_LF = ['\n', '\n\n', '\r\n', '\n \n', '\x0b\n', '\x1c\n']
XML_DECLS = ['<?xml version="1.0" encoding="UTF-8"?>', '<?xml version="1.0"?>', '<?xml version="1.0" encoding="utf-8"?>\n']
TINY_FIRST = [BOM + '<a/>', BOM, BOM + BOM + '<b/>', BOM + '<?xml version="1.0"?><n/>', '\n<l/>', '\n\n<l/>', '\u200b<m/>', '\u2060<w/>',
              '\uffff<o/>', '\ufffe<p/>', '\ufdd0', BOM + '\n<q/>', '\n' + BOM + '<s/>', '<t/>' + BOM, '\U0010ffff<u/>', BOM + ' ']
TINY = ['<a/>', '<ok/>', '<r>1</r>', '<a>\u00e9</a>', '<b>\u20ac</b>', '<c>\U0001F600</c>', '<d>x\u00a0</d>',
        '<e>\u3000\u2028</e>', '<f a="1"/>', '<g>]</g>', '<h>&gt;</h>', '<i>]]</i>', '\u00a0<j/>\u2028', ' <k/>\n'] + TINY_FIRST[:8]
MSG_KINDS_10 = ['ascii', 'mb', 'wsends', 'blank', 'brk', 'cdata', 'tiny', 'first']         # + 'long' (explicit jobs: the model is quadratic)
MSG_KINDS_11 = ['ascii', 'mb', 'wsends', 'blank', 'cdata', 'delimlike', 'tiny', 'first']

def _body(rng, n, mb):
    out = []
    for _ in range(n):
        r = rng.random()
        if mb and r < 0.25: out.append(rng.choice(MB))
        elif r < 0.35: out.append(rng.choice([' ', '\n', '&amp;', '&lt;', '<x/>', '#', '##', '>', ']']))
        else: out.append(rng.choice('abcdefghijklmnopqrstuvwxyz0123456789'))
    s = ''.join(out)
    return s.replace(']]>', ']] >')

def gen_message(rng, base, kind, mid=1, long_range=(5000, 12000)):
    """A message text (str). 1.0 texts never contain ]]> (so the only delimiter is the one the encoder adds)."""
    if kind == 'tiny':
        return rng.choice(TINY)
    if kind == 'tiny_first':
        return rng.choice(TINY_FIRST)
    if kind == 'first':                         # the FIRST character is one a decoder / reader might drop or rewrite
        r = rng.random()
        first = BOM if r < 0.5 else rng.choice(FIRSTS_ZW) if r < 0.8 else rng.choice(FIRSTS_LF)
        if rng.random() < 0.15: first = rng.choice([first + first, first + BOM, BOM + first, ' ' + first, first + ' '])
        decl = rng.choice(XML_DECLS) if rng.random() < 0.5 else ''
        doc = rng.choice(['<rpc-reply message-id="%d"><data>%s</data></rpc-reply>' % (mid, _body(rng, rng.randint(0, 20), True)), '<ok/>', '',
                          BOM, 'x'])
        return first + decl + doc + rng.choice(['', '', '\n', BOM, first])
    if kind == 'blank':
        return rng.choice(['', ' \n', ' ', '\n', '\t '])
    if kind == 'ascii':
        return '<rpc-reply message-id="%d"><data>%s</data></rpc-reply>' % (mid, _body(rng, rng.randint(0, 40), False))
    if kind == 'mb':
        return '%s<rpc-reply message-id="%d"><data>%s%s%s</data></rpc-reply>%s' % (
            rng.choice(['', '\u00e9', '\U0001F600']), mid, rng.choice(MB), _body(rng, rng.randint(0, 30), True), rng.choice(MB),
            rng.choice(['', '\u20ac', '\U0001F600', '\u00e9']))
    if kind == 'wsends':
        return '%s<rpc-reply message-id="%d"><data>%s</data></rpc-reply>%s' % (
            ''.join(rng.choice(WS_ENDS) for _ in range(rng.randint(1, 3))), mid, _body(rng, rng.randint(0, 12), True),
            ''.join(rng.choice(WS_ENDS) for _ in range(rng.randint(1, 3))))
    if kind == 'long':
        n = rng.randint(*long_range)
        unit = rng.choice(['<item>abcdefghij</item>', '<v>\u00e9\u20ac</v>\n', 'x', '<n>0123456789</n> '])
        s = '<rpc-reply message-id="%d"><data>' % mid
        body = unit * (n // len(unit.encode('utf-8')))
        return s + body + '</data></rpc-reply>'
    if kind == 'brk':                           # 1.0: ends with a proper prefix of the delimiter that is still unambiguous
        return '<rpc-reply message-id="%d"><data>%s</data></rpc-reply>%s' % (mid, _body(rng, rng.randint(0, 10), True), rng.choice([']', ']]', '>', ']>', ']]]']))
    if kind == 'cdata' and base == 10:          # a lone ]]> inside a 1.0 message is not a delimiter
        return '<rpc-reply message-id="%d"><data><![CDATA[%s]]>%s</data></rpc-reply>' % (mid, _body(rng, rng.randint(0, 8), True), rng.choice(['', 'x', ']]', '>]]']))
    if kind == 'cdata':                         # 1.1: the 1.0 delimiter (pieces) as payload
        return '<rpc-reply message-id="%d"><data><![CDATA[%s]]>%s</data></rpc-reply>%s' % (
            mid, _body(rng, rng.randint(0, 8), True), rng.choice(['', ']]>]]>', ']]>', ']]>]]']), rng.choice(['', ']]>]]>']))
    if kind == 'delimlike':                     # 1.1 only: chunk payload is opaque
        return '%s<rpc-reply message-id="%d"><data>%s%s%s</data></rpc-reply>%s' % (
            rng.choice(['', '\n##\n', '\n#3\n']), mid, _body(rng, rng.randint(0, 6), True),
            rng.choice(['\n##\n', '\n#3\n', '\n#3\nabc\n##\n', '\n#', '\n##']), _body(rng, rng.randint(0, 6), False),
            rng.choice(['', '\n##\n', '\n#3\n', '\n', '\n#', '\n##']))
    raise ValueError(kind)

ROOT_ENDS = [4090, 4096, 4097, 4100, 4300, 5000, 8191, 8193, 9000, 16384, 16500]      # + occasionally beyond 32768

def long_attrs(rng, n):
    """about n characters of attributes for a start tag: xmlns:* declarations (what a reply echoes from its <rpc>, RFC 6241
    4.2) and ordinary attributes whose values hold 2/3/4-byte characters (offsets in characters and in octets differ)"""
    out, size, i = [], 0, 0
    while size < n:
        if i % 3 == 2:
            a = ' a%d="%s"' % (i, ''.join(rng.choice(['\u00e9', '\u20ac', '\U0001F600', 'x', 'y', ' ', '/']) for _ in range(rng.randint(1, min(400, n - size)))))
        else:
            a = ' xmlns:p%03d="urn:example:module:%03d:%s"' % (i, i, rng.choice('abc'))
        out.append(a); size += len(a); i += 1
    return ''.join(out)

def gen_xml_message(rng, base, mid):
    """a message whose root start tag an XML reader accepts (Session._dispatch_message drops anything else); the root's
    start tag may end anywhere: within the first characters or beyond 4096 / 8192 / 16384 / 32768 characters (kinds
    longtag: a long start tag; prolog: XML declaration / long comment / white space before the root)"""
    k = rng.choice(['ascii', 'mb', 'mb', 'trail', 'look', 'big', 'longtag', 'prolog', 'first', 'first'])
    body = _body(rng, rng.randint(0, 30), k != 'ascii')
    if k == 'first':
        # the document begins with a byte order mark (U+FEFF, with or without an XML declaration after it - XML 1.0 4.3.3
        # allows it, an XML reader skips it; for framing it is the first character of the text) or with line feeds
        first = rng.choice([BOM, BOM, BOM, '\n', '\n\n', '\r\n'])
        decl = rng.choice(XML_DECLS) if first == BOM and rng.random() < 0.6 else ''
        s = '%s%s<rpc-reply message-id="%d"><data>%s%s</data></rpc-reply>%s' % (first, decl, mid, rng.choice(MB + [BOM]), body, rng.choice(['', '\n']))
        return s.replace(']]>]]>', ']]> ]]>') if base == 10 else s
    if k == 'look' and base == 11:
        body += rng.choice(['\n##\n', '\n#3\n', '\n#3\nabc\n##\n', '<![CDATA[x]]>', '<![CDATA[]]>]]>']) + _body(rng, 4, True)
    if k == 'big':
        body = (body + '<v>\u00e9\u20ac\U0001F600</v>') * rng.randint(150, 700)
    if k in ('longtag', 'prolog'):
        n = rng.choice(ROOT_ENDS) if rng.random() < 0.9 else rng.randint(32700, 33500)
        if k == 'longtag':
            s = '<rpc-reply message-id="%d"%s><data>%s%s</data></rpc-reply>' % (mid, long_attrs(rng, n - 28), rng.choice(MB), body)
        else:
            pro = rng.choice(['<?xml version="1.0" encoding="UTF-8"?>\n', '', '<?xml version="1.0"?>'])
            fill = max(n - len(pro) - 40, 1)
            pro += rng.choice(['<!--%s-->\n' % ''.join(rng.choice(['\u00e9', '\u4e2d', 'c', 'd', ' ', '\n', '>', '&']) for _ in range(fill)),
                               ''.join(rng.choice(' \n\t') for _ in range(fill))])
            s = '%s<rpc-reply message-id="%d"><data>%s%s</data></rpc-reply>' % (pro, mid, rng.choice(MB), body)
        return s.replace(']]>]]>', ']]> ]]>') if base == 10 else s
    s = '<rpc-reply message-id="%d"><data>%s%s</data></rpc-reply>' % (mid, rng.choice(MB), body)
    if k == 'trail':
        s = rng.choice(['', ' ', '\n']) + s + rng.choice(['\n', ' \n', '\u00a0', '\u2028\n'])
    return s.replace(']]>]]>', ']]> ]]>') if base == 10 else s

def gen_messages(rng, base, short=False):
    kinds = MSG_KINDS_11 if base == 11 else MSG_KINDS_10
    n = rng.choice([1, 1, 2, 2, 3, 4, 6])
    out, ks = [], []
    for j in range(n):
        if short:
            k = rng.choice(['tiny', 'tiny', 'tiny', 'blank'])
        else:
            k = rng.choice(kinds)
        ks.append(k); out.append(gen_message(rng, base, k, j + 1))
    return out, ks


# ------------------------------------------------------------------ generators: chunkings (1.1)
LOOKALIKES = [b'\n##\n', b'\n#3\n', b']]>]]>', b'\n#', b'\n##']

def interior_offsets(b):
    """cut positions inside every multi-byte character and inside every delimiter look-alike of b"""
    s = set(i for i in range(1, len(b)) if 0x80 <= b[i] <= 0xBF)
    for pat in LOOKALIKES:
        k = b.find(pat)
        while k >= 0:
            s.update(p for p in range(k, k + len(pat) + 1) if 0 < p < len(b))
            k = b.find(pat, k + 1)
    return sorted(s)

def cut(b, cuts):
    cuts = [c for c in sorted(set(cuts)) if 0 < c < len(b)]
    out, p = [], 0
    for c in cuts:
        out.append(b[p:c]); p = c
    out.append(b[p:])
    return [x for x in out if x] if b else []

CHUNKINGS = ['single', 'size1', 'uniform', 'random', 'adversarial']

def gen_chunking(rng, b, kind):
    """list of non-empty chunks whose concatenation is b ([] for the empty message)"""
    n = len(b)
    if n == 0: return []
    if kind == 'size1' and n > 400: kind = 'uniform'
    if kind == 'single': return [b]
    if kind == 'size1': return [b[i:i + 1] for i in range(n)]
    if kind == 'uniform':
        k = rng.choice([2, 3, 5, 7, 9, 10, 99, 100, 1000, 4096]) if n <= 400 else rng.choice([99, 100, 999, 1000, 1024, 4096, 4097])
        return [b[i:i + k] for i in range(0, n, k)]
    if kind == 'random':
        m = rng.randint(1, min(n - 1, 12)) if n > 1 else 0
        return cut(b, rng.sample(range(1, n), m) if m else [])
    if kind == 'adversarial':
        offs = interior_offsets(b)
        if len(offs) > 300: offs = rng.sample(offs, 300)
        return cut(b, offs)
    raise ValueError(kind)


# ------------------------------------------------------------------ generators: segmentations
def marks(base, stream):
    """offsets of every delimiter / chunk header start (found by plain search, over-approximate)"""
    pats = [DELIM10] if base == 10 else [b'\n#']
    out = []
    for pat in pats:
        k = stream.find(pat)
        while k >= 0:
            out.append(k); k = stream.find(pat, k + 1)
    return out

def adversarial_cuts(base, stream, around=None):
    n = len(stream)
    s = set(i for i in range(1, n) if 0x80 <= stream[i] <= 0xBF)
    for k in (marks(base, stream) if around is None else around):
        s.update(p for p in range(k - 7, k + 8) if 0 < p < n)
    return sorted(s)

SEGMENTATIONS = ['whole', 'size1', 'fixed4096', 'random', 'adversarial_all', 'adversarial_some']

def gen_cuts(rng, base, stream, kind):
    n = len(stream)
    if kind == 'size1' and n > 400: kind = 'random'
    if kind == 'whole' or n < 2: return []
    if kind == 'size1': return list(range(1, n))
    if kind == 'fixed4096': return list(range(READ_SIZE, n, READ_SIZE))
    if kind == 'random':
        return sorted(rng.sample(range(1, n), rng.randint(1, min(n - 1, 10))))
    adv = adversarial_cuts(base, stream)
    if len(adv) > 250: adv = sorted(rng.sample(adv, 250))
    if kind == 'adversarial_all': return adv
    if kind == 'adversarial_some':
        return sorted(rng.sample(adv, rng.randint(1, min(len(adv), 6)))) if adv else []
    raise ValueError(kind)

def all_single_cuts(n): return [[i] for i in range(1, n)]
def all_double_cuts(n): return [[i, j] for i in range(1, n) for j in range(i + 1, n)]
def all_segmentations(n):
    """every subset of cut positions of a stream of n octets (2^(n-1))"""
    for mask in range(1 << max(n - 1, 0)):
        yield [i + 1 for i in range(n - 1) if mask >> i & 1]

def segment(stream, cuts):
    out, p = [], 0
    for c in cuts:
        out.append(stream[p:c]); p = c
    out.append(stream[p:])
    return out


# ------------------------------------------------------------------ source constants (read, not imported)
def source_constants(repo):
    """Literal constants and the shape of the transport read primitives, read with ast from the files."""
    import ast
    tdir = os.path.join(repo, 'ncclient', 'transport')
    res = {}
    def consts(fn):
        tree = ast.parse(open(os.path.join(tdir, fn), encoding='utf-8').read())
        d = {}
        for node in tree.body:
            if isinstance(node, ast.Assign) and len(node.targets) == 1 and isinstance(node.targets[0], ast.Name):
                d[node.targets[0].id] = node.value
        return tree, d
    def lit(v):
        try: return ast.literal_eval(v)
        except Exception: return ('expr', ast.dump(v))
    tree, d = consts('parser.py')
    res['parser.MSG_DELIM'] = lit(d.get('MSG_DELIM'))
    res['parser.MSG_DELIM_LEN_expr'] = ast.dump(d['MSG_DELIM_LEN']) if 'MSG_DELIM_LEN' in d else None
    res['parser.END_DELIM'] = lit(d.get('END_DELIM'))
    res['parser.BUF_SIZE'] = lit(d.get('BUF_SIZE'))
    for name in ('RE_NC11_DELIM', 'RE_NC11_DELIM_PREFIX'):
        v = d.get(name)
        ok = (isinstance(v, ast.Call) and ast.dump(v.func) == ast.dump(ast.parse('re.compile', mode='eval').body)
              and len(v.args) == 1 and not v.keywords and isinstance(v.args[0], ast.Constant))
        res['parser.' + name] = v.args[0].value if ok else None
    tree, d = consts('session.py')
    res['session.MSG_DELIM'] = lit(d.get('MSG_DELIM'))
    res['session.END_DELIM'] = lit(d.get('END_DELIM'))
    for fn, cls in (('ssh.py', 'SSHSession'), ('tls.py', 'TLSSession'), ('unixSocket.py', 'UnixSocketSession')):
        tree, d = consts(fn)
        res[fn + '.BUF_SIZE'] = lit(d.get('BUF_SIZE'))
        c = [n for n in tree.body if isinstance(n, ast.ClassDef) and n.name == cls]
        res[fn + '.class'] = bool(c)
        if not c: continue
        meths = {n.name: n for n in c[0].body if isinstance(n, ast.FunctionDef)}
        res[fn + '.overrides_run'] = 'run' in meths
        res[fn + '.bases'] = [ast.dump(b) for b in c[0].bases]
        tr = meths.get('_transport_read')
        shape = None
        if tr is not None:
            body = [s for s in tr.body if not (isinstance(s, ast.Expr) and isinstance(s.value, ast.Constant))]  # drop a docstring
            if (len(body) == 1 and isinstance(body[0], ast.Return) and isinstance(body[0].value, ast.Call)):
                call = body[0].value
                if (isinstance(call.func, ast.Attribute) and call.func.attr == 'recv' and not call.keywords
                        and len(call.args) == 1 and isinstance(call.args[0], ast.Name) and call.args[0].id == 'BUF_SIZE'
                        and [a.arg for a in tr.args.args] == ['self'] and not tr.decorator_list):
                    shape = 'return %s.recv(BUF_SIZE)' % ast.unparse(call.func.value)
            if shape is None and [a.arg for a in tr.args.args] == ['self'] and not tr.decorator_list:
                shape = '\n'.join(ast.unparse(s) for s in body)         # any other body: its normalised text (comments dropped)
        res[fn + '._transport_read'] = shape
    return res


# ------------------------------------------------------------------ session-level rig
NS = 'urn:ietf:params:xml:ns:netconf:base:1.0'

def _unread(sock):
    try:
        return struct.unpack('i', fcntl.ioctl(sock.fileno(), termios.FIONREAD, b'\0\0\0\0'))[0]
    except Exception:
        return 0

class SessionRig:
    """UnixSocketSession with its real worker thread; one end of a socketpair is the session's socket, the
    test plays the server on the other end."""

    def __init__(self, base, with_hello=False):
        from ncclient.transport.unixSocket import UnixSocketSession
        from ncclient.transport.session import NetconfBase, SessionListener
        from ncclient.devices.default import DefaultDeviceHandler
        from ncclient.capabilities import Capabilities
        self.base = base
        self.a, self.b = socket.socketpair()
        self.dh = DefaultDeviceHandler({'name': 'default'})
        s = self.s = UnixSocketSession(self.dh)
        s._socket = self.a
        s._connected = True
        s._base = NetconfBase.BASE_11 if base == 11 else NetconfBase.BASE_10
        s._server_capabilities = Capabilities(['urn:ietf:params:netconf:base:1.0', 'urn:ietf:params:netconf:base:1.1'])
        s._id = '1'
        rig = self
        self.events = []                        # ('cb', raw) | ('err', class name), in order
        class Rec(SessionListener):
            def callback(self, root, raw): rig.events.append(('cb', raw))
            def errback(self, ex): rig.events.append(('err', type(ex).__name__))
        self.rec = Rec()
        s.add_listener(self.rec)
        self.closed = False
        s.start()

    # -- server side
    def send(self, seg, settle=False, bound=2.0):
        """write one segment; settle=True waits (bounded) until the worker has taken it out of the kernel so the
        next write arrives as a separate read (segments may otherwise coalesce - also a legal segmentation)"""
        try:
            self.b.sendall(seg)
        except OSError:
            return False
        if settle:
            t = time.time() + bound
            while time.time() < t and self.a.fileno() >= 0 and _unread(self.a) > 0:
                time.sleep(0.0005)
        return True

    def drain_requests(self, n, bound=3.0):
        """read what the session sends until n framed requests arrived; returns the request texts"""
        buf = b''
        t = time.time() + bound
        self.b.settimeout(0.05)
        term = END11 if self.base == 11 else DELIM10
        try:
            while time.time() < t and buf.count(term) < n:
                try:
                    d = self.b.recv(65536)
                except socket.timeout:
                    continue
                except OSError:
                    break
                if not d: break
                buf += d
        finally:
            self.b.settimeout(None)
        return buf

    def wait(self, pred, bound=5.0):
        t = time.time() + bound
        while time.time() < t:
            if pred(): return True
            time.sleep(0.001)
        return pred()

    def wait_events(self, n, bound=5.0):
        return self.wait(lambda: len([e for e in self.events if e[0] == 'cb']) >= n or any(e[0] == 'err' for e in self.events), bound)

    def quiesce(self, bound=2.0):
        """all bytes written so far were read by the worker and parsed (two TICK-free polls of the unread count)"""
        self.wait(lambda: self.a.fileno() < 0 or _unread(self.a) == 0, bound)
        time.sleep(0.01)

    def close(self):
        if self.closed: return
        self.closed = True
        try:
            self.s.close()
        except Exception:
            pass
        for x in (self.b, self.a):
            try: x.close()
            except Exception: pass
        try:
            self.s.join(3)
        except Exception:
            pass

    def alive(self):
        return self.s.is_alive()


def run_session_case(base, segs, expect_n, settle=True):
    """Feed segs through a real session thread; returns (callback raws, errors seen before close, worker alive after close)."""
    rig = SessionRig(base)
    try:
        for s in segs:
            if s: rig.send(s, settle=settle)
        rig.wait_events(expect_n)
        rig.quiesce()
        evs = list(rig.events)
    finally:
        rig.close()
    return [r for k, r in evs if k == 'cb'], [r for k, r in evs if k == 'err'], rig.alive()


def reply(mid, body='<ok/>'):
    return '<rpc-reply xmlns="%s" message-id="%s">%s</rpc-reply>' % (NS, mid, body)

def frame(base, payload, rng=None):
    """correct framing of one payload (octets); 1.1: one chunk, or a random chunking when rng is given"""
    if base == 10:
        return payload + DELIM10
    if not payload:
        return END11
    chunks = [payload] if rng is None else gen_chunking(rng, payload, rng.choice(CHUNKINGS))
    return encode11([chunks])

MSGID = re.compile(r'message-id="([^"]+)"')


def replay_obligation(doc, pid):
    """replay file of kind 'obligation' (a tie broke, no failing input found): re-run the recorded disagreeing cases on the
    extracted model and the implementation; True if they agree now and nothing else was broken"""
    from vlib.model import Model
    ok = not doc.get('broken')
    for b in doc.get('broken', []):
        print('broken   : %s: %s' % (b.get('kind'), str(b.get('detail'))[:300]))
    m = Model(pid)
    have = os.path.exists(m.path)
    for d in doc.get('correspondence', []):
        c = d['case']
        print('case     :', c, '|', d.get('what'), '| theorem', d.get('theorem'))
        if 'segs' not in c or not have:
            print('expected :', d.get('expected')); print('actual   :', d.get('actual')); ok = False; continue
        segs = [unhx(h) for h in c['segs']]
        mo = m.call([1 if c['base'] == 10 else 2, segs]); recs = run_parser(c['base'], segs)
        same, why = records_equal(mo, recs)
        print('expected : (model)', mo); print('actual   : (impl) ', recs)
        if not same: print('FAILS    : model and implementation differ:', why); ok = False
    return ok
