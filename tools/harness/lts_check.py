"""Trace validation against coq/Model/SessionLTS.v and the impl-level oracles of C03 / C04 / C11."""
import re, itertools
from .lts import Scenario, UNKNOWN_ID

EXC_CODE = {'SessionCloseError': 1, 'OperationError': 2, 'RPCError': 2, 'OSError': 3, 'TimeoutExpiredError': 4, 'TransportError': 5,
            'NetconfFramingError': 6, 'UnicodeDecodeError': 3}
QUALIFY_OFF = ('junos', 'iosxr', 'huawei', 'h3c', 'sros')
PROFILES = ['default', 'junos', 'csr', 'nexus', 'iosxr', 'iosxe', 'huawei', 'huaweiyang', 'alu', 'h3c', 'hpcomware', 'sros', 'ericsson', 'ciena']

def qualify_of(profile):
    from ncclient.manager import make_device_handler
    return bool(make_device_handler({'name': profile}).perform_qualify_check())

def describe(spec, decisions):
    return {'spec': spec, 'decisions': list(decisions)}

def run_case(spec, decisions=None, seed=0, rng_after=True):
    sc = Scenario(spec, decisions=decisions, seed=seed, rng_after=rng_after).run()
    sc.decisions_used = [c[0] for c in sc.S.choices]
    return sc

def model_call(sc):
    return [1 if qualify_of(sc.spec.get('profile', 'default')) else 0, sc.labels()]

def observed(sc):
    """Observables of a run in the model's vocabulary: per rid outcome, connected, nq, taken."""
    outs = {}
    for key, rpc in sc.rpcs:
        rid = sc.rid_of_id.get(rpc.id)
        o = sc.outcomes.get(key)
        if rid is None or o is None:
            continue
        if o[0] == 'reply':
            rid2 = sc.rid_of_id.get(o[1])
            outs[rid] = [1, 100 + rid2 if rid2 is not None else 7]
        elif o[0] == 'exc' and o[1] == 'XMLSyntaxError' and rpc.reply is not None and rpc.error is None:
            # the wait ended with a reply stored (what the LTS records); the caller's own parse of it raised
            m = re.search(r'message-id="([^"]+)"', rpc.reply.xml)
            rid2 = sc.rid_of_id.get(m.group(1)) if m else None
            outs[rid] = [1, 100 + rid2 if rid2 is not None else 7]
        elif o[0] == 'exc':
            outs[rid] = [2, EXC_CODE.get(o[1], 3)]
    def nidx(x):
        m = re.search(r'<ev>n(\d+)</ev>', x)
        return int(m.group(1)) if m else 0
    taken = []
    for key in sorted(sc.outcomes):
        o = sc.outcomes[key]
        if o[0] == 'took' and o[1] is not None:
            taken.append((key, nidx(o[1])))
    return dict(outcomes=outs, connected=1 if sc.connected_end else 0, nq=[nidx(x) for x in sc.nq_left],
                taken=taken, exited=sc.worker_done)

def compare(sc, mo):
    """Model output vs observation. Returns a description of the first difference or None."""
    labs = sc.labels()
    if isinstance(mo, str) or mo[0] == 999:
        return 'model runner rejected the call: %r' % (mo,)
    if mo[0] != mo[1]:
        return 'label %d of %d not accepted by SessionLTS.step: %r (trace %r)' % (mo[0], mo[1], labs[mo[0]], labs)
    ob = observed(sc)
    mreqs = mo[2]
    for rid, o in ob['outcomes'].items():
        if rid >= len(mreqs):
            return 'request %d unknown to the model' % rid
        if mreqs[rid][0] != o:
            return 'request %d: model outcome %r, implementation %r' % (rid, mreqs[rid][0], o)
    if mo[3] != ob['connected']:
        return 'connected: model %r, implementation %r' % (mo[3], ob['connected'])
    if mo[4] != ob['nq']:
        return 'notification queue: model %r, implementation %r' % (mo[4], ob['nq'])
    if sorted(mo[5]) != sorted(n for _, n in ob['taken']):
        return 'taken notifications: model %r, implementation %r' % (mo[5], ob['taken'])
    if (mo[6] == 10) != bool(ob['exited']):
        return 'worker exited: model pc %r, implementation %r' % (mo[6], ob['exited'])
    return None

# ---------------- impl-level oracles (the property sentences) ----------------
def server_acts(spec, kind):
    return [a for a in spec['server'] if a[0] == kind]

def faulty(spec):
    return spec.get('wfail') is not None or any(a[0] in ('eof', 'err', 'reply_noid', 'reply_unknown', 'dup', 'garbage', 'badutf8', 'notif_bad') for a in spec['server']) or \
           any(op[0] == 'close' for ops in spec['clients'] for op in ops) or \
           (any(a[0] == 'other' for a in spec['server']) and spec.get('profile', 'default') in QUALIFY_OFF)

def stall_under_lock(sc):
    st = getattr(sc.S, 'stalls', [])
    if st:
        return ('thread %s waited out a time limit while holding a lock that %s needed: the other thread is stalled for the whole timeout' % st[0], 'stall_under_lock')
    return None

def deadlock(sc):
    """A thread that ends the run waiting for a lock nobody will release (locks are released by their holders in every
    path of correct code), or a session thread blocked for ever."""
    if sc.result != 'blocked':
        return None
    for name, (label, timed) in getattr(sc, 'blocked_at', {}).items():
        if label == 'acq':
            return ('thread %s is blocked for ever on a lock (deadlock): %s' % (name, 'the session thread can no longer fail or answer anything' if name == 'W' else 'the call never returns'), 'deadlock')
    return None

def oracle_c03(sc):
    """Each completed request holds the reply carrying its own id; ids unique; a late reply or a
    non-reply message disturbs nothing."""
    spec = sc.spec
    d = deadlock(sc)
    if d: return d
    if len(getattr(sc, 'reply_listeners', [])) > 1:
        return ('%d reply listeners were installed on one session: every reply is dispatched to each of them and the one that does not know the id raises' % len(sc.reply_listeners), 'two_listeners')
    ids = [rpc.id for _, rpc in sc.rpcs]
    if len(set(ids)) != len(ids):
        return ('duplicate message-id on one session', 'dup_id')
    for key, rpc in sc.rpcs:
        o = sc.outcomes.get(key)
        if o and o[0] == 'reply' and o[1] != rpc.id:
            return ('request %s completed with the reply of message-id %s' % (rpc.id, o[1]), 'foreign_reply')
        if rpc.reply is not None:
            m = re.search(r'message-id="([^"]+)"', rpc.reply.xml)
            if not m or m.group(1) != rpc.id:
                return ('request %s stores a reply with message-id %s' % (rpc.id, m and m.group(1)), 'foreign_reply')
    if not faulty(spec) and sc.result in ('finished', 'blocked'):
        if not sc.connected_end:
            return ('session disconnected although the server sent only replies/notifications/unknown messages', 'session_died')
        replied = {a[1] for a in server_acts(spec, 'reply')}
        for key, rpc in sc.rpcs:
            o = sc.outcomes.get(key)
            if rpc.id in sc.received and sc.received.index(rpc.id) in replied and o is not None:
                if o[0] == 'exc' and o[1] != 'TimeoutExpiredError':
                    return ('request %s failed with %s although its reply was sent and nothing went wrong' % (rpc.id, o[1]), 'request_failed')
                if o[0] == 'exc' and not spec.get('eager'):
                    effs = sc.S.effects[:sc.n_effects]
                    di = next((i for i, e in enumerate(effs) if e[1] == 'dispatch' and rpc.id in e[2]), None)
                    wi = next((i for i, e in enumerate(effs) if e[1] == 'waitres' and e[2] is getattr(rpc, '_event', None)), None)
                    if di is not None and wi is not None and di < wi:
                        return ('request %s timed out although its reply had already been received' % rpc.id, 'request_timed_out')
    return None

def oracle_c04(sc):
    """Connection loss: every request the server received and did not answer raises an error (a
    transport error for a peer close), never a foreign/partial reply, never waits out its timeout
    (timeouts fire only at quiescence in these runs); afterwards the session is disconnected and
    new requests are refused with a transport error."""
    spec = sc.spec
    d = deadlock(sc)
    if d: return d
    # "under every schedule and fault a synchronous request returns or raises within its configured timeout":
    # the only place a call may block is a wait that has a time limit
    for name, (label, timed) in getattr(sc, 'blocked_at', {}).items():
        if name.startswith('C') and label == 'ev.wait' and not timed and sc.result == 'blocked':
            return ('client thread %s is blocked in a wait without time limit: the call can outlive its timeout' % name, 'untimed_wait')
    loss = [a[0] for a in spec['server'] if a[0] in ('eof', 'err')]
    if spec.get('wfail') is not None:
        loss = ['wfail'] + loss
    if not loss or spec.get('eager'):
        return None
    if sc.result == 'step-limit':
        return ('the session thread spins without progress after the transport stopped accepting bytes: outstanding requests can only wait out their timeout', 'worker_spins')
    r = oracle_c03(sc)
    if r and r[1] == 'foreign_reply':
        return r
    # the fault only takes effect if the worker got to read it
    fault_seen = any((e[1] == 'read' and e[2] in ('eof', 'err')) or e[1] == 'wfail' for e in sc.S.effects[:sc.n_effects])
    if not fault_seen:
        return None
    if sc.connected_end:
        return ('session still reports connected after the connection was lost', 'still_connected')
    replied = {a[1] for a in server_acts(spec, 'reply')}
    for key, rpc in sc.rpcs:
        o = sc.outcomes.get(key)
        registered_before_fault = True
        if rpc.id in sc.received and sc.received.index(rpc.id) not in replied:
            if o is None:
                return ('request %s received by the server never completed' % rpc.id, 'never_completed')
            if o[0] == 'exc' and o[1] == 'TimeoutExpiredError':
                effs = sc.S.effects[:sc.n_effects]
                fi = next((i for i, e in enumerate(effs) if (e[1] == 'read' and e[2] in ('eof', 'err')) or e[1] == 'wfail'), None)
                wi = next((i for i, e in enumerate(effs) if e[1] == 'waitres' and e[2] is getattr(rpc, '_event', None)), None)
                if fi is not None and wi is not None and wi > fi:
                    return ('request %s waited out its timeout after the connection was lost' % rpc.id, 'waited_timeout')
                continue
            if o[0] == 'reply':
                return ('request %s returned a reply although the server never answered it' % rpc.id, 'foreign_reply')
            if loss[0] in ('eof', 'wfail') and o[1] not in ('SessionCloseError', 'TransportError'):
                return ('request %s raised %s, not a transport error, after the peer closed' % (rpc.id, o[1]), 'wrong_error')
    for ci, ops in enumerate(spec['clients']):
        after = False
        for oi, op in enumerate(ops):
            if op[0] == 'await_disc':
                after = True
            elif after and op[0] == 'rpc':
                o = sc.outcomes.get((ci, oi))
                if o and not (o[0] == 'exc' and o[1] in ('TransportError', 'SessionCloseError')):
                    return ('request issued after the session was lost was not refused with a transport error: %r' % (o,), 'not_refused')
    return None

def oracle_c11(sc):
    """Every notification sent is taken exactly once, in order; never fails a request, never ends the session."""
    spec = sc.spec
    d = deadlock(sc) or stall_under_lock(sc)
    if d: return d
    sent = [a[1] for a in server_acts(spec, 'notif')]
    if not sent:
        return None
    ob = observed(sc)
    dispatched = [int(re.search(r'<ev>n(\d+)</ev>', e[2]).group(1)) for e in sc.S.effects[:sc.n_effects]
                  if e[1] == 'dispatch' and re.sub(r'^<\?xml[^>]*\?>', '', e[2].strip('\0')).startswith('<notification')]
    # single consumer threads take in order: merge by global effect order
    took = [int(re.search(r'<ev>n(\d+)</ev>', e[2].notification_xml).group(1)) for e in sc.S.effects[:sc.n_effects]
            if e[1] == 'nq.get' and e[0] != 'W' and e[2] is not None]
    for e in sc.S.effects[:sc.n_effects]:
        if e[1] == 'took' and e[2] and e[3] > 0:
            return ('take_notification returned None although %d notification(s) were queued' % e[3], 'take_none_with_queued')
    if took + ob['nq'] != dispatched:
        return ('notifications taken %r + still queued %r differ from those received %r' % (took, ob['nq'], dispatched), 'notif_lost_or_dup')
    if not faulty(spec):
        if sc.result in ('finished', 'blocked') and dispatched != sent[:len(dispatched)]:
            return ('notifications dispatched %r are not a prefix of those sent %r' % (dispatched, sent), 'notif_order')
        if not sc.connected_end:
            return ('a notification terminated the session (profile %s)' % spec.get('profile'), 'notif_killed_session')
        for key, rpc in sc.rpcs:
            o = sc.outcomes.get(key)
            if o and o[0] == 'exc' and o[1] != 'TimeoutExpiredError':
                return ('a request failed with %s in a run with only replies and notifications' % o[1], 'notif_failed_request')
        for key, o in sc.outcomes.items():
            if o[0] == 'reply' and '<notification' in (o[1] or ''):
                return ('a notification was taken for a reply', 'notif_as_reply')
    return None

def oracle_c14(sc):
    """Session clause of C14: a stream that breaks chunk framing (or carries undecodable octets) ends the session with an
    error delivered to every pending request instead of stalling; whenever the worker has stopped the session is marked
    disconnected and nothing is left pending; non-XML payloads never reach callers as data; no foreign reply."""
    spec = sc.spec
    r = oracle_c03(sc)
    if r and r[1] in ('foreign_reply', 'two_listeners'):
        return r
    effs = sc.S.effects[:sc.n_effects]
    if sc.worker_done:
        if sc.connected_end:
            return ('the session thread has stopped but the session still reports connected', 'stopped_connected')
        for mid in sc.pending_end:
            if mid in sc.received:
                return ('the session thread has stopped but request %s is still in the pending table (never failed)' % mid, 'stopped_pending')
        # ... and none of the requests the session had written was left waiting: its wait does not end (by its own timeout) after the worker's exit
        xi = next((i for i, e in enumerate(effs) if e[1] == 'exit'), None)
        for key, rpc in sc.rpcs:
            o = sc.outcomes.get(key)
            wi = next((i for i, e in enumerate(effs) if e[1] == 'waitres' and e[2] is getattr(rpc, '_event', None)), None)
            if xi is not None and rpc.id in sc.received and o and o[0] == 'exc' and o[1] == 'TimeoutExpiredError' and (wi is None or wi > xi) and not spec.get('eager'):
                return ('the session thread has stopped and request %s, which it had sent, was never failed: the caller waited out its timeout' % rpc.id, 'stopped_pending')
    answered = [a[1] for a in spec['server'] if a[0] in ('reply', 'dup')]
    killers = [a[0] for a in spec['server'] if a[0] in ('garbage', 'badutf8', 'reply_unknown', 'reply_noid')] + \
              ['dup' for k in set(answered) if answered.count(k) > 1]
    if killers and not spec.get('eager'):
        if sc.result == 'step-limit':
            return ('the session thread spins after the framing error', 'worker_spins')
        fed = any(e[1] == 'errbcast' for e in effs)
        delivered_all = sum(1 for e in effs if e[1] == 'read' and e[2] == 'data') >= sum(1 for a in spec['server'] if a[0] not in ('eof', 'err', 'wait_all'))
        if delivered_all and not fed and not (spec.get('base11') is not True and killers == ['garbage']):
            return ('the stream broke framing / was undecodable but no error was broadcast: the session stalls', 'stall')
        if fed:
            fi = next(i for i, e in enumerate(effs) if e[1] == 'errbcast')
            for key, rpc in sc.rpcs:
                o = sc.outcomes.get(key)
                wi = next((i for i, e in enumerate(effs) if e[1] == 'waitres' and e[2] is getattr(rpc, '_event', None)), None)
                if rpc.id in sc.received and o and o[0] == 'exc' and o[1] == 'TimeoutExpiredError' and wi is not None and wi > fi:
                    return ('request %s waited out its timeout although the session had failed' % rpc.id, 'waited_timeout')
    for key, o in sc.outcomes.items():
        if o[0] == 'reply' and o[1] is None:
            return ('a payload without message-id was returned to a caller as its reply', 'nonreply_as_reply')
    return oracle_c14_hostile(sc)

def _strip_decl(x):
    return re.sub(r'^<\?xml[^>]*\?>', '', x.strip('\0'))

def oracle_c14_hostile(sc):
    """Histories 'hostile message, then later requests' (all profiles). From the property text only:
    (1) a payload that is not XML (judged by an independent reader) never reaches a caller as data: not as the reply a
        call returns / an asynchronous caller can parse, not as a notification returned by take_notification (nor queued
        for it); a reply a caller holds is one the server sent for that request;
    (2) such a payload is dropped, or fails the requests outstanding at that moment, or ends the session with an error -
        it does not disturb anything later: a request whose creation began after every error broadcast had finished,
        on a session nobody closed, is not failed; while the session lives every valid reply the server sends reaches
        its request."""
    from .lts import wellformed, NOTIF
    spec = sc.spec
    effs = sc.S.effects[:sc.n_effects]
    sent = getattr(sc, 'sent_texts', [])
    good_replies = {}                       # message-id -> texts sent as a well-formed reply for it
    good_texts = {}                         # message-id -> well-formed messages sent that carry it
    any_reply = set()
    for ai, k, x in sent:
        if k in ('reply', 'dup', 'reply_bad', 'other'):
            m = re.search(r'message-id="([^"]+)"', x)
            if m:
                any_reply.add(m.group(1))
                if k != 'reply_bad': good_texts.setdefault(m.group(1), set()).add(x)
                if k in ('reply', 'dup'): good_replies.setdefault(m.group(1), set()).add(x)
    good_notifs = {x for ai, k, x in sent if k == 'notif'}
    # (1) replies
    for key, rq in sc.rpcs:
        rep = rq.reply
        o = sc.outcomes.get(key)
        if rep is not None:
            raw = _strip_decl(rep.xml)
            if rq.id not in any_reply:
                return ('request %s holds a reply although the server never sent one for it: %r' % (rq.id, raw[:80]), 'reply_invented')
            if not wellformed(raw):
                if o and o[0] == 'reply' and len(o) > 3 and o[3] in ('returned', 'parsed'):
                    return ('a payload that is not well-formed XML was %s to the caller as the reply of request %s: %r' % (o[3], rq.id, raw[:80]), 'malformed_reply_as_data')
            elif raw not in good_texts.get(rq.id, ()):
                return ('request %s holds %r, which is not a message the server sent with its message-id' % (rq.id, raw[:80]), 'reply_invented')
    # (1) notifications: what take_notification returned and what is queued for it
    qtag = '{%s}notification' % NOTIF
    for key, o in sc.outcomes.items():
        if o[0] == 'took' and o[1] is not None:
            raw = _strip_decl(o[1])
            if not wellformed(raw):
                return ('take_notification returned a payload that is not well-formed XML: %r' % raw[:80], 'malformed_notification_delivered')
            if raw not in good_notifs:
                return ('take_notification returned %r, which the server did not send as a notification' % raw[:80], 'notification_invented')
            if len(o) > 2 and o[2] != qtag:
                return ('notification_ele of a delivered notification: %r instead of the <notification> element' % (o[2],), 'notification_ele_unusable')
    for x in sc.nq_left:
        if not wellformed(_strip_decl(x)):
            return ('a payload that is not well-formed XML is queued for take_notification: %r' % x[:80], 'malformed_notification_queued')
    if spec.get('eager') or sc.result == 'step-limit':
        return None
    # (2) error broadcasts as intervals of the global effect order; a client's close
    bc, cur = [], None                      # (index of the start, index of the end, the error object broadcast)
    for i, e in enumerate(effs):
        if e[1] == 'errbcast': cur = (i, e[2])
        elif e[1] == 'errbcast_end' and cur is not None: bc.append((cur[0], i, cur[1])); cur = None
    if cur is not None: bc.append((cur[0], len(effs), cur[1]))
    closed = next((i for i, e in enumerate(effs) if e[1] == 'close'), None)
    start = {e[2]: i for i, e in enumerate(effs) if e[1] == 'opstart'}
    def failure_explained(key, rq, o):
        """the error a request ended with is one that was broadcast while the request existed, or the refusal of a send on a closed session"""
        err = rq.error
        if closed is not None and o[1] in ('TransportError', 'SessionCloseError'):
            return True
        return err is not None and any(x is err and end > start.get(key, 0) for _, end, x in bc)
    for key, rq in sc.rpcs:
        o = sc.outcomes.get(key)
        if not o or o[0] != 'exc' or o[1] in ('TimeoutExpiredError', 'XMLSyntaxError'):
            continue
        if key not in start:
            continue            # made after the scheduled run was over (a thread released by the harness at the end): not part of the history
        if not failure_explained(key, rq, o):
            return ('request %s failed with %s, which is neither an error broadcast while the request existed nor the refusal of a closed session: '
                    'an earlier hostile message still decides the fate of a later request' % (rq.id, o[1]), 'later_request_failed')
    alive = sc.connected_end and not sc.worker_done and closed is None and spec.get('wfail') is None
    if alive and sc.result in ('finished', 'blocked') and not sc.sock.inb:
        for key, rq in sc.rpcs:
            o = sc.outcomes.get(key)
            if rq.id not in good_replies or o is None:
                continue
            if o[0] == 'exc' and o[1] == 'TimeoutExpiredError' and rq.error is None:
                di = next((i for i, e in enumerate(effs) if e[1] == 'dispatch' and _strip_decl(e[2]) in good_replies[rq.id]), None)
                wi = next((i for i, e in enumerate(effs) if e[1] == 'waitres' and e[2] is getattr(rq, '_event', None)), None)
                if di is not None and wi is not None and di < wi:
                    return ('the session is alive and the valid reply for request %s was received before its wait ended, yet the request timed out' % rq.id, 'valid_reply_not_delivered')
    return None

ORACLES = {'C03': oracle_c03, 'C04': oracle_c04, 'C11': oracle_c11, 'C14': oracle_c14}

# ---------------- scenario generators ----------------
def gen_spec(rng, pid):
    nclients = rng.choice([1, 2, 2, 3])
    clients = []
    for c in range(nclients):
        ops = [('rpc', rng.random() < 0.6) for _ in range(rng.choice([1, 1, 2]))]
        if pid == 'C03' and rng.random() < 0.25:
            ops = [('rpc_ff',) if (op[1] is False and rng.random() < 0.6) else op for op in ops]
        if pid in ('C03', 'C04') and rng.random() < 0.2:
            ops.insert(rng.randrange(len(ops) + 1), ('refused',))     # a locally refused operation leaves nothing behind
        clients.append(ops)
    nreq = sum(1 for o in clients for op in o if op[0] in ('rpc', 'rpc_ff'))
    order = list(range(nreq)); rng.shuffle(order)
    reseed = 4242 if (pid == 'C03' and rng.random() < 0.15) else None
    server = []
    profile = 'default'
    eager = False
    if pid == 'C03':
        profile = rng.choice(['default', 'default', 'junos', 'nexus', 'sros', 'huawei'])
        drop = set(rng.sample(order, rng.choice([0, 0, 1]))) if nreq > 1 else set()
        for k in order:
            if k in drop: continue
            if rng.random() < 0.3: server.append(('notif', len(server) + 1))
            if rng.random() < 0.25: server.append(('other', rng.choice([None, k])))
            server.append(('reply', k))
        if rng.random() < 0.15: server.append(rng.choice([('dup', rng.choice(order)), ('reply_unknown',), ('reply_noid',)]))
        eager = rng.random() < 0.35
        if drop and not eager and rng.random() < 0.5:
            eager = True
    elif pid == 'C04':
        answered = rng.sample(order, rng.randint(0, max(0, nreq - 1)))
        for k in answered:
            server.append(('reply', k))
        if rng.random() < 0.5: server.insert(rng.randint(0, len(server)), ('wait_all',))
        if rng.random() < 0.15:
            server.append(rng.choice([('reply_unknown',), ('reply_noid',)]))   # the server misbehaves, then hangs up
        if rng.random() < 0.35 and nreq - len(answered) > 0:     # the loss falls inside a message (and inside a character)
            rest = [k for k in order if k not in answered]
            server.append(('partial', rng.choice(rest), rng.choice([0, 1, 2, 3])))
        server.append((rng.choice(['eof', 'eof', 'err']),))
        wf = None
        if rng.random() < 0.3:        # the loss is a failed client write instead: k-th write call returns 0 (after a short write)
            server = [a for a in server if a[0] == 'reply' and False] ; wf = [rng.randint(0, max(0, nreq - 1)), rng.choice([0, 0, 1, 17])]
        if rng.random() < 0.6:      # a thread issuing requests while the failure is processed / afterwards
            clients.append([('rpc', rng.random() < 0.5)] if rng.random() < 0.5 else [('await_disc',), ('rpc', True)])
        profile = rng.choice(['default', 'junos'])
        if rng.random() < 0.12:            # no loss at all: the server simply never answers some requests
            server = [a for a in server if a[0] == 'reply'][: max(0, nreq - 1)]; wf = None
    elif pid == 'C14' and rng.random() < 0.5:
        return gen_c14_history(rng)
    elif pid == 'C14' and rng.random() < 0.3:
        return gen_c14_end(rng)
    elif pid == 'C14':
        profile = rng.choice(['default', 'default', 'junos', 'sros', 'nexus'])
        answered = rng.sample(order, rng.randint(0, nreq))
        for k in answered:
            if rng.random() < 0.4: server.append(('nonxml',))
            if rng.random() < 0.2: server.append(('other', rng.choice([None, k])))
            server.append(('reply', k))
        r = rng.random()
        if r < 0.45: server.insert(rng.randint(0, len(server)), ('garbage',))
        elif r < 0.7: server.insert(rng.randint(0, len(server)), ('badutf8',))
        elif r < 0.85: server.append(rng.choice([('reply_unknown',), ('reply_noid',), ('dup', rng.choice(order))]))
        else: server.append(('eof',))
        if rng.random() < 0.4: clients.append([('await_disc',), ('rpc', True)])
    elif pid == 'C11':
        profile = rng.choice(PROFILES)
        nn = rng.randint(1, 4)
        items = [('reply', k) for k in order] + [('notif', i + 1) for i in range(nn)]
        # keep notification numbers increasing (sent order) while interleaving with replies
        rng.shuffle(items)
        ns = iter(range(1, nn + 1))
        server = [(a[0], next(ns)) if a[0] == 'notif' else a for a in items]
        cons = [('take', rng.random() < 0.5) for _ in range(rng.randint(1, nn + 1))]
        if rng.random() < 0.25:                 # the session ends first, the consumer drains afterwards
            server.append(('eof',)); cons = [('await_disc',)] + [('take', True) for _ in range(nn + 1)]
            clients.append(cons)
        elif rng.random() < 0.5: clients.append(cons)
        else: clients[0] = clients[0] + cons
    d = dict(profile=profile, clients=clients, server=server, eager=eager)
    if pid in ('C03', 'C04', 'C11') and rng.random() < 0.2:
        d['app'] = 'reenter'
        if pid == 'C04':        # application errbacks that raise, visited before / after the reply listener
            d['app'] = rng.choice(['reenter', 'raise_first', 'raise_first', 'raise_last'])
    if profile == 'huawei' and rng.random() < 0.6:
        d['nulpad'] = True          # NUL-padded messages, which this profile repairs
    if rng.random() < 0.3:
        d['decl'] = True            # the server writes an XML declaration in front of every message (legal, common)
    if pid == 'C14':
        d['base11'] = rng.random() < 0.75
    if pid == 'C04' and wf is not None:
        d['wfail'] = wf
    if reseed:
        d['reseed'] = reseed
    return d

def gen_c14_end(rng, cut=None, how=None, base11=None):
    """The END of a session with leftovers: requests are outstanding, the server answers some and then sends the beginning of
    a frame that stops inside a character / after a stray 0xff (cut 0-4; 5 = decodable control); then the session ends -
    the application closes it (after the octets were taken in, or racing with them), or the peer sends EOF / the read fails."""
    clients = [[('rpc', rng.random() < 0.5) for _ in range(rng.choice([1, 1, 2]))] for _ in range(rng.choice([1, 2, 2]))]
    nreq = sum(len(c) for c in clients)
    order = list(range(nreq)); rng.shuffle(order)
    k = rng.randint(0, nreq - 1)
    server = [('reply', i) for i in order[:k]] + [('partial', order[k], rng.choice([0, 1, 2, 3, 4, 4, 5]) if cut is None else cut)]
    how = how or rng.choice(['close', 'close', 'close_race', 'eof', 'err'])
    if how in ('eof', 'err'):
        server.append((how,))
    else:
        ops = ([('await_srv', len(server) - 1)] if how == 'close' else []) + [('close',)]
        if rng.random() < 0.5 and not any(op[1] for op in clients[0]): clients[0] = clients[0] + ops       # the closing thread has asynchronous requests outstanding itself
        else: clients.append(ops)
    if rng.random() < 0.3: clients.append([('await_disc',), ('rpc', True)])
    return dict(profile=rng.choice(['default', 'default', 'junos', 'huawei']), clients=clients, server=server, eager=False,
                base11=(rng.random() < 0.5) if base11 is None else base11)

def gen_c14_history(rng, profile=None):
    """History 'hostile / malformed message, then later requests' on one session, any of the 14 profiles: some requests
    are answered or outstanding, the server sends payloads that are not XML (HOSTILE texts, a malformed body behind a valid
    <notification> / <rpc-reply> start tag), the client waits until they were consumed and makes NEW requests, which the
    server answers; a consumer may take notifications."""
    from .lts import HOSTILE, BADBODY
    profile = profile or (rng.choice(weighted_profiles()) if rng.random() < 0.4 else rng.choice(PROFILES))
    c0, server, k, nn = [], [], 0, 0
    def hostile_item(outstanding):
        r = rng.random()
        if r < 0.55: return ('hostile', rng.randrange(len(HOSTILE)))
        if r < 0.65: return ('nonxml',)
        if r < 0.80: return ('notif_bad', 50 + rng.randrange(9), rng.randrange(len(BADBODY)))
        if outstanding: return ('reply_bad', outstanding.pop(), rng.randrange(len(BADBODY)))
        return ('hostile', rng.randrange(len(HOSTILE)))
    outstanding = []
    if rng.random() < 0.7:
        c0.append(('rpc', True)); server.append(('reply', k)); k += 1
    if rng.random() < 0.4 or not c0:
        c0.append(('rpc', False)); outstanding.append(k); k += 1     # pipelined, unanswered while the hostile message arrives
    if rng.random() < 0.3:
        nn += 1; server.append(('notif', nn))
    for _ in range(rng.choice([1, 1, 2])):
        server.append(hostile_item(outstanding))
    c0.append(('await_srv', len(server) - 1))
    for _ in range(rng.choice([1, 1, 2])):
        c0.append(('rpc', rng.random() < 0.8))
        if rng.random() < 0.25: server.append(hostile_item(outstanding))
        if rng.random() < 0.2:
            nn += 1; server.append(('notif', nn))
        server.append(('reply', k)); k += 1
    if outstanding and rng.random() < 0.5:
        server.append(('reply', outstanding.pop()))
    clients = [c0]
    if nn or any(a[0] == 'notif_bad' for a in server) or rng.random() < 0.2:
        clients.append([('await_srv', len(server) - 1)] + [('take', False) for _ in range(nn + 1)] if rng.random() < 0.6 else [('take', True) for _ in range(nn + 1)])
    d = dict(profile=profile, clients=clients, server=server, eager=False, base11=rng.random() < 0.6)
    if profile == 'huawei' and rng.random() < 0.5: d['nulpad'] = True
    if rng.random() < 0.3: d['decl'] = True
    return d

SMALL = {
    'C14': [dict(profile='default', base11=True, clients=[[('rpc', True)], [('rpc', False)]], server=[('reply', 0), ('garbage',)], eager=False),
            dict(profile='junos', base11=True, clients=[[('rpc', False), ('rpc', False)]], server=[('nonxml',), ('badutf8',)], eager=False),
            dict(profile='default', base11=False, clients=[[('rpc', True)], [('rpc', True)]], server=[('nonxml',), ('reply', 1), ('reply_unknown',)], eager=False),
            # hostile message (which a profile may turn into an error for the outstanding request), then a new request
            dict(profile='junos', base11=False, clients=[[('rpc', True), ('await_srv', 1), ('rpc', True)], [('rpc', False)]], server=[('reply', 0), ('hostile', 0), ('reply', 2)], eager=False),
            # malformed body behind a valid <notification> / <rpc-reply> start tag, with a consumer
            dict(profile='default', base11=True, clients=[[('rpc', False), ('await_srv', 2), ('rpc', True)], [('take', True), ('take', True)]],
                 server=[('notif', 1), ('reply_bad', 0, 1), ('notif_bad', 52, 0), ('reply', 1)], eager=False),
            # the application closes the session while an unfinished, undecodable frame is (being) received and requests are outstanding
            dict(profile='default', base11=True, clients=[[('rpc', False), ('close',)], [('rpc', True)]], server=[('partial', 0, 0)], eager=False)],
    'C03': [dict(profile='default', clients=[[('rpc', True)], [('rpc', True)]], server=[('reply', 1), ('reply', 0)], eager=False),
            dict(profile='junos', clients=[[('rpc', False)], [('rpc', True)]], server=[('notif', 1), ('reply', 0), ('reply', 1)], eager=False),
            dict(profile='default', clients=[[('rpc', True)], [('rpc', True)]], server=[('reply', 0)], eager=True),
            dict(profile='default', clients=[[('rpc', True)], [('rpc_ff',), ('rpc', True)]], server=[('notif', 1), ('reply', 1), ('reply', 2), ('reply', 0)], eager=True, app='reenter')],
    'C04': [dict(profile='default', clients=[[('rpc', False), ('rpc', False)], [('rpc', True)]], server=[('wait_all',), ('eof',)], eager=False),
            dict(profile='default', clients=[[('rpc', True)], [('rpc', False)]], server=[('reply', 0), ('err',)], eager=False),
            dict(profile='default', clients=[[('rpc', False), ('rpc', False), ('rpc', False)], [('rpc', False)]], server=[('eof',)], eager=False),
            dict(profile='default', clients=[[('rpc', False), ('rpc', True)]], server=[], eager=False, wfail=[1, 17]),
            dict(profile='default', clients=[[('rpc', True)], [('rpc', False)]], server=[], eager=False, wfail=[0, 0]),
            dict(profile='default', clients=[[('rpc', True)], [('rpc', True)]], server=[('partial', 0, 0), ('eof',)], eager=False, app='reenter'),
            dict(profile='default', clients=[[('rpc', True)], [('rpc', True)]], server=[('reply', 1)], eager=False)],
    'C11': [dict(profile='junos', clients=[[('rpc', True), ('take', False)], [('take', True)]], server=[('notif', 1), ('reply', 0), ('notif', 2)], eager=False),
            dict(profile='default', clients=[[('rpc', True)], [('take', True), ('take', False)]], server=[('reply', 0), ('notif', 1)], eager=False),
            dict(profile='iosxr', clients=[[('rpc', True)], [('await_disc',), ('take', True), ('take', True), ('take', True)]], server=[('notif', 1), ('reply', 0), ('notif', 2), ('eof',)], eager=False),
            dict(profile='default', decl=True, clients=[[('take', True), ('rpc', True)], [('rpc', True)]], server=[('reply', 0), ('notif', 1), ('reply', 1)], eager=False),
            dict(profile='huawei', nulpad=True, clients=[[('rpc', True), ('take', False)]], server=[('notif', 1), ('reply', 0), ('notif', 2)], eager=False)],
}

def c14_sweep(quick=True):
    """Deterministic part of the C14 histories: every profile x every hostile text x both framings (an answered and an
    outstanding request before, a new request after), every malformed body behind a valid <notification> start tag
    (with a consumer) and behind a valid <rpc-reply> start tag (synchronous and asynchronous caller), both framings."""
    from .lts import HOSTILE, BADBODY
    specs = []
    for pi, prof in enumerate(PROFILES):
        for v in range(len(HOSTILE)):
            for b11 in (False, True):
                if quick and (pi + v + b11) % 2 and prof not in weighted_profiles():
                    continue
                specs.append(dict(profile=prof, base11=b11, eager=False,
                                  clients=[[('rpc', True), ('await_srv', 1), ('rpc', True), ('rpc', False)], [('rpc', False)]],
                                  server=[('reply', 0), ('hostile', v), ('reply', 2), ('hostile', (v + 1) % len(HOSTILE)), ('reply', 3)]))
    for v in range(len(BADBODY)):
        for b11 in (False, True):
            if quick and (v + b11) % 2:
                continue
            prof = PROFILES[(2 * v + b11) % len(PROFILES)]
            specs.append(dict(profile=prof, base11=b11, eager=False,
                              clients=[[('rpc', True), ('await_srv', 2), ('take', False), ('take', False), ('rpc', True)]],
                              server=[('reply', 0), ('notif', 1), ('notif_bad', 50 + v, v), ('reply', 1)]))
            specs.append(dict(profile=prof, base11=b11, eager=False,
                              clients=[[('rpc', b11), ('await_srv', 0), ('rpc', True)], [('take', True)]],
                              server=[('reply_bad', 0, v), ('reply', 1), ('notif', 1)]))
    # the end of a session with an unfinished frame in the buffer: every cut x both framings x every way the session ends
    for cut in range(6):
        for b11 in (False, True):
            for hi, how in enumerate(('close', 'close_race', 'eof', 'err')):
                if quick and how != 'close' and (cut + b11 + hi) % 2:
                    continue
                ops = ([('await_srv', 1)] if how == 'close' else []) + [('close',)]
                specs.append(dict(profile='default', base11=b11, eager=False,
                                  clients=[[('rpc', False), ('rpc', False)] + (ops if how.startswith('close') and cut % 2 else []), [('rpc', True)]] + ([ops] if how.startswith('close') and not cut % 2 else []),
                                  server=[('reply', 1), ('partial', 0, cut)] + ([(how,)] if how in ('eof', 'err') else [])))
    return specs

_weighted = []
def weighted_profiles():
    """profiles whose class overrides what happens to a payload that cannot be parsed (more runs go to them)"""
    if not _weighted:
        from ncclient.manager import make_device_handler
        from ncclient.devices.default import DefaultDeviceHandler
        for p in PROFILES:
            if type(make_device_handler({'name': p})).handle_raw_dispatch is not DefaultDeviceHandler.handle_raw_dispatch:
                _weighted.append(p)
        _weighted.append('default')
    return _weighted

def dfs_schedules(spec, bound, cap):
    """Depth-first enumeration of schedules with at most `bound` departures from the
    run-to-completion default (pre-emption bounding). Yields finished Scenario objects."""
    stack = [([], 0)]
    n = 0
    while stack and n < cap:
        prefix, pre = stack.pop()
        sc = run_case(spec, decisions=list(prefix), rng_after=False)
        n += 1
        yield sc
        ch = sc.S.choices
        for j in range(len(prefix), len(ch)):
            i, nopts, default = ch[j]
            if pre + 1 > bound:
                break
            for alt in range(nopts):
                if alt != i:
                    stack.append(([c[0] for c in ch[:j]] + [alt], pre + 1))

def two_sessions_case():
    """Two live sessions in one process: a notification dispatched on one is taken from that one only."""
    from . import lts, sched
    from ncclient.manager import make_device_handler
    from ncclient.transport.session import NotificationHandler
    sched.S = sched.Sched()
    lts.install()
    dh = make_device_handler({'name': 'default'})
    cls = lts.make_session_class()
    a, b = cls(dh, lts.FakeSock()), cls(dh, lts.FakeSock())
    for s in (a, b):
        s.add_listener(NotificationHandler(s._notification_q))
    a._dispatch_message(lts.notif_xml(1)); a._dispatch_message(lts.notif_xml(2))
    got_b = b.take_notification(False, None)
    got_a = [a.take_notification(False, None) for _ in range(3)]
    if got_b is not None:
        return 'a notification sent on one session was returned by take_notification of another session'
    xs = [None if g is None else g.notification_xml for g in got_a]
    if xs != [lts.notif_xml(1), lts.notif_xml(2), None]:
        return 'session A took %r instead of its two notifications in order' % (xs,)
    return None

def two_sessions_rpc_case():
    """Two live sessions in one process with the library's own listener class: losing one session fails only ITS
    outstanding request; the other session's request still gets its own reply."""
    from . import lts
    lts.uninstall()
    try:
        from ncclient.manager import make_device_handler
        from ncclient.transport.session import Session
        from ncclient.transport.errors import SessionCloseError
        from ncclient.capabilities import Capabilities
        from ncclient.operations.retrieve import Get
        dh = make_device_handler({'name': 'default'})
        class S0(Session):
            def __init__(self):
                Session.__init__(self, Capabilities(dh.get_capabilities())); self._device_handler = dh; self._connected = True; self.sent = []
            def send(self, m): self.sent.append(m)
            def run(self): pass
            def close(self): self._connected = False
        a, b = S0(), S0()
        ra = Get(a, dh, async_mode=True, timeout=5); ra.request()
        rb = Get(b, dh, async_mode=True, timeout=5); rb.request()
        a._dispatch_error(SessionCloseError(b''))               # session A is lost
        if rb.event.is_set() or rb.error is not None:
            return 'losing one session failed a request outstanding on ANOTHER session (%r)' % (rb.error,)
        if not ra.event.is_set() or ra.error is None:
            return 'the request of the lost session was not failed'
        try:
            b._dispatch_message(lts.reply_xml(rb.id))
        except Exception as e:
            return 'the other session could not deliver its own reply after the first one was lost: %s: %s' % (type(e).__name__, e)
        if rb.reply is None or rb.id not in rb.reply.xml:
            return 'the other session\'s request did not receive its own reply'
        return None
    finally:
        lts.install()

def backlog_case(n=3000):
    """A backlog of untaken notifications must not block the session thread: n notifications are dispatched with no
    consumer (real queue.Queue, real Session code), then a reply must still be delivered to its request."""
    import io, threading
    from . import lts
    lts.uninstall()
    try:
        from ncclient.manager import make_device_handler
        from ncclient.transport.session import Session, NotificationHandler
        from ncclient.capabilities import Capabilities
        from ncclient.operations.retrieve import Get
        dh = make_device_handler({'name': 'default'})
        class S0(Session):
            def __init__(self):
                Session.__init__(self, Capabilities(dh.get_capabilities())); self._device_handler = dh; self._connected = True; self.sent = []
            def send(self, m): self.sent.append(m)
            def run(self): pass
        s = S0(); s.add_listener(NotificationHandler(s._notification_q))
        rpc = Get(s, dh, async_mode=True, timeout=5); rpc.request()
        done = threading.Event()
        def feed():
            for i in range(n): s._dispatch_message(lts.notif_xml(i))
            s._dispatch_message(lts.reply_xml(rpc.id)); done.set()
        th = threading.Thread(target=feed, daemon=True); th.start()
        if not done.wait(20):
            return 'with %d notifications untaken the session thread blocks inside the notification handler: replies are no longer processed' % n
        if not rpc.event.is_set() or rpc.reply is None:
            return 'the reply after a notification backlog was not delivered'
        got = []
        while True:
            x = s.take_notification(False, None)
            if x is None: break
            got.append(x.notification_xml)
        if got != [lts.notif_xml(i) for i in range(n)]:
            return 'backlog of %d notifications came back as %d (order or content changed)' % (n, len(got))
        return None
    finally:
        lts.install()

from .real_end import real_end_case, half_built_case

def check(ctx, pid, n_random, dfs_bound, dfs_cap, corpus=(), model=None):
    """Common body of the C03 / C04 / C11 plugins (and of the session clause of C14, with its own LTS runner)."""
    oracle = ORACLES[pid]
    lts_model = model if model is not None else ctx.model
    direct = {'C11': (('two_sessions', two_sessions_case), ('backlog', backlog_case)),
              'C03': (('two_sessions_rpc', two_sessions_rpc_case), ('backlog', backlog_case)), 'C04': (('two_sessions_rpc', two_sessions_rpc_case), ('real_end', real_end_case), ('half_built', half_built_case)),
              'C14': (('two_sessions_rpc', two_sessions_rpc_case),)}.get(pid, ())
    for name, fn in direct:
        f = fn()
        ctx.count({'check': name}, key=name)
        if f:
            ctx.fail({'check': name}, f, sig=None, expected='property %s' % pid, actual=f)
    runs = []
    for doc in corpus:
        runs.append(run_case(doc['spec'], decisions=list(doc['decisions']), rng_after=False))
    for spec in SMALL[pid]:
        for sc in dfs_schedules(spec, dfs_bound, dfs_cap):
            runs.append(sc)
    if pid == 'C14':
        for spec in c14_sweep(ctx.tier == 'quick'):
            runs.append(run_case(spec, decisions=[], rng_after=False))
            if ctx.tier != 'quick':
                runs.append(run_case(spec, seed=ctx.rng.randrange(1 << 30)))
    for i in range(n_random):
        spec = gen_spec(ctx.rng, pid)
        runs.append(run_case(spec, seed=ctx.rng.randrange(1 << 30)))
    calls = [model_call(sc) for sc in runs]
    outs = lts_model.batch(calls) if lts_model else [None] * len(runs)
    for sc, mo in zip(runs, outs):
        case = describe(sc.spec, sc.decisions_used)
        case['lts'] = pid
        labs = calls[runs.index(sc)][1] if False else None
        ctx.count(case, nontrivial=len(sc.rpcs) > 0, key=[sc.spec, sc.decisions_used])
        ctx.traces += 1
        ctx.hist('result', sc.result); ctx.hist('profile', sc.spec.get('profile')); ctx.hist('n_clients', len(sc.spec['clients']))
        ctx.hist('outcomes', ','.join(sorted({(o[0] if o[0] != 'exc' else o[1]) for o in sc.outcomes.values()})))
        if ctx.evaluations % 211 == 1:
            ctx.sample({'case': case, 'outcomes': {str(k): v[:2] for k, v in sc.outcomes.items()}})
        if mo is not None:
            d = compare(sc, mo)
            if d:
                ctx.disagree(case, 'SessionLTS accepts the trace and predicts the observables', d, 'trace validation against Model/SessionLTS.v', theorem='%s_*' % pid)
        if sc.result == 'step-limit':
            ctx.disagree(case, 'run terminates', 'step limit reached', 'scheduler step limit')
        f = oracle(sc)
        if f:
            ctx.fail(case, f[0], sig=None, expected='property %s' % pid, actual=f[0])
    if pid in ('C03', 'C04', 'C11'):          # byte-level replay on the composed model (Model/SessionE2E.v), re-segmented streams
        from . import e2e_check
        e2e_check.replay_runs(ctx, pid, runs, n_sample=150 if ctx.tier == 'quick' else 1500, n_seg=120 if ctx.tier == 'quick' else 2500)

def search(ctx, pid, seeds, n=1500):
    oracle = ORACLES[pid]
    direct = {'C11': (('two_sessions', two_sessions_case), ('backlog', backlog_case)),
              'C03': (('two_sessions_rpc', two_sessions_rpc_case), ('backlog', backlog_case)), 'C04': (('two_sessions_rpc', two_sessions_rpc_case), ('real_end', real_end_case), ('half_built', half_built_case)),
              'C14': (('two_sessions_rpc', two_sessions_rpc_case),)}.get(pid, ())
    for name, fn in direct:
        f = fn()
        if f:
            return dict(case={'check': name}, what=f, sig=None, expected='property %s' % pid, actual=f)
    for c in seeds:
        for extra in range(40):
            sc = run_case(c['spec'], decisions=list(c['decisions']) if extra == 0 else None, seed=extra, rng_after=(extra != 0))
            f = oracle(sc)
            if f:
                return dict(case=describe(sc.spec, sc.decisions_used), what=f[0], sig=None, expected='property %s' % pid, actual=f[0])
    for spec in (c14_sweep(False) if pid == 'C14' else []):
        sc = run_case(spec, decisions=[], rng_after=False)
        f = oracle(sc)
        if f:
            return dict(case=describe(sc.spec, sc.decisions_used), what=f[0], sig=None, expected='property %s' % pid, actual=f[0])
    for spec in SMALL[pid]:
        for sc in dfs_schedules(spec, 3, 1200):
            f = oracle(sc)
            if f:
                return dict(case=describe(sc.spec, sc.decisions_used), what=f[0], sig=None, expected='property %s' % pid, actual=f[0])
    for i in range(n):
        spec = gen_spec(ctx.rng, pid)
        sc = run_case(spec, seed=i)
        f = oracle(sc)
        if f:
            return dict(case=describe(sc.spec, sc.decisions_used), what=f[0], sig=None, expected='property %s' % pid, actual=f[0])
    if pid in ('C03', 'C04', 'C11'):
        from . import e2e_check
        return e2e_check.search_seg(ctx, pid)
    return None

def replay(doc, pid):
    c = doc['case']
    if c.get('check') in ('two_sessions', 'backlog', 'two_sessions_rpc'):
        f = {'two_sessions': two_sessions_case, 'backlog': backlog_case, 'two_sessions_rpc': two_sessions_rpc_case}[c['check']]()
        print(c['check'], ':', f or 'holds'); return f is None
    spec = c['spec']
    spec['clients'] = [[tuple(op) for op in ops] for ops in spec['clients']]
    spec['server'] = [tuple(a) for a in spec['server']]
    sc = run_case(spec, decisions=list(c['decisions']), rng_after=False)
    f = ORACLES[pid](sc)
    if not f and c.get('e2e'):
        from . import e2e_check
        f = e2e_check.oracle_stream(sc)
    print('case      :', c)
    print('outcomes  :', sc.outcomes, 'connected', sc.connected_end, 'result', sc.result)
    print('expected  : property %s holds' % pid)
    print('actual    :', f[0] if f else 'holds')
    return f is None
