"""C12 on SSH: the channel buffer of paramiko made observable (model: field `chan`, label `Arrive` of
coq/Model/Close.v; theorems C12_ssh_bound, C12_ssh_bound_from_closing, C12_ssh_worker_terminates).

* `scenario_buffered`  drives a real SSHSession against the in-process paramiko server so that exactly k chunks
  (k = 0..3; one chunk = what one `recv(BUF_SIZE)` returns) sit in the channel buffer when close() closes the transport;
* `ssh_arrivals`       completes the label sequence of an SSH run with the `Arrive` labels: a chunk read before the
  transport was closed arrived just before that read; the chunks read afterwards must all have been in the buffer when
  the transport was closed, and there are exactly ceil(B / BUF_SIZE) of those, B = len(channel.in_buffer) measured
  under the log lock right after Transport.close() returned (or is_active() was found false)  -> hypotheses O4 and O5
  are checked by the acceptance of the trace: one read too many (or an early b'') and the model rejects it;
* `iteration_oracle`   the bound on the observations alone: selects begun after the transport was closed
  <= 1 + ceil(B / BUF_SIZE);
* `iteration_tie`      the same count against the model: bound 1 + length (chan s) in the model state reached by the
  prefix that ends with the CloseHandle label, and the ghost counter sel_after_close of the final state.
"""
import threading, time

BUF_SIZE = 4096                 # ncclient.transport.ssh.BUF_SIZE at the time of writing; re-read from the tree below
MARK = 100                      # pseudo label [MARK, B] left by to_labels where the buffer was measured

def buf_size():
    try:
        import ncclient.transport.ssh as S
        return int(S.BUF_SIZE)
    except Exception:
        return BUF_SIZE

def chunks_of(nbytes, size=None):
    size = size or BUF_SIZE
    return (nbytes + size - 1) // size

# ----------------------------------------------------------------------------------------------------
# labels
# ----------------------------------------------------------------------------------------------------
def _is_close_handle(l):
    return l[0] == 8 and l[2] == 2

def ssh_arrivals(out):
    """out: encoded labels of an SSH run with [MARK, B] markers -> labels with [25, n] (Arrive n) inserted"""
    B = None; labels = []
    for l in out:
        if l[0] == MARK:
            if B is None: B = l[1]
            continue
        labels.append(l)
    ic = next((i for i, l in enumerate(labels) if _is_close_handle(l)), None)
    reads = [i for i, l in enumerate(labels) if l[0] == 17 and l[1] == 1]
    pre = [i for i in reads if ic is None or i < ic]
    post = [i for i in reads if ic is not None and i > ic]
    ins = {}
    for i in pre: ins.setdefault(i, []).append([25, labels[i][2]])
    if ic is not None:
        measured = chunks_of(B, buf_size()) if B is not None else len(post)
        # a recv in progress while the buffer was measured may already have taken its chunk
        inprog = False
        for l in reversed(labels[:ic]):
            if l[0] == 17: break
            if l[0] == 16: inprog = True; break
        allowed = measured + (1 if inprog and len(post) == measured + 1 else 0)
        ns = [labels[i][2] for i in post][:allowed]
        ns += [0] * (allowed - len(ns))          # buffered but never read (the worker left the loop another way)
        if ns: ins.setdefault(ic, []).extend([25, n] for n in ns)
    res = []
    for i, l in enumerate(labels):
        res.extend(ins.get(i, ())); res.append(l)
    return res

# ----------------------------------------------------------------------------------------------------
# observations
# ----------------------------------------------------------------------------------------------------
def close_point(plog):
    """index and measured buffer (octets) of the first entry that closed the transport / found it inactive"""
    for i, (lab, arg, w) in enumerate(plog):
        if lab in ('TransportClose', 'TransportInactive'): return i, (arg or 0)
    return None, None

def iterations(plog):
    """what the worker did after the transport was closed (None: the transport was never closed)"""
    ic, B = close_point(plog)
    if ic is None: return None
    sel = sum(1 for (lab, arg, w) in plog[ic + 1:] if w and lab == 'SelectBegin')
    data = sum(1 for (lab, arg, w) in plog[ic + 1:] if w and lab == 'Read' and arg == 1)
    eof = sum(1 for (lab, arg, w) in plog[ic + 1:] if w and lab == 'Read' and arg == 0)
    size = buf_size()
    return dict(buffered_octets=B, buffered_chunks=chunks_of(B, size), selects_after_close=sel,
                data_reads_after_close=data, eof_reads_after_close=eof, bound=1 + chunks_of(B, size))

def iteration_oracle(plog):
    """the property on the observations: list of (what, sig)"""
    it = iterations(plog)
    if it is None: return []
    bad = []
    if it['selects_after_close'] > it['bound']:
        bad.append(('SSH worker began %d loop iterations after the transport was closed with %d octets (%d chunks of %d) '
                    'buffered in the channel: more than 1 + %d' % (it['selects_after_close'], it['buffered_octets'],
                    it['buffered_chunks'], buf_size(), it['buffered_chunks']), None))
    return bad

def release_oracle(s):
    """SSH: after close() returned the paramiko transport is down and the channel dropped"""
    bad = []
    try:
        t = s._transport
        if t is not None and t.is_active():
            bad.append(('paramiko transport still active after close() returned', None))
    except Exception:
        pass
    return bad

def iteration_tie(labels, mo, model):
    """model side: bound from the state at the CloseHandle label, ghost counter at the end; returns (info, diffs)"""
    ic = next((i for i, l in enumerate(labels) if _is_close_handle(l)), None)
    if ic is None or model is None or mo is None or not mo.get('accepted'): return None, []
    v = model.call([1, 0, labels[:ic + 1]])
    if isinstance(v, str) or v[0] != ic + 1: return None, ['model rejects the prefix up to CloseHandle']
    chan = list(v[1][14])
    sel = sum(1 for l in labels[ic + 1:] if l[0] == 14)
    info = dict(model_chan_at_close=chan, model_bound=1 + len(chan), selects_after_close=sel, model_sel_after_close=mo.get('sel_after'))
    diffs = []
    if sel > 1 + len(chan):
        diffs.append('selects after close %d > model bound 1 + %d buffered chunks (C12_ssh_bound)' % (sel, len(chan)))
    if mo.get('sel_after') != sel:
        diffs.append('sel_after_close: model %r, observed %r' % (mo.get('sel_after'), sel))
    return info, diffs

# ----------------------------------------------------------------------------------------------------
# scenario: k chunks buffered in the channel when close() closes the transport
# ----------------------------------------------------------------------------------------------------
def _note(i, size):
    head = (b'<notification xmlns="urn:ietf:params:xml:ns:netconf:notification:1.0"><eventTime>2026-01-01T00:00:00Z'
            b'</eventTime><n>%d</n><pad>' % i)
    tail = b'</pad></notification>]]>]]>'
    return head + b'x' * max(0, size - len(head) - len(tail)) + tail

def payload(k, msg_size, size=None):
    """messages of about msg_size octets whose total length makes exactly k chunks (the last chunk is partly filled)"""
    size = size or buf_size()
    if k == 0: return []
    total = (k - 1) * size + (size * 2) // 3 + (msg_size % 97)
    msgs, left = [], total
    while left >= msg_size + 200:
        msgs.append(_note(len(msgs) + 1, msg_size)); left -= msg_size
    msgs.append(_note(len(msgs) + 1, left))
    assert sum(map(len, msgs)) == total and chunks_of(total, size) == k, (k, msg_size, total)
    return msgs

def _wait(pred, t=2.0):
    t0 = time.monotonic()
    while time.monotonic() - t0 < t:
        if pred(): return True
        time.sleep(0.002)
    return pred()

def scenario_buffered(case, r, opn, submit, peers):
    """case: k (chunks buffered at close), mode (callback: the worker sits in a listener callback while the data arrives
    and the transport is closed | gate: it sits between select and recv | idle: it sits in select, k = 0), pending"""
    from ncclient.transport.session import SessionListener
    k, mode, npend = case['k'], case['mode'], case.get('pending', 0)
    r.s, r.peer, err = opn(rpc='hold')
    assert err is None, err
    s = r.s
    s._plog_add('HelloOk')
    submit(r, npend)
    chan = peers.unwrap(s._channel)
    msgs = payload(k, case.get('msg', 1000))
    total = sum(map(len, msgs))
    def closed_by_client():
        with s._plock:
            return any(l[0] in ('TransportClose', 'TransportInactive') and not l[2] for l in s._plog)
    def close_while(blocked_release):
        th = threading.Thread(target=s.close, name='c12-closer'); th.start()
        _wait(closed_by_client)
        time.sleep(case.get('delay', 0.01))
        blocked_release()
        th.join(); r.t_ret = peers.now()
    if mode == 'callback':
        entered, release = threading.Event(), threading.Event()
        class Blocker(SessionListener):
            def callback(self, root, raw):
                if not entered.is_set():
                    entered.set(); release.wait(5)
            def errback(self, ex): pass
        s.add_listener(Blocker())
        r.peer._send(_note(0, 300))
        assert entered.wait(3), 'the worker did not reach the callback'
        if msgs: r.peer._send(b''.join(msgs))
        assert _wait(lambda: len(chan.in_buffer) >= total), 'payload did not reach the channel buffer'
        close_while(release.set)
    elif mode == 'gate':
        assert k >= 1
        s.at_gate.clear(); gate = threading.Event(); s.read_gate = gate
        r.peer._send(b''.join(msgs))
        assert s.at_gate.wait(3), 'the worker did not reach the gate'
        assert _wait(lambda: len(chan.in_buffer) >= total), 'payload did not reach the channel buffer'
        def rel():
            s.read_gate = None; gate.set()
        close_while(rel)
    else:
        assert k == 0
        s.close(); r.t_ret = peers.now()
    r.extra['buffered'] = dict(k=k, octets=total, messages=len(msgs))
    return r

def quick_cases(rng):
    """the SSH buffer cases of the quick tier: k = 0..3 chunks, both places where the worker can be caught"""
    cs = [dict(transport='ssh', path='ssh_buffered', mode='idle', k=0, pending=1)]
    for k in (0, 1, 2, 3):
        # delay: how long the worker stays blocked after the transport was closed (close() must wait for it: the join)
        cs.append(dict(transport='ssh', path='ssh_buffered', mode='callback', k=k, pending=k % 2,
                       msg=rng.choice([500, 1000, 1300, 2048]), delay=0.12 if k % 2 else 0.01))
    for k in (1, 2, 3):
        cs.append(dict(transport='ssh', path='ssh_buffered', mode='gate', k=k, pending=(k + 1) % 2,
                       msg=rng.choice([500, 1000, 1300, 2048])))
    return cs
