"""The hello exchange (C05) under the deterministic scheduler of tools/harness/sched.py.

The real `Session._post_connect` runs in a managed thread 'M', the real `Session.run` in the managed worker 'W'
(started by the library's own `self.start()`), a scripted server in 'S'.  Nothing in ncclient is edited: the
module-level names `Lock/Event/Queue/selectors/HelloHandler` of ncclient.transport.session are rebound, and a
Session subclass supplies the four transport extension points plus logging properties for the shared fields
`_base`, `_hello_pending`, `_id`, `_server_capabilities` and a logging set for `_listeners`.  Every access to those
is a schedule point and an entry of the global effect log, which `labels()` maps to the labels of
coq/Model/NegotiateSched.v (`fstep`)."""
import io, sys, threading
from . import sched
from .sched import Sched, SLock, SEvent, SQueue

BASE_NS = 'urn:ietf:params:xml:ns:netconf:base:1.0'
B10, B11 = 'urn:ietf:params:netconf:base:1.0', 'urn:ietf:params:netconf:base:1.1'
B10X, B11X = 'urn:ietf:params:xml:ns:netconf:base:1.0', 'urn:ietf:params:xml:ns:netconf:base:1.1'
EOM = b']]>]]>'
LATER = ['<rpc message-id="1"><get/></rpc>', '<rpc message-id="2">naïve</rpc>']

class NEvent(SEvent):
    """init_event: is_set() is a schedule point too (the deadline may pass and the event be set before the test)."""
    def is_set(self):
        self.S.point('ev.is_set')
        self.S.effect('isset', self, self.flag)
        return self.flag

class FakeSock:
    def __init__(self):
        self.inb = []; self.eof = False; self.err = False; self.out = bytearray(); self.closed = False
        self.nwrites = 0; self.wfail = None
    def readable(self):
        return (bool(self.inb) or self.eof or self.err) and not self.closed

class _Selector:
    def __init__(self):
        self.socks = []
    def register(self, s, ev):
        self.socks.append(s)
    def select(self, timeout=None):
        ses = self.socks[0]
        ses._S.point('select', enabled=lambda: ses._sock.readable() or (bool(ses._q.d) and ses._gate_open()) or ses._closing.flag)
        return [1] if ses._sock.readable() else []
    def close(self):
        pass

class _SelMod:
    EVENT_READ = 1
    DefaultSelector = _Selector

_installed = {}
def install():
    import ncclient.transport.session as ses
    if not _installed:
        _installed['ses'] = (ses.Lock, ses.Event, ses.Queue, ses.selectors, ses.HelloHandler)
        base = ses.HelloHandler
        class LoggedHello(base):
            """The real HelloHandler; the two callbacks it was given are wrapped so that entering them is logged."""
            def __init__(self, init_cb, error_cb):
                S = sched.S
                def ok(id, caps):
                    S.effect('okcb', id, list(caps)); return init_cb(id, caps)
                def err(e):
                    S.effect('errcb', e); return error_cb(e)
                base.__init__(self, ok, err)
        _installed['LoggedHello'] = LoggedHello
    ses.Lock, ses.Event, ses.Queue, ses.selectors, ses.HelloHandler = SLock, NEvent, SQueue, _SelMod, _installed['LoggedHello']

def uninstall():
    import ncclient.transport.session as ses
    if _installed:
        ses.Lock, ses.Event, ses.Queue, ses.selectors, ses.HelloHandler = _installed['ses']

class LSet(set):
    """Session._listeners with registration, removal and snapshot logged."""
    def _hello(self, x):
        return isinstance(x, _installed['ses'][4])
    def add(self, x):
        sched.S.effect('ladd', self._hello(x)); set.add(self, x)
    def discard(self, x):
        sched.S.effect('ldiscard', self._hello(x)); set.discard(self, x)
    def __iter__(self):
        sched.S.effect('snap', any(self._hello(x) for x in set.__iter__(self)))
        return set.__iter__(self)

def _field(name, store, get_point=True):
    def getter(self):
        S = self._S
        if S.name() is None:
            return self.__dict__.get(store)
        caller = sys._getframe(1).f_code.co_name
        if get_point is True or caller in get_point:
            S.point(name + '.get')
        v = self.__dict__.get(store)
        S.effect(name + '.get', v, caller)
        return v
    def setter(self, v):
        S = self._S
        if S.name() is None:
            self.__dict__[store] = v; return
        S.point(name + '.set')
        self.__dict__[store] = v
        S.effect(name + '.set', v)
    return property(getter, setter)

def make_session_class():
    from ncclient.transport.session import Session
    from ncclient.transport.parser import DefaultXMLParser
    from ncclient.capabilities import Capabilities
    class NegSession(Session):
        _base = _field('base', '_x_base', get_point=('run',))        # the parser's reads are logged, not scheduled
        _hello_pending = _field('pend', '_x_pend')
        _id = _field('sid', '_x_id', get_point=())
        _server_capabilities = _field('caps', '_x_caps', get_point=('_post_connect',))
        def __init__(self, dh, sock, ready):
            self._S = sched.S
            Session.__init__(self, Capabilities(dh.get_capabilities()))
            self._device_handler = dh
            self._buffer = io.BytesIO(); self._message_list = []
            self._closing = SEvent(); self._sock = sock
            self._listeners = LSet()
            self.parser = DefaultXMLParser(self)
            self._connected = True
            self._q.qname = 'q'; self._notification_q.qname = 'nq'
            self._ready = ready                     # dict(mode=..., polls=[...])
            self._began = False; self._returned = False; self._dispatched = False
        def _gate_open(self):
            m = self._ready['mode']
            if m == 'after_return': return self._returned
            if m == 'after_dispatch': return self._dispatched
            return True
        def start(self):
            self._S.point('start'); self._S.effect('start')
            self._began = True
            threading.Thread.start(self)
        @property
        def connected(self):
            self._S.point('chk'); v = self._connected; self._S.effect('chk', v); return v
        def close(self):
            self._S.point('close')
            self._closing.flag = True; self._sock.closed = True; self._connected = False
            self._S.effect('close')
        def _transport_register(self, sel, ev):
            sel.register(self, ev)
        def _send_ready(self):
            r = self._ready
            if r['mode'] == 'polls' and r['polls']:
                v = bool(r['polls'].pop(0))
            else:
                v = self._gate_open()
            self._S.effect('ready', v)
            return v
        def _transport_write(self, data):
            self._S.point('write')
            if getattr(self._S, 'draining', False):
                raise OSError('scenario over')
            s = self._sock
            s.nwrites += 1
            if s.wfail is not None and s.nwrites > s.wfail[0]:
                if s.nwrites == s.wfail[0] + 1 and s.wfail[1] > 0 and len(data) > 1:
                    n = min(s.wfail[1], len(data) - 1)
                    s.out += data[:n]; self._S.effect('write', bytes(data[:n])); return n
                self._S.effect('wfail'); return 0
            n = len(data)
            if s.wfail is None and getattr(s, 'short', 0) and len(data) > s.short:
                n = s.short                          # the transport takes the frame in pieces (no fault)
            s.out += data[:n]; self._S.effect('write', bytes(data[:n])); return n
        def _transport_read(self):
            self._S.point('read')
            s = self._sock
            if s.inb:
                d = s.inb.pop(0); self._S.effect('read', 'data'); return d
            if s.err:
                self._S.effect('read', 'err'); raise OSError('connection reset (injected)')
            self._S.effect('read', 'eof'); return b''
        def _dispatch_message(self, raw):
            self._S.effect('dispatch', raw)
            return Session._dispatch_message(self, raw)
        def _dispatch_error(self, err):
            self._S.effect('errbcast', err)
            return Session._dispatch_error(self, err)
    return NegSession

# ---------------------------------------------------------------- server messages
def esc(s):
    return s.replace('&', '&amp;').replace('<', '&lt;').replace('>', '&gt;')

def hello_xml(caps, sid, qualified=True):
    c = ''.join('<capability/>' if u is None else '<capability>%s</capability>' % esc(u) for u in caps)
    s = '' if sid is None else '<session-id>%s</session-id>' % sid
    return '<hello%s><capabilities>%s</capabilities>%s</hello>' % (' xmlns="%s"' % BASE_NS if qualified else '', c, s)

def hello_tree(caps, sid, qualified=True):
    """the same document as the model's value [tag, text, children] (Glue/C05_glue.v un_node)"""
    def tag(local): return ('{%s}%s' % (BASE_NS, local) if qualified else local).encode()
    kids = [[tag('capabilities'), [], [[tag('capability'), [] if u is None else [u.encode()], []] for u in caps]]]
    if sid is not None:
        kids.append([tag('session-id'), [str(sid).encode()], []])
    return [tag('hello'), [], kids]

def message(m):
    """m = ('hello', caps, sid, qualified) | ('other',) | ('foreign',) | ('nonxml',) -> (xml text, model hello_in or None)
    model hello_in: [1, tree] = HTree, [1] = HOther, None = never reaches a listener"""
    k = m[0]
    if k == 'hello':
        return hello_xml(m[1], m[2], m[3]), [17, hello_tree(m[1], m[2], m[3])]
    if k == 'other':
        return '<rpc-reply xmlns="%s" message-id="1"><ok/></rpc-reply>' % BASE_NS, [17]
    if k == 'foreign':
        return '<hello xmlns="urn:other"><capabilities><capability>%s</capability></capabilities><session-id>1</session-id></hello>' % B11, [17]
    if k == 'nonxml':
        return 'this is <<< not xml', None
    raise ValueError(m)

CUTS = ('whole', 'in_xml', 'before_delim', 'in_delim', 'after_delim', 'bytewise_delim')
def segment(data, cut):
    """position classes at which the transport cuts a framed message"""
    k = len(data) - len(EOM)
    if cut == 'whole': return [data]
    if cut == 'in_xml': return [data[:k // 2], data[k // 2:]]
    if cut == 'before_delim': return [data[:k], data[k:]]
    if cut == 'in_delim': return [data[:k + 3], data[k + 3:]]
    if cut == 'after_delim': return [data[:k + 5], data[k + 5:]]
    if cut == 'bytewise_delim': return [data[:k]] + [data[i:i + 1] for i in range(k, len(data))]
    if isinstance(cut, int): return [data[:cut % (len(data) + 1)], data[cut % (len(data) + 1):]]
    raise ValueError(cut)

class Run:
    """spec = dict(profile, extra=[...], server=[action...], ready=dict(mode, polls), later=n, eager=bool, wfail=(n,short)|None, short=k)
    server action: ('msg', m, cut, when) | ('raw', hex, when) | ('eof', when) | ('err', when)
       when: 'pre' (already readable when _post_connect begins) | 'free' (any time) | 'after_hello' (once the client hello is on the wire)
             | 'after_return' (once _post_connect returned)"""
    def __init__(self, spec, decisions=None, seed=0, rng_after=True):
        self.spec, self.decisions, self.seed, self.rng_after = spec, decisions, seed, rng_after
    def run(self, max_steps=1500):
        from ncclient.manager import make_device_handler
        spec = self.spec
        S = sched.S = Sched(decisions=self.decisions, seed=self.seed, eager_timeouts=bool(spec.get('eager')), rng_after=self.rng_after)
        install()
        dp = {'name': spec.get('profile', 'default')}
        dh = make_device_handler(dp)
        dh.add_additional_netconf_params({'capabilities': list(spec.get('extra', []))})
        sock = FakeSock()
        if spec.get('wfail') is not None: sock.wfail = tuple(spec['wfail'])
        sock.short = spec.get('short', 0)
        rd = dict(spec.get('ready') or {'mode': 'always'}); rd['polls'] = list(rd.get('polls', []))
        ses = make_session_class()(dh, sock, rd)
        self.ses, self.sock, self.dh = ses, sock, dh
        self.client_list = list(dh.get_capabilities())
        self.msgs = []                               # (xml text, model hello_in) in arrival order
        acts = []
        for a in spec['server']:
            a = tuple(a)
            if a[0] == 'msg':
                xml, hin = message(tuple(a[1]))
                self.msgs.append((xml, hin))
                acts.append((segment(xml.encode() + EOM, a[2]), a[3]))
            elif a[0] == 'raw':
                acts.append(([bytes.fromhex(a[1])], a[2]))
            else:
                acts.append((a[0], a[1]))
        def deliver(what):
            if what == 'eof': sock.eof = True
            elif what == 'err': sock.err = True
            else: sock.inb.extend(c for c in what if c)
        pending_acts = []
        for what, when in acts:
            if when == 'pre' and not pending_acts: deliver(what)
            else: pending_acts.append((what, when))
        def hello_out():
            return EOM in bytes(sock.out) or b'\n##\n' in bytes(sock.out)
        def server():
            for what, when in pending_acts:
                en = {'free': None, 'pre': None, 'after_hello': hello_out, 'after_return': (lambda: ses._returned)}[when]
                S.point('srv', enabled=en)
                if en is not None and not en(): return
                deliver(what); S.effect('srv', what if isinstance(what, str) else 'data')
        real_run = ses.run
        def wrun():
            try:
                real_run()
            finally:
                S.effect('exit')
        ses.run = S.wrap_run('W', wrun)
        outcome = {}
        later = LATER[:spec.get('later', 2)]
        def main():
            try:
                ses._post_connect(5); out = ('ok', None)
            except BaseException as e:
                out = ('exc', type(e).__name__)
            outcome['result'] = out
            outcome['at_return'] = dict(sid=ses.__dict__.get('_x_id'), caps=ses.__dict__.get('_x_caps'), base=ses.__dict__.get('_x_base'),
                                        wire=len(sock.out))
            ses._returned = True
            S.effect('ret', out)
            sent = []
            if out[0] == 'ok':
                for i, m in enumerate(later):
                    try:
                        ses.send(m); sent.append(('sent', i + 1))
                    except Exception as e:
                        sent.append(('refused', type(e).__name__))
            elif spec.get('probe_after_failure'):
                # a session whose connect failed because it died must not accept a request once its worker ended
                S.point('await_w', enabled=lambda: S.threads['W']['done'])
                if S.threads['W']['done']:
                    try:
                        ses.send(LATER[0]); sent.append(('accepted-after-failure',))
                    except Exception as e:
                        sent.append(('refused', type(e).__name__))
            outcome['sent'] = sent
        S.spawn('M', main)
        S.adopt('W'); S.threads['W']['enabled'] = lambda: ses._began
        # 'dispatched' gate: opened by the first okcb effect
        orig_effect = S.effect
        def effect(*e):
            if e and e[0] in ('okcb', 'errcb'): ses._dispatched = True
            orig_effect(*e)
        S.effect = effect
        if pending_acts: S.spawn('S', server)
        res = S.run(max_steps=max_steps)
        self.result = res
        self.blocked_at = {n: (t['label'], bool(t['timeout_ok'])) for n, t in S.threads.items() if not t['done']}
        self.n_effects = len(S.effects)
        self.wire = bytes(sock.out)
        self.outcome = dict(outcome)
        self.final = dict(sid=ses.__dict__.get('_x_id'), caps=ses.__dict__.get('_x_caps'), base=ses.__dict__.get('_x_base'),
                          pend=ses.__dict__.get('_x_pend'), connected=ses._connected, worker_done=S.threads['W']['done'],
                          listener=any(isinstance(l, _installed['ses'][4]) for l in set.__iter__(ses._listeners)),
                          q=list(ses._q.d), client_caps=list(ses._client_capabilities), started=ses._began)
        self._drain(S, ses, sock)
        self.S = S
        self.decisions_used = [c[0] for c in S.choices]
        return self
    def _drain(self, S, ses, sock):
        ses._closing.flag = True; sock.closed = True
        def free_point(label, enabled=None, timeout_ok=False):
            return 'timeout' if timeout_ok else 'go'
        S.point = free_point
        S.effect = lambda *e: None
        S.draining = True
        for t in S.threads.values():
            if not t['done']:
                t['why'] = 'timeout' if t['timeout_ok'] else 'go'
                t['sem'].release()
        if ses._began: ses.join(2)
        for th in S.handles:
            th.join(2)

    # ---------------------------------------------------------------- effect log -> labels of NegotiateSched.fstep
    def labels(self):
        """Label numbers as in Glue/C05_glue.v (fn 6).  Returns (labels, notes); notes = effects that have no place in the
        program order the mapping knows (reported as a disagreement by the caller)."""
        effs = self.S.effects[:self.n_effects]
        out, notes = [], []
        qmsgs = []                    # texts put on the queue, index = message number
        returned = False
        m_caps_read = False
        w_send = None                 # W's send branch: None | 'got' | 'pend_f'
        frame = None                  # octets of the frame being written
        last_w = None
        raised = False
        for e in effs:
            th, k = e[0], e[1]
            if th == 'M':
                if k == 'ladd':
                    if e[2]: out.append([0])
                elif k == 'pend.set': out.append([1] if e[2] is True else [99, 'M pend.set %r' % (e[2],)])
                elif k == 'pend.get': out.append([99, 'M pend.get'])
                elif k == 'q.put':
                    qmsgs.append(e[2]); out.append([10, len(qmsgs) - 1] if returned else [2])
                elif k == 'start': out.append([3])
                elif k == 'waitres': out.append([4, 1 if e[3] else 0])
                elif k == 'isset': out.append([5, 1 if e[3] else 0])
                elif k == 'ldiscard':
                    if e[2]: out.append([6])
                elif k == 'caps.get':
                    if e[3] == '_post_connect' and not m_caps_read:
                        m_caps_read = True; out.append([7])
                elif k == 'caps.set' or k == 'sid.set': out.append([99, 'M ' + k])
                elif k == 'base.set': out.append([8, 1 if e[2] == 2 else 0])
                elif k == 'ret':
                    returned = True; out.append([9])
            elif th == 'W':
                if k == 'q.get':
                    idx = qmsgs.index(e[2]) if e[2] in qmsgs else 98
                    out.append([11, idx]); w_send = 'got'
                elif k == 'pend.get':
                    out.append([12, 1 if e[2] else 0])
                elif k == 'pend.set':
                    out.append([13] if e[2] is False else [99, 'W pend.set %r' % (e[2],)])
                elif k == 'base.get':
                    if e[3] == 'run': out.append([14, 1 if e[2] == 2 else 0])
                elif k == 'base.set': out.append([99, 'W base.set'])
                elif k == 'write':
                    frame = (frame or b'') + e[2]
                    if frame.endswith(EOM) or frame.endswith(b'\n##\n'):
                        out.append([15]); frame = None
                elif k == 'wfail':
                    out.append([16]); frame = None; raised = True
                elif k == 'dispatch':
                    last_w = ('dispatch', e[2])
                elif k == 'errbcast':
                    if not raised:            # the exception came out of parser.parse (e.g. a frame in the other framing)
                        out.append([22, 1 if type(e[2]).__name__ == 'SessionCloseError' else 4])
                    last_w = ('errbcast', e[2])
                elif k == 'snap':
                    if last_w and last_w[0] == 'dispatch':
                        hin = dict(self.msgs).get(last_w[1])
                        out.append(hin if hin is not None else [99, 'snapshot for an unexpected message %r' % last_w[1][:40]])
                    elif last_w and last_w[0] == 'errbcast':
                        out.append([23])
                    last_w = None
                elif k == 'sid.set': out.append([18])
                elif k == 'caps.set': out.append([19])
                elif k == 'errcb': out.append([20])
                elif k == 'evset': out.append([21])
                elif k == 'read' and e[2] == 'eof': out.append([22, 1]); raised = True
                elif k == 'read' and e[2] == 'err': out.append([22, 4]); raised = True
                elif k == 'close': out.append([24])
                elif k == 'exit': out.append([25])
        return out
