"""C07, HISTORIES of calls on ONE Manager/session, and one-shot iterables as arguments.

The property sentence speaks of "every operation call ... for that operation and those arguments": the request is a function of
the operation, the arguments and what the server advertised in its <hello> - not of the calls made before on the same session.
The builders read session state (the parsed server capabilities and their parameters, e.g. `basic-mode` / `also-supported` of
`:with-defaults`, `scheme` of `:url`); they must not consume or alter it.

A history = {'profile', 'server_wd' (the with-defaults capability URI tail the server advertises, or None), 'steps': [step...]};
a step is a C07 case ({'op','args'}) or a vendor case ({'vop','args'}), optionally {'iter': {'key', 'as'}}: the list argument
`key` is handed over as a one-shot iterable (generator / iterator) or a tuple.

Oracles (none of them looks at the implementation):
 * caps_frame   - `m.server_capabilities` (URIs, and for each the namespace URI and the parameters), read before the first call and
                  after every call, is what an independent split of the advertised URI strings gives (sig session_capabilities_altered);
 * absolute     - every step satisfies the single-call oracle of props.c07 / harness.vendorops, with the advertised with-defaults
                  set (basic-mode + also-supported of THIS server, split here) in the place of the four modes of the standard server;
 * independence - outcome (exception class, request tree with the message-id blanked) of step i == outcome of the same call issued
                  FIRST on a fresh manager with the same profile and server capabilities (sig call_depends_on_history);
 * one-shot     - a call given a generator / iterator / tuple sends what the call given the list sends (sig one_shot_iterable).
"""
import json, re

A = 'urn:ietf:params:netconf:capability:'
WD_MODES = ['explicit', 'report-all', 'report-all-tagged', 'trim']
ITER_KEYS = {('nexus', 'exec_command'): 'cmds', ('alu', 'get_configuration'): 'filter'}      # arguments the classes iterate over (duck-typed lists)
ITER_KINDS = ['gen', 'iter', 'tuple', 'map']

def c07():
    import importlib
    return importlib.import_module('props.c07')

def vops():
    from harness import vendorops
    return vendorops

# ---------------- what the server advertises ----------------
def gen_wd_uri(rng):
    """tail of a with-defaults capability URI: basic-mode, optional also-supported (any subset, any order), parameters in any order"""
    r = rng.random()
    if r < 0.05: return None                                   # server without :with-defaults
    basic = rng.choice(WD_MODES)
    rest = [m for m in WD_MODES if m != basic]
    rng.shuffle(rest)
    also = rest[:rng.choice([0, 1, 1, 2, 2, 3, 3, 3])]
    params = ['basic-mode=' + basic] + (['also-supported=' + ','.join(also)] if also else [])
    if rng.random() < 0.3: params.reverse()
    return 'with-defaults:1.0?' + '&'.join(params)

def server_caps(h):
    G = c07()
    caps = [u for u in G.FULL_CAPS if 'with-defaults' not in u]
    if h.get('server_wd') is not None: caps.append(A + h['server_wd'])
    return caps

def split_uri(uri):
    """independent reading of a capability URI: (namespace URI, {parameter: value})"""
    ns, _, q = uri.partition('?')
    params = {}
    if q:
        for p in q.split('&'):
            kv = p.split('=')
            if len(kv) == 2: params[kv[0]] = kv[1]
    return ns, params

def advertised_modes(h):
    """RFC 6243 section 4.3: the basic mode and the also-supported modes of THIS server (None: no :with-defaults)"""
    if h.get('server_wd') is None: return None
    _, p = split_uri(A + h['server_wd'])
    if 'basic-mode' not in p: return []
    return [p['basic-mode']] + (p['also-supported'].split(',') if 'also-supported' in p else [])

def expected_snapshot(h):
    return sorted([u] + [split_uri(u)[0]] + [sorted(split_uri(u)[1].items())] for u in server_caps(h))

def snapshot(m):
    """what the session says the server can do: [[uri, namespace uri, sorted parameters]] through the public interface"""
    caps = m.server_capabilities
    out = []
    for u in list(caps):
        c = caps[u]
        out.append([u, c.namespace_uri, sorted([k, v] for k, v in c.parameters.items())])
    return sorted(out)

def norm_snap(s): return json.loads(json.dumps(s))

# ---------------- generators ----------------
def gen_wd_value(rng, h):
    adv = advertised_modes(h) or []
    r = rng.random()
    if adv and r < 0.30: v = adv[0]                                           # the basic mode
    elif len(adv) > 1 and r < 0.80: v = rng.choice(adv[1:])                    # an also-supported mode
    elif r < 0.92: v = rng.choice(WD_MODES)                                   # a mode of RFC 6243, advertised or not
    else: v = rng.choice(['bogus', '', 'trim,explicit', 'report'])
    if rng.random() < 0.12: v = rng.choice([' %s ', '%s\n', '\t%s']) % rng.choice([v, v.upper(), v.title()])
    return v

def std_ok(profile, op):
    return not ((profile == 'junos' and op in ('rpc', 'commit')) or (profile == 'sros' and op == 'commit') or op == 'close_session')

def gen_step(rng, h, theme):
    G, V = c07(), vops()
    profile = h['profile']
    r = rng.random()
    if theme == 'wd': kind = 'wd' if r < 0.8 else rng.choice(['filter', 'edit', 'any', 'vendor'])
    else: kind = rng.choice(['wd', 'wd', 'filter', 'edit', 'edit', 'any', 'any', 'vendor', 'vendor', 'vendor'])
    mine = [vop for (p, vop) in V.VOPS if p == profile]
    if kind == 'vendor' and not mine: kind = 'any'
    if kind == 'wd':
        op = rng.choice(['get', 'get_config'])
        a = dict(filter=G.gen_filter(rng, allow_bad=False) if rng.random() < 0.4 else None, with_defaults=gen_wd_value(rng, h))
        if op == 'get_config': a['source'] = rng.choice(['running', 'candidate', 'startup'])
        return {'op': op, 'args': a}
    if kind == 'filter':
        op = rng.choice(['get', 'get_config', 'dispatch', 'create_subscription'])
        c = G.gen_case(rng, op)
        if op in ('get', 'get_config') and c['args'].get('with_defaults') is not None: c['args']['with_defaults'] = gen_wd_value(rng, h)
        return c
    if kind == 'edit': return G.gen_case(rng, rng.choice(['edit_config', 'edit_config', 'copy_config', 'validate', 'commit' if std_ok(profile, 'commit') else 'edit_config']))
    if kind == 'vendor':
        vop = rng.choice(mine)
        c = V.gen_vcase(rng, profile, vop)
        key = ITER_KEYS.get((profile, vop))
        if key and isinstance(c['args'].get(key), list) and rng.random() < 0.6: c['iter'] = {'key': key, 'as': rng.choice(ITER_KINDS)}
        return c
    while True:
        op = rng.choice(G.OPS)
        if std_ok(profile, op): break
    c = G.gen_case(rng, op)
    if op in ('get', 'get_config') and c['args'].get('with_defaults') is not None: c['args']['with_defaults'] = gen_wd_value(rng, h)
    return c

def gen_history(rng, profile):
    h = {'profile': profile, 'server_wd': gen_wd_uri(rng), 'steps': []}
    theme = rng.choice(['wd', 'wd', 'mixed', 'mixed', 'mixed'])
    for i in range(rng.randint(3, 6)):
        if h['steps'] and rng.random() < 0.25: h['steps'].append(json.loads(json.dumps(rng.choice(h['steps']))))       # the same call again
        else: h['steps'].append(gen_step(rng, h, theme))
    return h

def gen_histories(rng, tier):
    from harness import capture
    per = 30 if tier == 'quick' else 240
    return [gen_history(rng, p) for p in capture.PROFILES for _ in range(per)]

def fixed_histories():
    """every also-supported mode after every other mode, on the profiles whose envelopes differ"""
    out = []
    for profile in ('default', 'nexus', 'junos'):
        for wd in ('with-defaults:1.0?basic-mode=explicit&also-supported=report-all,report-all-tagged,trim',
                   'with-defaults:1.0?also-supported=trim&basic-mode=report-all', 'with-defaults:1.0?basic-mode=trim'):
            adv = advertised_modes({'server_wd': wd})
            steps = []
            for k, mode in enumerate(adv + adv[::-1] + ['report-all-tagged']):
                if k % 2: steps.append({'op': 'get_config', 'args': {'source': 'running', 'filter': None, 'with_defaults': mode}})
                else: steps.append({'op': 'get', 'args': {'filter': None, 'with_defaults': mode}})
            out.append({'profile': profile, 'server_wd': wd, 'steps': steps[:6]})
    return out

# ---------------- running ----------------
def one_shot(v, how):
    if how == 'gen': return (x for x in v)
    if how == 'iter': return iter(v)
    if how == 'map': return map(lambda x: x, v)
    return tuple(v)

def to_python(profile, step, plain=False):
    G, V = c07(), vops()
    if 'vop' in step:
        method, kw = V.to_python(dict(step, profile=profile))
        it = step.get('iter')
        if it and not plain and isinstance(kw.get(it['key']), list): kw[it['key']] = one_shot(kw[it['key']], it['as'])
        return method, kw
    return G.to_python(step)

def canon(r):
    """outcome of a call without what legitimately differs between two executions (the message-id)"""
    from harness import capture
    G = c07()
    sent = []
    for x in r['sent']:
        try: sent.append(G.blank_mid(capture.read_independent(x)))
        except Exception: sent.append(re.sub(r'message-id="[^"]*"', 'message-id=""', x))
    return {'exc': r['exc'], 'sent': sent}

def fresh_call(h, step, plain=True):
    from harness import capture
    m, s = capture.make_manager(h['profile'], server_caps(h))
    method, kw = to_python(h['profile'], step, plain=plain)
    return capture.call(m, s, method, kwargs=kw)

def absolute(h, step, r):
    """single-call oracle of the property on one step; the advertised with-defaults set is this server's"""
    G, V = c07(), vops()
    profile = h['profile']
    if 'vop' in step: return V.oracle(dict(step, profile=profile), r)
    case = dict(step, profile=profile)
    a = step['args']
    wd = a.get('with_defaults') if step['op'] in ('get', 'get_config') else None
    if isinstance(wd, str) and G.expected_rejection(dict(case, args=dict(a, with_defaults=None))) is None:
        adv = advertised_modes(h)
        if adv is None or wd.strip().lower() not in adv:
            if r['sent']: return ('with_defaults=%r is outside what the server advertises (%s): %d message(s) sent' % (wd, h.get('server_wd'), len(r['sent'])), 'invalid_argument_sent')
            if r['exc'] is None: return ('with_defaults=%r is outside what the server advertises: no exception' % wd, 'invalid_argument_sent')
            return None
    return G.oracle(case, r, profile in G.DEFAULT_NS_PROFILES, profile == 'iosxe')

def judge_history(h, upto=None):
    """[(index, what, sig, expected, actual)] of the first failing step (possibly several verdicts for it), [] if none; also the records"""
    from harness import capture
    m, s = capture.make_manager(h['profile'], server_caps(h))
    want = norm_snap(expected_snapshot(h))
    recs, out = [], []
    s0 = norm_snap(snapshot(m))
    if s0 != want:
        return [(-1, 'the parsed server capabilities are not the advertised ones before any call', 'session_capabilities_altered', want, s0)], recs
    steps = h['steps'] if upto is None else h['steps'][:upto + 1]
    for i, step in enumerate(steps):
        method, kw = to_python(h['profile'], step)
        r = capture.call(m, s, method, kwargs=kw)
        after = norm_snap(snapshot(m))
        ref = fresh_call(h, step)
        recs.append((r, ref))
        if after != want:
            wd_, ad_ = {x[0]: x[1:] for x in want}, {x[0]: x[1:] for x in after}
            diff = ['%s: %s -> %s' % (u, json.dumps(wd_.get(u, 'absent')), json.dumps(ad_.get(u, 'absent'))) for u in sorted(set(wd_) | set(ad_)) if wd_.get(u) != ad_.get(u)]
            out.append((i, 'call #%d (%s) altered the session\'s parsed server capabilities: %s' % (i + 1, method, '; '.join(diff)[:500]),
                        'session_capabilities_altered', want, after))
        if canon(r) != canon(ref):
            sig = 'call_depends_on_history'
            if step.get('iter') and (i == 0 or canon(fresh_call(h, step, plain=False)) != canon(ref)): sig = 'one_shot_iterable'       # the iterable alone explains it
            out.append((i, 'call #%d (%s) on a session that already made %d call(s): outcome differs from the same call issued first on a fresh session of the same server'
                        % (i + 1, method, i), sig, canon(ref), canon(r)))
        j = absolute(h, step, r)
        if j: out.append((i, 'call #%d (%s) of a history: %s' % (i + 1, method, j[0]), j[1], 'schema instance carrying the caller data / local rejection',
                          {'exc': r['exc'], 'sent': [x[:400] for x in r['sent']]}))
        if any(o[2] in ('session_capabilities_altered', 'call_depends_on_history', 'one_shot_iterable') for o in out): break
    return out, recs

def fails(h, sigs):
    try: out, _ = judge_history(h)
    except Exception: return False
    return any(o[2] in sigs for o in out)

def shrink(h, out):
    """smallest history with the same verdict: drop steps before the failing one while it still fails"""
    i = out[0][0]
    if i < 0: return dict(h, steps=[])
    sigs = {o[2] for o in out}
    cur = dict(h, steps=h['steps'][:i + 1])
    k = 0
    while k < len(cur['steps']) - 1:
        cand = dict(cur, steps=cur['steps'][:k] + cur['steps'][k + 1:])
        if fails(cand, sigs): cur = cand
        else: k += 1
    return cur

def key_of(h): return json.dumps(h, sort_keys=True, default=repr)

# ---------------- model: CallHistory.history (runner fn 13, calls in the encoding of Glue/C09_glue.v) ----------------
def gating_call(h, step):
    """Gating.call of a retrieval whose only capability-dependent argument is with_defaults; None if outside that class"""
    G = c07()
    if step.get('op') not in ('get', 'get_config'): return None
    a = step['args']
    wd = a.get('with_defaults')
    if wd is not None and not isinstance(wd, str): return None
    if a.get('filter') is not None and a['filter'].get('kind') not in ('subtree', 'xpath', 'list'): return None
    if G.expected_rejection(dict(step, profile=h['profile'], args=dict(a, with_defaults=None))) is not None: return None
    w = [] if wd is None else [wd.strip().lower().encode('utf-8')]          # CPython's own normalisation: an input of the model
    if step['op'] == 'get': return [0, [], w]
    if not isinstance(a['source'], str) or '://' in a['source']: return None
    return [1, [0, a['source'].encode('utf-8'), 1], [], w]

def model_outcomes(ctx, h):
    """{step index: 'sent' | exception name} of the model for the steps of the modelled class"""
    if not ctx.model: return {}
    idx, calls = [], []
    for i, step in enumerate(h['steps']):
        c = gating_call(h, step)
        if c is not None: idx.append(i); calls.append(c)
    if not calls: return {}
    out = ctx.model.call([13, [0, [u.encode('utf-8') for u in server_caps(h)]], calls])
    if not isinstance(out, list) or len(out) != len(calls): return {i: 'model runner rejected the encoding: %r' % (out,) for i in idx}
    G = c07()
    return {i: ('sent' if o[0] == 0 else G.EXC_REV.get(o[1], o[1])) for i, o in zip(idx, out)}

def run_histories(ctx, hs):
    from vlib import findings
    G = c07()
    for h in hs:
        out, recs = judge_history(h)
        hk = json.loads(key_of(h))
        ctx.count({'history': hk}, nontrivial=True, key='hist:' + key_of(h))
        ctx.traces += 1
        ctx.hist('history_len', len(h['steps'])); ctx.hist('history_server_wd', 'none' if h['server_wd'] is None else ('also-supported' if 'also' in h['server_wd'] else 'basic only'))
        adv = advertised_modes(h) or []
        mo = model_outcomes(ctx, h)
        for i, (step, (r, ref)) in enumerate(zip(h['steps'], recs)):
            if i in mo:
                io = 'sent' if (r['exc'] is None and len(r['sent']) == 1) else (r['exc'] if not r['sent'] else 'raised %s after sending' % r['exc'])
                ctx.hist('history_model', mo[i])
                if io != mo[i]:
                    ctx.disagree({'history': json.loads(key_of(dict(h, steps=h['steps'][:i + 1])))}, mo[i], io,
                                 'CallHistory.history vs call #%d of a history on one Manager' % (i + 1), theorem='C07_history_independent')
            ctx.hist('history_step', step.get('op') or ('vendor:' + step['vop']))
            ctx.hist('history_step_outcome', ('#1 ' if i == 0 else '#n ') + (r['exc'] or 'sent'))
            wd = step['args'].get('with_defaults') if 'op' in step else None
            if isinstance(wd, str) and i > 0:
                n = wd.strip().lower()
                ctx.hist('history_wd_after_calls', 'basic-mode' if adv[:1] == [n] else 'also-supported' if n in adv else 'not advertised')
            if step.get('iter'): ctx.hist('one_shot_iterable', '%s %s' % (step['vop'], step['iter']['as']))
        seen = set()
        for o in out:
            if o[2] in seen: continue
            seen.add(o[2])
            small = hk
            if not findings.covered(G.ID, o[2]):
                try: small = json.loads(key_of(shrink(h, [o])))
                except Exception: pass
            ctx.fail({'history': small}, o[1], sig=o[2], expected=o[3], actual=o[4])

# ---------------- one-shot iterables on their own ----------------
def gen_iter_cases(rng, tier):
    V = vops()
    out = []
    n = 12 if tier == 'quick' else 100
    for (profile, vop), key in sorted(ITER_KEYS.items()):
        k = 0
        while k < n:
            c = V.gen_vcase(rng, profile, vop)
            if not isinstance(c['args'].get(key), list): continue
            if profile == 'alu': c['args']['content'] = 'cli'
            for how in ITER_KINDS:
                out.append({'profile': profile, 'server_wd': 'with-defaults:1.0?basic-mode=explicit', 'steps': [dict(c, iter={'key': key, 'as': how})]})
            k += 1
    return out

def run(ctx):
    hs = fixed_histories() + gen_histories(ctx.rng, ctx.tier) + gen_iter_cases(ctx.rng, ctx.tier)
    run_histories(ctx, hs)

def judge(case):
    h = case['history']
    out, _ = judge_history(h)
    return out

def search(ctx):
    from vlib import findings
    G = c07()
    for h in fixed_histories() + gen_histories(ctx.rng, 'quick') + gen_iter_cases(ctx.rng, 'quick'):
        try: out, _ = judge_history(h)
        except Exception: continue
        for o in out:
            if not findings.covered(G.ID, o[2]):
                return dict(case={'history': json.loads(key_of(shrink(h, [o])))}, what=o[1], sig=o[2], expected=o[3], actual=o[4])
    return None

def replay(case):
    from vlib import findings
    G = c07()
    h = case['history']
    out, recs = judge_history(h)
    print('history  : profile %s, server advertises %s' % (h['profile'], h.get('server_wd')))
    for i, (step, (r, ref)) in enumerate(zip(h['steps'], recs)):
        print('call #%d  : %s' % (i + 1, json.dumps(step, sort_keys=True)[:300]))
        print('   here  : %s' % json.dumps({'exc': r['exc'], 'sent': [x[:300] for x in r['sent']]}))
        print('   fresh : %s' % json.dumps({'exc': ref['exc'], 'sent': [x[:300] for x in ref['sent']]}))
    print('expected : every call as if it were the first on a fresh session of this server; server capabilities untouched')
    ok = True
    for o in out:
        print('verdict  :', (o[1], o[2]), '(open known finding)' if findings.covered(G.ID, o[2]) else '')
        if not findings.covered(G.ID, o[2]): ok = False
    return ok
