"""C07, HISTORIES of calls on ONE Manager/session, and one-shot iterables as arguments.

The property sentence speaks of "every operation call ... for that operation and those arguments": the request is a function of
the operation, the arguments and what the server advertised in its <hello> - not of the calls made before on the same session.
The builders read session state (the parsed server capabilities and their parameters, e.g. `basic-mode` / `also-supported` of
`:with-defaults`, `scheme` of `:url`); they must not consume or alter it.

A history = {'profile', 'server_wd' (the with-defaults capability URI tail the server advertises, or None), 'steps': [step...]};
a step is a C07 case ({'op','args'}) or a vendor case ({'vop','args'}), optionally {'iter': {'key', 'as'}}: the list argument
`key` is handed over as a one-shot iterable (generator / iterator) or a tuple.
A step may also be a GENERIC call {'gen': method name, 'pos': [positional arguments]}: a Manager method name that is no standard and no
vendor operation (`m.request_system_snapshot('slice')`), which the library turns into an <rpc> whose operation element is the name
with '_' -> '-' and whose parameter elements are the positional arguments. Any step may carry 'kept': true: the call goes through the
BOUND CALLABLE of that method name looked up ONCE on this manager (`f = m.request_system_snapshot`, at the first kept step of that
name) and kept - `f('slice'); f('media', 'partition'); f()` - where a step without it does a new attribute lookup.

Oracles (none of them looks at the implementation):
 * caps_frame   - `m.server_capabilities` (URIs, and for each the namespace URI and the parameters), read before the first call and
                  after every call, is what an independent split of the advertised URI strings gives (sig session_capabilities_altered);
 * absolute     - every step satisfies the single-call oracle of props.c07 / harness.vendorops, with the advertised with-defaults
                  set (basic-mode + also-supported of THIS server, split here) in the place of the four modes of the standard server;
 * independence - outcome (exception class, request tree with the message-id blanked) of step i == outcome of the same call issued
                  FIRST on a fresh manager with the same profile and server capabilities (sig call_depends_on_history);
 * generic      - a generic call sends one <rpc> (base namespace, message-id) with ONE operation element named as the method with
                  '_' -> '-', no attributes, whose children are exactly THIS call's positional arguments, in order, each an empty
                  element in the operation's namespace; a name / argument that is no XML NCName is refused with nothing sent
                  (sig generic_call_not_faithful); kept or not, the independence oracle applies as well: a kept callable sends what
                  a new lookup on a fresh manager sends;
 * one-shot     - a call given a generator / iterator / tuple sends what the call given the list sends (sig one_shot_iterable).
"""
import json, re

A = 'urn:ietf:params:netconf:capability:'
WD_MODES = ['explicit', 'report-all', 'report-all-tagged', 'trim']
ITER_KEYS = {('nexus', 'exec_command'): 'cmds', ('alu', 'get_configuration'): 'filter'}      # arguments the classes iterate over (duck-typed lists)
ITER_KINDS = ['gen', 'iter', 'tuple', 'map']

def c07():
    import importlib
    return importlib.import_module('props.c07')

def vops():
    from harness import vendorops
    return vendorops

# ---------------- what the server advertises ----------------
def gen_wd_uri(rng):
    """tail of a with-defaults capability URI: basic-mode, optional also-supported (any subset, any order), parameters in any order"""
    r = rng.random()
    if r < 0.05: return None                                   # server without :with-defaults
    basic = rng.choice(WD_MODES)
    rest = [m for m in WD_MODES if m != basic]
    rng.shuffle(rest)
    also = rest[:rng.choice([0, 1, 1, 2, 2, 3, 3, 3])]
    params = ['basic-mode=' + basic] + (['also-supported=' + ','.join(also)] if also else [])
    if rng.random() < 0.3: params.reverse()
    return 'with-defaults:1.0?' + '&'.join(params)

def server_caps(h):
    G = c07()
    caps = [u for u in G.FULL_CAPS if 'with-defaults' not in u]
    if h.get('server_wd') is not None: caps.append(A + h['server_wd'])
    return caps

def split_uri(uri):
    """independent reading of a capability URI: (namespace URI, {parameter: value})"""
    ns, _, q = uri.partition('?')
    params = {}
    if q:
        for p in q.split('&'):
            kv = p.split('=')
            if len(kv) == 2: params[kv[0]] = kv[1]
    return ns, params

def advertised_modes(h):
    """RFC 6243 section 4.3: the basic mode and the also-supported modes of THIS server (None: no :with-defaults)"""
    if h.get('server_wd') is None: return None
    _, p = split_uri(A + h['server_wd'])
    if 'basic-mode' not in p: return []
    return [p['basic-mode']] + (p['also-supported'].split(',') if 'also-supported' in p else [])

def expected_snapshot(h):
    return sorted([u] + [split_uri(u)[0]] + [sorted(split_uri(u)[1].items())] for u in server_caps(h))

def snapshot(m):
    """what the session says the server can do: [[uri, namespace uri, sorted parameters]] through the public interface"""
    caps = m.server_capabilities
    out = []
    for u in list(caps):
        c = caps[u]
        out.append([u, c.namespace_uri, sorted([k, v] for k, v in c.parameters.items())])
    return sorted(out)

def norm_snap(s): return json.loads(json.dumps(s))

# ---------------- generators ----------------
def gen_wd_value(rng, h):
    adv = advertised_modes(h) or []
    r = rng.random()
    if adv and r < 0.30: v = adv[0]                                           # the basic mode
    elif len(adv) > 1 and r < 0.80: v = rng.choice(adv[1:])                    # an also-supported mode
    elif r < 0.92: v = rng.choice(WD_MODES)                                   # a mode of RFC 6243, advertised or not
    else: v = rng.choice(['bogus', '', 'trim,explicit', 'report'])
    if rng.random() < 0.12: v = rng.choice([' %s ', '%s\n', '\t%s']) % rng.choice([v, v.upper(), v.title()])
    return v

def std_ok(profile, op):
    return not ((profile == 'junos' and op in ('rpc', 'commit')) or (profile == 'sros' and op == 'commit') or op == 'close_session')

GEN_NAMES = ['request_system_snapshot', 'get_chassis_inventory', 'get_software_information', 'show_version', 'clear_arp_table', 'ping', 'x',
             'get_\u00e9tat', 'a__b', 'request_shell_execute_9']
GEN_ARGS = ['slice', 'media', 'partition', 'detail', 'brief', 'terse', 'extensive', 'no-forwarding', 'x.y', '_u', '\u00e9', 'A' * 40]
GEN_BAD_ARGS = ['a b', '', '1x', '<x/>', 'a:b', '-a', 'a\n', 'x>', '&amp;']
KEPT_STD = ['get_config', 'get', 'lock', 'unlock', 'edit_config', 'validate', 'delete_config', 'discard_changes']

def generic_ok(profile, name):
    """the name is no standard operation and no operation the profile ships (tables of this harness, not of the library)"""
    G, V = c07(), vops()
    return name not in G.OPS and (profile, name) not in V.VOPS and name not in ('rpc', 'commit', 'command', 'reboot', 'halt', 'rollback', 'save', 'load', 'action', 'cli')

def gen_generic(rng, profile, name=None):
    if name is None:
        while True:
            name = rng.choice(GEN_NAMES)
            if generic_ok(profile, name): break
    n = rng.choice([0, 1, 1, 2, 2, 3])
    pos = [rng.choice(GEN_ARGS) for _ in range(n)]                  # repeated arguments are legal (<a/><a/>)
    if pos and rng.random() < 0.08: pos[rng.randrange(len(pos))] = rng.choice(GEN_BAD_ARGS)
    return {'gen': name, 'pos': pos}

def method_of(profile, step):
    if 'gen' in step: return step['gen']
    if 'vop' in step: return to_python(profile, step, plain=True)[0]
    return step['op']

def gen_kept_history(rng, h):
    """one or two method names whose bound callable is kept and called several times, mixed with new lookups of the same names"""
    G = c07()
    profile = h['profile']
    names = []
    for _ in range(rng.choice([1, 1, 2])):
        if rng.random() < 0.65:
            names.append(('gen', gen_generic(rng, profile)['gen']))
        else:
            while True:
                op = rng.choice(KEPT_STD)
                if std_ok(profile, op): break
            names.append(('op', op))
    for i in range(rng.randint(3, 6)):
        kind, name = rng.choice(names)
        if kind == 'gen': st = gen_generic(rng, profile, name)
        else:
            st = G.gen_case(rng, name)
            if name in ('get', 'get_config') and st['args'].get('with_defaults') is not None: st['args']['with_defaults'] = gen_wd_value(rng, h)
        if rng.random() < 0.8: st['kept'] = True
        h['steps'].append(st)
    return h

def gen_step(rng, h, theme):
    G, V = c07(), vops()
    profile = h['profile']
    if rng.random() < 0.12: return gen_generic(rng, profile)
    r = rng.random()
    if theme == 'wd': kind = 'wd' if r < 0.8 else rng.choice(['filter', 'edit', 'any', 'vendor'])
    else: kind = rng.choice(['wd', 'wd', 'filter', 'edit', 'edit', 'any', 'any', 'vendor', 'vendor', 'vendor'])
    mine = [vop for (p, vop) in V.VOPS if p == profile]
    if kind == 'vendor' and not mine: kind = 'any'
    if kind == 'wd':
        op = rng.choice(['get', 'get_config'])
        a = dict(filter=G.gen_filter(rng, allow_bad=False) if rng.random() < 0.4 else None, with_defaults=gen_wd_value(rng, h))
        if op == 'get_config': a['source'] = rng.choice(['running', 'candidate', 'startup'])
        return {'op': op, 'args': a}
    if kind == 'filter':
        op = rng.choice(['get', 'get_config', 'dispatch', 'create_subscription'])
        c = G.gen_case(rng, op)
        if op in ('get', 'get_config') and c['args'].get('with_defaults') is not None: c['args']['with_defaults'] = gen_wd_value(rng, h)
        return c
    if kind == 'edit': return G.gen_case(rng, rng.choice(['edit_config', 'edit_config', 'copy_config', 'validate', 'commit' if std_ok(profile, 'commit') else 'edit_config']))
    if kind == 'vendor':
        vop = rng.choice(mine)
        c = V.gen_vcase(rng, profile, vop)
        key = ITER_KEYS.get((profile, vop))
        if key and isinstance(c['args'].get(key), list) and rng.random() < 0.6: c['iter'] = {'key': key, 'as': rng.choice(ITER_KINDS)}
        return c
    while True:
        op = rng.choice(G.OPS)
        if std_ok(profile, op): break
    c = G.gen_case(rng, op)
    if op in ('get', 'get_config') and c['args'].get('with_defaults') is not None: c['args']['with_defaults'] = gen_wd_value(rng, h)
    return c

def gen_history(rng, profile):
    h = {'profile': profile, 'server_wd': gen_wd_uri(rng), 'steps': []}
    theme = rng.choice(['wd', 'wd', 'mixed', 'mixed', 'mixed', 'kept', 'kept'])
    if theme == 'kept': return gen_kept_history(rng, h)
    for i in range(rng.randint(3, 6)):
        if h['steps'] and rng.random() < 0.25: h['steps'].append(json.loads(json.dumps(rng.choice(h['steps']))))       # the same call again
        else: h['steps'].append(gen_step(rng, h, theme))
    seen = set()
    for st in h['steps']:                                         # a method called more than once: sometimes through ONE kept callable
        mth = method_of(profile, st)
        if mth in seen and rng.random() < 0.5:
            for x in h['steps']:
                if method_of(profile, x) == mth: x['kept'] = True
        seen.add(mth)
    return h

def gen_histories(rng, tier):
    from harness import capture
    per = 30 if tier == 'quick' else 240
    return [gen_history(rng, p) for p in capture.PROFILES for _ in range(per)]

def fixed_histories():
    """every also-supported mode after every other mode, on the profiles whose envelopes differ"""
    out = []
    for profile in ('default', 'nexus', 'junos'):
        for wd in ('with-defaults:1.0?basic-mode=explicit&also-supported=report-all,report-all-tagged,trim',
                   'with-defaults:1.0?also-supported=trim&basic-mode=report-all', 'with-defaults:1.0?basic-mode=trim'):
            adv = advertised_modes({'server_wd': wd})
            steps = []
            for k, mode in enumerate(adv + adv[::-1] + ['report-all-tagged']):
                if k % 2: steps.append({'op': 'get_config', 'args': {'source': 'running', 'filter': None, 'with_defaults': mode}})
                else: steps.append({'op': 'get', 'args': {'filter': None, 'with_defaults': mode}})
            out.append({'profile': profile, 'server_wd': wd, 'steps': steps[:6]})
    wd = 'with-defaults:1.0?basic-mode=explicit&also-supported=report-all,trim'
    for profile in ('default', 'junos', 'nexus', 'iosxe', 'alu'):
        # f = m.request_system_snapshot; f('slice'); f('slice'); f('media', 'partition'); f(); f('a', 'b', 'c'); m.request_system_snapshot('slice')
        out.append({'profile': profile, 'server_wd': wd, 'steps': [
            {'gen': 'request_system_snapshot', 'pos': p, 'kept': k} for p, k in
            ((['slice'], True), (['slice'], True), (['media', 'partition'], True), ([], True), (['a', 'b', 'c'], True), (['slice'], False))]})
        out.append({'profile': profile, 'server_wd': wd, 'steps': [
            {'gen': 'get_chassis_inventory', 'pos': [], 'kept': True}, {'gen': 'get_chassis_inventory', 'pos': ['detail'], 'kept': True},
            {'gen': 'show_version', 'pos': ['brief'], 'kept': True}, {'gen': 'get_chassis_inventory', 'pos': [], 'kept': True},
            {'gen': 'show_version', 'pos': [], 'kept': True}]})
        # g = m.get_config, kept: every request carries its own source / filter / with-defaults only
        f1 = {'kind': 'subtree', 'as': 'str', 'xml': '<interfaces xmlns="urn:x"><interface/></interfaces>'}
        out.append({'profile': profile, 'server_wd': wd, 'steps': [
            {'op': 'get_config', 'kept': True, 'args': {'source': 'running', 'filter': f1, 'with_defaults': 'trim'}},
            {'op': 'get_config', 'kept': True, 'args': {'source': 'candidate', 'filter': None, 'with_defaults': None}},
            {'op': 'get_config', 'kept': True, 'args': {'source': 'startup', 'filter': {'kind': 'xpath', 'select': '/a/b'}, 'with_defaults': 'report-all'}},
            {'op': 'get_config', 'kept': True, 'args': {'source': 'running', 'filter': None, 'with_defaults': None}},
            {'op': 'lock', 'kept': True, 'args': {'target': 'candidate'}}, {'op': 'lock', 'kept': True, 'args': {'target': 'running'}}]})
    return out

# ---------------- running ----------------
def one_shot(v, how):
    if how == 'gen': return (x for x in v)
    if how == 'iter': return iter(v)
    if how == 'map': return map(lambda x: x, v)
    return tuple(v)

def to_python(profile, step, plain=False):
    G, V = c07(), vops()
    if 'gen' in step: return step['gen'], {}
    if 'vop' in step:
        method, kw = V.to_python(dict(step, profile=profile))
        it = step.get('iter')
        if it and not plain and isinstance(kw.get(it['key']), list): kw[it['key']] = one_shot(kw[it['key']], it['as'])
        return method, kw
    return G.to_python(step)

def canon(r):
    """outcome of a call without what legitimately differs between two executions (the message-id)"""
    from harness import capture
    G = c07()
    sent = []
    for x in r['sent']:
        try: sent.append(G.blank_mid(capture.read_independent(x)))
        except Exception: sent.append(re.sub(r'message-id="[^"]*"', 'message-id=""', x))
    return {'exc': r['exc'], 'sent': sent}

def pos_of(step): return tuple(step['pos']) if 'gen' in step else ()

def call_through(m, sess, f, args=(), kwargs=None):
    """capture.call with the callable given (a bound callable looked up earlier and kept) instead of a method name"""
    from harness import capture
    caps = sess._server_capabilities
    n0, l0, r0 = len(sess.sent), len(caps.log), sess.registered()
    exc = None; ret = None
    try: ret = f(*args, **(kwargs or {}))
    except Exception as e: exc = capture.exc_name(e)
    return dict(exc=exc, sent=sess.sent[n0:], log=caps.log[l0:], registered=sess.registered() - r0, msgid=getattr(ret, '_id', None))

def fresh_call(h, step, plain=True):
    '''the same call issued first on a fresh manager, through a NEW attribute lookup'''
    from harness import capture
    m, s = capture.make_manager(h['profile'], server_caps(h))
    method, kw = to_python(h['profile'], step, plain=plain)
    return capture.call(m, s, method, args=pos_of(step), kwargs=kw)

NCNAME = re.compile(r'[^\W\d][\w.\-]*\Z', re.UNICODE)          # no colon; letters / '_' first (the names generated here: ASCII, Latin-1 letters)

def oracle_generic(h, step, r):
    """the property sentence on a generic call: ONE well-formed <rpc> (base namespace, message-id) with a single operation element
    named after the method, whose parameter elements are exactly this call's positional arguments, in order"""
    from harness import capture
    G = c07()
    sig = 'generic_call_not_faithful'
    name = step['gen'].replace('_', '-')
    pos = list(step['pos'])
    bad = [x for x in [name] + pos if not (isinstance(x, str) and NCNAME.match(x))]
    if bad:
        if r['sent']: return ('%r is no XML name, yet %d message(s) were sent: %s' % (bad[0], len(r['sent']), r['sent'][0][-200:]), sig)
        if r['exc'] is None: return ('%r is no XML name: no exception' % (bad[0],), sig)
        return None
    if r['exc'] is not None: return ('%s(%s) raised %s' % (step['gen'], ', '.join(map(repr, pos)), r['exc']), sig)
    if len(r['sent']) != 1: return ('%d messages sent for one call' % len(r['sent']), sig)
    try: t = capture.read_independent(r['sent'][0])
    except Exception as e: return ('the request is not well-formed: %s' % e, sig)
    if (t[1], t[2]) != (G.B, 'rpc'): return ('the document element is {%s}%s, not <rpc> in the base namespace' % (t[1], t[2]), sig)
    mids = [a for a in t[3] if (a[0], a[1]) == ('', 'message-id')]
    if len(mids) != 1 or not mids[0][2]: return ('<rpc> without a message-id', sig)
    if len(t[3]) != 1: return ('<rpc> carries attributes the caller did not give: %r' % (t[3],), sig)
    if len(t[4]) != 1 or t[4][0][0] != 'E': return ('<rpc> does not have exactly one operation element and nothing else: %r' % ([c[:3] for c in t[4]],), sig)
    o = t[4][0]
    if o[2] != name: return ('the operation element is <%s>, the method name gives <%s>' % (o[2], name), sig)
    if o[1] not in ('', G.B): return ('the operation element is in namespace %r' % o[1], sig)
    if o[3]: return ('the operation element carries attributes: %r' % (o[3],), sig)
    got = [(c[1], c[2]) if c[0] == 'E' else ('#text', c[1]) for c in o[4]]
    want = [(o[1], a) for a in pos]
    if got != want: return ('the parameter elements are %s; this call\'s arguments are %s' % ([g[1] for g in got], pos), sig)
    for c in o[4]:
        if c[3] or c[4]: return ('parameter element <%s> is not empty: %r' % (c[2], c[3:]), sig)
    return None

def absolute(h, step, r):
    """single-call oracle of the property on one step; the advertised with-defaults set is this server's"""
    G, V = c07(), vops()
    profile = h['profile']
    if 'gen' in step: return oracle_generic(h, step, r)
    step = {k: v for k, v in step.items() if k != 'kept'}
    if 'vop' in step: return V.oracle(dict(step, profile=profile), r)
    case = dict(step, profile=profile)
    a = step['args']
    wd = a.get('with_defaults') if step['op'] in ('get', 'get_config') else None
    if isinstance(wd, str) and G.expected_rejection(dict(case, args=dict(a, with_defaults=None))) is None:
        adv = advertised_modes(h)
        if adv is None or wd.strip().lower() not in adv:
            if r['sent']: return ('with_defaults=%r is outside what the server advertises (%s): %d message(s) sent' % (wd, h.get('server_wd'), len(r['sent'])), 'invalid_argument_sent')
            if r['exc'] is None: return ('with_defaults=%r is outside what the server advertises: no exception' % wd, 'invalid_argument_sent')
            return None
    return G.oracle(case, r, profile in G.DEFAULT_NS_PROFILES, profile == 'iosxe')

def judge_history(h, upto=None):
    """[(index, what, sig, expected, actual)] of the first failing step (possibly several verdicts for it), [] if none; also the records"""
    from harness import capture
    m, s = capture.make_manager(h['profile'], server_caps(h))
    want = norm_snap(expected_snapshot(h))
    recs, out = [], []
    s0 = norm_snap(snapshot(m))
    if s0 != want:
        return [(-1, 'the parsed server capabilities are not the advertised ones before any call', 'session_capabilities_altered', want, s0)], recs
    steps = h['steps'] if upto is None else h['steps'][:upto + 1]
    kept = {}                                                     # method name -> the bound callable looked up at its first kept step
    for i, step in enumerate(steps):
        method, kw = to_python(h['profile'], step)
        if step.get('kept'):
            if method not in kept: kept[method] = getattr(m, method)
            r = call_through(m, s, kept[method], pos_of(step), kw)
        else: r = capture.call(m, s, method, args=pos_of(step), kwargs=kw)
        after = norm_snap(snapshot(m))
        ref = fresh_call(h, step)
        recs.append((r, ref))
        if after != want:
            wd_, ad_ = {x[0]: x[1:] for x in want}, {x[0]: x[1:] for x in after}
            diff = ['%s: %s -> %s' % (u, json.dumps(wd_.get(u, 'absent')), json.dumps(ad_.get(u, 'absent'))) for u in sorted(set(wd_) | set(ad_)) if wd_.get(u) != ad_.get(u)]
            out.append((i, 'call #%d (%s) altered the session\'s parsed server capabilities: %s' % (i + 1, method, '; '.join(diff)[:500]),
                        'session_capabilities_altered', want, after))
        if canon(r) != canon(ref):
            sig = 'call_depends_on_history'
            if step.get('iter') and (i == 0 or canon(fresh_call(h, step, plain=False)) != canon(ref)): sig = 'one_shot_iterable'       # the iterable alone explains it
            out.append((i, 'call #%d (%s%s) on a session that already made %d call(s): outcome differs from the same call issued first on a fresh session of the same server'
                        % (i + 1, method, ', through the bound callable looked up once and kept' if step.get('kept') else '', i), sig, canon(ref), canon(r)))
        j = absolute(h, step, r)
        if j: out.append((i, 'call #%d (%s) of a history: %s' % (i + 1, method, j[0]), j[1], 'schema instance carrying the caller data / local rejection',
                          {'exc': r['exc'], 'sent': [x[:400] for x in r['sent']]}))
        if any(o[2] in ('session_capabilities_altered', 'call_depends_on_history', 'one_shot_iterable') for o in out): break
    return out, recs

def fails(h, sigs):
    try: out, _ = judge_history(h)
    except Exception: return False
    return any(o[2] in sigs for o in out)

def shrink(h, out):
    """smallest history with the same verdict: drop steps before the failing one while it still fails"""
    i = out[0][0]
    if i < 0: return dict(h, steps=[])
    sigs = {o[2] for o in out}
    cur = dict(h, steps=h['steps'][:i + 1])
    k = 0
    while k < len(cur['steps']) - 1:
        cand = dict(cur, steps=cur['steps'][:k] + cur['steps'][k + 1:])
        if fails(cand, sigs): cur = cand
        else: k += 1
    return cur

def key_of(h): return json.dumps(h, sort_keys=True, default=repr)

# ---------------- model: CallHistory.history (runner fn 13, calls in the encoding of Glue/C09_glue.v) ----------------
def gating_call(h, step):
    """Gating.call of a retrieval whose only capability-dependent argument is with_defaults; None if outside that class"""
    G = c07()
    if step.get('op') not in ('get', 'get_config'): return None
    a = step['args']
    wd = a.get('with_defaults')
    if wd is not None and not isinstance(wd, str): return None
    if a.get('filter') is not None and a['filter'].get('kind') not in ('subtree', 'xpath', 'list'): return None
    if G.expected_rejection(dict(step, profile=h['profile'], args=dict(a, with_defaults=None))) is not None: return None
    w = [] if wd is None else [wd.strip().lower().encode('utf-8')]          # CPython's own normalisation: an input of the model
    if step['op'] == 'get': return [0, [], w]
    if not isinstance(a['source'], str) or '://' in a['source']: return None
    return [1, [0, a['source'].encode('utf-8'), 1], [], w]

def model_outcomes(ctx, h):
    """{step index: 'sent' | exception name} of the model for the steps of the modelled class"""
    if not ctx.model: return {}
    idx, calls = [], []
    for i, step in enumerate(h['steps']):
        c = gating_call(h, step)
        if c is not None: idx.append(i); calls.append(c)
    if not calls: return {}
    out = ctx.model.call([13, [0, [u.encode('utf-8') for u in server_caps(h)]], calls])
    if not isinstance(out, list) or len(out) != len(calls): return {i: 'model runner rejected the encoding: %r' % (out,) for i in idx}
    G = c07()
    return {i: ('sent' if o[0] == 0 else G.EXC_REV.get(o[1], o[1])) for i, o in zip(idx, out)}

def run_histories(ctx, hs):
    from vlib import findings
    G = c07()
    for h in hs:
        out, recs = judge_history(h)
        hk = json.loads(key_of(h))
        ctx.count({'history': hk}, nontrivial=True, key='hist:' + key_of(h))
        ctx.traces += 1
        ctx.hist('history_len', len(h['steps'])); ctx.hist('history_server_wd', 'none' if h['server_wd'] is None else ('also-supported' if 'also' in h['server_wd'] else 'basic only'))
        adv = advertised_modes(h) or []
        mo = model_outcomes(ctx, h)
        for i, (step, (r, ref)) in enumerate(zip(h['steps'], recs)):
            if i in mo:
                io = 'sent' if (r['exc'] is None and len(r['sent']) == 1) else (r['exc'] if not r['sent'] else 'raised %s after sending' % r['exc'])
                ctx.hist('history_model', mo[i])
                if io != mo[i]:
                    ctx.disagree({'history': json.loads(key_of(dict(h, steps=h['steps'][:i + 1])))}, mo[i], io,
                                 'CallHistory.history vs call #%d of a history on one Manager' % (i + 1), theorem='C07_history_independent')
            ctx.hist('history_step', step.get('op') or ('generic' if 'gen' in step else 'vendor:' + step['vop']))
            if 'gen' in step: ctx.hist('history_generic', '%s, %d argument(s)%s' % (h['profile'] if h['profile'] in ('default', 'junos', 'nexus') else 'other profile', len(step['pos']), ', kept callable' if step.get('kept') else ''))
            if step.get('kept'):
                nth = sum(1 for x in h['steps'][:i] if x.get('kept') and method_of(h['profile'], x) == method_of(h['profile'], step))
                ctx.hist('history_kept_callable', '%s use #%s' % ('generic' if 'gen' in step else 'vendor' if 'vop' in step else step['op'], nth + 1 if nth < 3 else '4+'))
            ctx.hist('history_step_outcome', ('#1 ' if i == 0 else '#n ') + (r['exc'] or 'sent'))
            wd = step['args'].get('with_defaults') if 'op' in step else None
            if isinstance(wd, str) and i > 0:
                n = wd.strip().lower()
                ctx.hist('history_wd_after_calls', 'basic-mode' if adv[:1] == [n] else 'also-supported' if n in adv else 'not advertised')
            if step.get('iter'): ctx.hist('one_shot_iterable', '%s %s' % (step['vop'], step['iter']['as']))
        seen = set()
        for o in out:
            if o[2] in seen: continue
            seen.add(o[2])
            small = hk
            if not findings.covered(G.ID, o[2]):
                try: small = json.loads(key_of(shrink(h, [o])))
                except Exception: pass
            ctx.fail({'history': small}, o[1], sig=o[2], expected=o[3], actual=o[4])

# ---------------- one-shot iterables on their own ----------------
def gen_iter_cases(rng, tier):
    V = vops()
    out = []
    n = 12 if tier == 'quick' else 100
    for (profile, vop), key in sorted(ITER_KEYS.items()):
        k = 0
        while k < n:
            c = V.gen_vcase(rng, profile, vop)
            if not isinstance(c['args'].get(key), list): continue
            if profile == 'alu': c['args']['content'] = 'cli'
            for how in ITER_KINDS:
                out.append({'profile': profile, 'server_wd': 'with-defaults:1.0?basic-mode=explicit', 'steps': [dict(c, iter={'key': key, 'as': how})]})
            k += 1
    return out

def run(ctx):
    hs = fixed_histories() + gen_histories(ctx.rng, ctx.tier) + gen_iter_cases(ctx.rng, ctx.tier)
    run_histories(ctx, hs)

def judge(case):
    h = case['history']
    out, _ = judge_history(h)
    return out

def search(ctx):
    from vlib import findings
    G = c07()
    for h in fixed_histories() + gen_histories(ctx.rng, 'quick') + gen_iter_cases(ctx.rng, 'quick'):
        try: out, _ = judge_history(h)
        except Exception: continue
        for o in out:
            if not findings.covered(G.ID, o[2]):
                return dict(case={'history': json.loads(key_of(shrink(h, [o])))}, what=o[1], sig=o[2], expected=o[3], actual=o[4])
    return None

def replay(case):
    from vlib import findings
    G = c07()
    h = case['history']
    out, recs = judge_history(h)
    print('history  : profile %s, server advertises %s' % (h['profile'], h.get('server_wd')))
    for i, (step, (r, ref)) in enumerate(zip(h['steps'], recs)):
        print('call #%d  : %s' % (i + 1, json.dumps(step, sort_keys=True)[:300]))
        print('   here  : %s' % json.dumps({'exc': r['exc'], 'sent': [x[:300] for x in r['sent']]}))
        print('   fresh : %s' % json.dumps({'exc': ref['exc'], 'sent': [x[:300] for x in ref['sent']]}))
    print('expected : every call as if it were the first on a fresh session of this server; server capabilities untouched')
    ok = True
    for o in out:
        print('verdict  :', (o[1], o[2]), '(open known finding)' if findings.covered(G.ID, o[2]) else '')
        if not findings.covered(G.ID, o[2]): ok = False
    return ok
