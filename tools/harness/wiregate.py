"""C09, wire-level gating oracle: which capability-dependent constructs does a request that reached the server carry, and
did the server advertise the capability each of them depends on?

Independent of the code under test and of which Python branch built the request: the message is read with expat
(xml.etree), the table construct -> capability is written from the RFCs and the property text:
  RFC 6241 8.3   <commit>, <discard-changes>                                   :candidate
  RFC 6241 8.4   <cancel-commit>; <confirmed>, <confirm-timeout>, <persist>,
                 <persist-id> parameters of <commit>                           :confirmed-commit (which requires :candidate)
  RFC 6241 8.5   <error-option>rollback-on-error                               :rollback-on-error
  RFC 6241 8.6   <validate>, <test-option>; the value test-only                :validate; :validate:1.1
  RFC 6241 8.8   <url> in <source>/<target>, and as the config of <edit-config> :url
  RFC 6243       <with-defaults>                                               :with-defaults (mode: one of the advertised ones)
  RFC 5277       <create-subscription>                                         :notification
The vendor commit (Junos <commit-configuration>, the SR OS <commit> with a Nokia <comment>) is a commit: same parameters,
same capabilities (the class docstrings say so).  <url> under <source>/<target> is looked for under ANY operation element
(alu <load-configuration>, h3c <get-bulk-config>, a generic rpc(target=, source=)).

Constructs RFC 6241 ties to a capability the property does not list, or that ncclient documents no dependency for
(datastore NAMES <candidate/> / <startup/>, <running/> as a target, an xpath filter), are returned separately as
`advisory`: counted in the evidence, never a verdict."""

BASE = 'urn:ietf:params:xml:ns:netconf:base:1.0'
WDNS = 'urn:ietf:params:xml:ns:yang:ietf-netconf-with-defaults'
NOTIF = 'urn:ietf:params:xml:ns:netconf:notification:1.0'

# codes = constructor order of Gating.wire (coq/Model/Gating.v); the needs are written here from the RFCs, not read from the model
CODE = {'commit': 0, 'confirmed': 1, 'confirm-timeout': 2, 'persist': 3, 'persist-id': 4, 'cancel-commit': 5, 'discard-changes': 6,
        'validate': 7, 'test-option': 8, 'test-only': 9, 'rollback-on-error': 10, 'url': 11, 'with-defaults': 12,
        'create-subscription': 13}
NEEDS = {'commit': [':candidate'],
         'confirmed': [':confirmed-commit'], 'confirm-timeout': [':confirmed-commit'], 'persist': [':confirmed-commit'],
         'persist-id': [':confirmed-commit'],
         'cancel-commit': [':candidate', ':confirmed-commit'], 'discard-changes': [':candidate'],
         'validate': [':validate'], 'test-option': [':validate'], 'test-only': [':validate:1.1'],
         'rollback-on-error': [':rollback-on-error'], 'url': [':url'], 'with-defaults': [':with-defaults'],
         'create-subscription': [':notification']}
COMMIT_OPS = ('commit', 'commit-configuration')
COMMIT_PARAMS = ('confirmed', 'confirm-timeout', 'persist', 'persist-id')

def _split(tag):
    if isinstance(tag, str) and tag.startswith('{'):
        ns, local = tag[1:].split('}', 1)
        return ns, local
    return '', tag

def read(msg):
    """-> (constructs, advisory, wd_text): constructs = list of construct names (with multiplicity, document order) found in
    the operation element of the <rpc>; advisory = list of (what, capability); wd_text = text of <with-defaults> or None"""
    import xml.etree.ElementTree as ET
    root = ET.fromstring(msg.encode('utf-8') if isinstance(msg, str) else msg)
    out, adv, wd = [], [], None
    ops = [root] if _split(root.tag)[1] != 'rpc' else list(root)
    for op in ops:
        ons, oname = _split(op.tag)
        if oname in COMMIT_OPS:
            out.append('commit')
            for e in op.iter():
                if e is op: continue
                ns, name = _split(e.tag)
                if name in COMMIT_PARAMS and ns in ('', BASE, ons):
                    out.append(name)
        elif oname == 'cancel-commit' and ons == BASE: out.append('cancel-commit')
        elif oname == 'discard-changes' and ons == BASE: out.append('discard-changes')
        elif oname == 'validate' and ons == BASE: out.append('validate')
        elif oname == 'create-subscription' and ons == NOTIF: out.append('create-subscription')
        for ch in op:
            ns, name = _split(ch.tag)
            if name in ('source', 'target'):
                for g in ch:
                    gns, gname = _split(g.tag)
                    if gname == 'url': out.append('url')
                    elif gname == 'candidate': adv.append(('candidate-datastore', ':candidate'))
                    elif gname == 'startup': adv.append(('startup-datastore', ':startup'))
                    elif gname == 'running' and name == 'target' and oname in ('edit-config', 'copy-config'):
                        adv.append(('running-as-target', ':writable-running'))
            elif oname == 'edit-config' and ons == BASE:
                if name == 'url': out.append('url')
                elif name == 'test-option':
                    out.append('test-option')
                    if (ch.text or '').strip() == 'test-only': out.append('test-only')
                elif name == 'error-option':
                    if (ch.text or '').strip() == 'rollback-on-error': out.append('rollback-on-error')
            if name == 'with-defaults' and ns == WDNS:
                out.append('with-defaults'); wd = ch.text or ''
            if name == 'filter' and ch.attrib.get('type') == 'xpath':
                adv.append(('xpath-filter', ':xpath'))
    return out, adv, wd

def codes(constructs):
    return sorted(CODE[c] for c in constructs)

def unbacked(constructs, uris, advertised):
    """constructs the server did not advertise the capability for: [(construct, capability)]"""
    bad = []
    for c in constructs:
        for k in NEEDS[c]:
            if not advertised(uris, k): bad.append((c, k))
    return bad
