"""C03 on API objects that are RE-USED (family `reuse`): the same `LockContext` entered several times (one after the other,
nested, from several threads), the same RPC object `request()`ed again (after its reply, while outstanding, after a timeout,
sync / async), the same operation repeated through one Manager, several Managers on one session, a Manager used for several
with-blocks.  Real `UnixSocketSession` on a socketpair, the library's own threads, a scripted in-process server that reads
every <rpc> with an independent reader (xml.etree), decides per arrival whether to answer at once, after a hold, after the
caller's timeout, with <ok/>/<data> or with an <rpc-error>, and stamps every answer with a token of its own.

Oracle (the sentences of C03 on observables; nothing of the implementation is consulted):
  * message-ids on the wire are pairwise distinct within the session;
  * a call that completes (returns, enters / leaves the with-body, raises the <rpc-error> of a reply) completes with the
    answer to ITS request: the token it holds belongs to a request with the call's own content and message-id, no token is held
    by two calls, and - in the total order of one log shared by server and callers - the k-th completion of calls with a
    given content is preceded by k answers to requests with that content (no call returns before the server answered it);
  * a request that timed out (an RPC object with a short time limit, or an operation made through a Manager whose `timeout`
    is short, the script holding the answer back for longer) and whose answer arrives afterwards - while requests of the same
    or of other threads are outstanding, sync or async, inside a lock context - disturbs nothing: the others complete with their
    own answers, the session stays connected, the probe request afterwards gets its own answer;
  * a call that raises something else left nothing on the wire (a local refusal), or is a time-out whose answer was indeed
    held back longer than the time limit; every request on the wire belongs to exactly one call;
  * the session survives: still connected, a fresh request afterwards gets its own answer (unless the history closed it).
Timing enters only as detection power (a held answer gives an early return time to show itself), never as a verdict: every
reported fact is an order of entries in the log or a content mismatch.
ncclient is imported lazily (vlib.paths.use_repo() must have run)."""
import re, socket, threading, time
import xml.etree.ElementTree as ET

BASE = 'urn:ietf:params:xml:ns:netconf:base:1.0'
XNS = 'urn:x:reuse'
DELIM = b']]>]]>'
GRACE = 0.03                 # how long a held answer is held (seconds)
LATE = 0.35                  # an answer held longer than the short time limit of direct requests
SHORT = 0.15                 # the short time limit
BOUND = 40.0                 # a client thread that has not ended by then hangs (longer than the 30 s default time limit of a
                             # LockContext's requests: a correct run never comes near it, whatever the load)
LONG = 20.0                  # time limit of every other request: never reached by a run in which the server answers
TARGETS = ('running', 'candidate', 'startup')
PROFILES = ('default', 'default', 'nexus', 'sros', 'huawei', 'iosxr')

def _local(tag):
    return tag.split('}', 1)[1] if isinstance(tag, str) and tag.startswith('{') else tag

def read_request(raw):
    """independent reader: (message-id, (operation, marker)) of an <rpc>; None for anything else"""
    try:
        root = ET.fromstring(raw)
    except ET.ParseError:
        return None
    if _local(root.tag) != 'rpc' or len(root) != 1:
        return None
    op = root[0]
    marker = None
    for el in op.iter():
        if el.get('k') is not None:
            marker = el.get('k'); break
    if marker is None:
        for c in op:
            if _local(c.tag) in ('target', 'source') and len(c):
                marker = _local(c[0].tag)
    return root.get('message-id'), (_local(op.tag), marker)

class Log:
    """one total order of what the server and the callers did"""
    def __init__(self):
        self.lock, self.items = threading.Lock(), []
    def add(self, *e):
        with self.lock:
            self.items.append(e)

class Server(threading.Thread):
    def __init__(self, sock, base11, policy, log):
        threading.Thread.__init__(self, daemon=True, name='reuse-server')
        self.sock, self.base11, self.policy, self.log = sock, base11, policy, log
        self.wire = []                     # per arrival: dict(mid, sig, hold, kind)
        self.wlock = threading.Lock()
        self.cond = threading.Condition()
    def hello(self):
        caps = ['urn:ietf:params:netconf:base:1.0'] + (['urn:ietf:params:netconf:base:1.1'] if self.base11 else []) + \
               ['urn:ietf:params:netconf:capability:candidate:1.0', 'urn:ietf:params:netconf:capability:startup:1.0']
        x = '<?xml version="1.0" encoding="UTF-8"?><hello xmlns="%s"><capabilities>%s</capabilities><session-id>7</session-id></hello>' % (
            BASE, ''.join('<capability>%s</capability>' % c for c in caps))
        self.sock.sendall(x.encode() + DELIM)
    def frame(self, x):
        return (b'\n#%d\n' % len(x) + x + b'\n##\n') if self.base11 else x + DELIM
    def messages(self):
        buf, first = b'', True
        while True:
            if first or not self.base11:
                while DELIM not in buf:
                    d = self.sock.recv(65536)
                    if not d: return
                    buf += d
                msg, _, buf = buf.partition(DELIM)
                first = False
                yield msg
            else:
                msg = b''
                while True:
                    while True:
                        m = re.match(rb'\n#(\d+|#)\n', buf)
                        if m: break
                        d = self.sock.recv(65536)
                        if not d: return
                        buf += d
                    buf = buf[m.end():]
                    if m.group(1) == b'#':
                        break
                    n = int(m.group(1))
                    while len(buf) < n:
                        d = self.sock.recv(65536)
                        if not d: return
                        buf += d
                    msg += buf[:n]; buf = buf[n:]
                yield msg
    def run(self):
        try:
            self.hello()
            for msg in self.messages():
                r = read_request(msg)
                if r is None:
                    continue                   # the client's <hello>
                mid, sig = r
                with self.cond:
                    n = len(self.wire)
                    hold, kind = self.policy[n % len(self.policy)] if sig[0] != 'close-session' and sig[1] != 'final' else (0, 'ok')
                    late = re.fullmatch(r'c\d+(L+)', sig[1] or '')
                    if late:                   # the script says of THIS request: answered later than the short time limit (L) / much later (LL)
                        hold = LATE * len(late.group(1))
                    self.wire.append(dict(mid=mid, sig=sig, hold=hold, kind=kind))
                    self.log.add('seen', n)
                    self.cond.notify_all()
                if hold:
                    threading.Thread(target=self.answer, args=(n, hold), daemon=True).start()
                else:
                    self.answer(n, 0)
        except OSError:
            pass
    def answer(self, n, hold):
        if hold:
            time.sleep(hold)
        w = self.wire[n]
        mid = '' if w['mid'] is None else ' message-id="%s"' % w['mid']
        if w['kind'] == 'err':
            body = ('<rpc-error><error-type>protocol</error-type><error-tag>lock-denied</error-tag><error-severity>error</error-severity>'
                    '<error-message>tok %d</error-message></rpc-error>' % n)
        elif w['sig'][0] in ('get', 'get-config', 'probe'):
            body = '<data><probe xmlns="%s" k="%s"/></data><!-- tok %d -->' % (XNS, w['sig'][1], n)
        else:
            body = '<ok/><!-- tok %d -->' % n
        x = ('<rpc-reply xmlns="%s"%s>%s</rpc-reply>' % (BASE, mid, body)).encode()
        with self.wlock:
            self.log.add('answer', n)
            try:
                self.sock.sendall(self.frame(x))
            except OSError:
                pass

def _unpatched():
    """the scheduler harness (lts.py) rebinds Lock/Event/Queue of the library's modules; this family runs the real ones"""
    from . import lts, sched
    import ncclient.transport.session as ses
    was = ses.Lock is sched.SLock
    lts.uninstall()
    return (lambda: lts.install()) if was else (lambda: None)

def _token(text):
    m = re.search(r'tok (\d+)', text or '')
    return int(m.group(1)) if m else None

def _mid(text):
    m = re.search(r'message-id="([^"]+)"', text or '')
    return m.group(1) if m else None

def run_case(case):
    """Executes the history; returns dict(calls, wire, log, connected, probe, hung)."""
    restore = _unpatched()
    try:
        return _run(case)
    finally:
        restore()

def _run(case):
    from ncclient import manager
    from ncclient.transport.unixSocket import UnixSocketSession
    from ncclient.operations import RPCError, RaiseMode
    from ncclient.operations.retrieve import Get
    from ncclient.operations.lock import Lock as LockOp
    from ncclient.xml_ import to_ele
    dh = manager.make_device_handler({'name': case.get('profile', 'default')})
    a, b = socket.socketpair(socket.AF_UNIX, socket.SOCK_STREAM)
    log = Log()
    policy = [(GRACE if h == 1 else LATE if h == 2 else 0, k) for h, k in case['policy']]
    srv = Server(b, bool(case.get('base11')), policy, log)
    srv.start()
    class PairSession(UnixSocketSession):
        def connect(self, sock, timeout=10):
            self._socket = sock; self._closing.clear(); self._connected = True
            self._post_connect(timeout)
    ses = PairSession(dh)
    ses.connect(a)
    mgrs = [manager.Manager(ses, dh, timeout=LONG) for _ in range(max(1, case.get('nmgr', 1)))]
    lcs, rpcs, olock = {}, {}, threading.Lock()
    smgrs = {}
    def short_mgr(i):
        """the Manager whose calls have the short time limit (the limit is an attribute of a Manager, read when it builds the
        operation object: a Manager of its own on the same session, limit set through the `timeout` property)"""
        with olock:
            if i not in smgrs:
                smgrs[i] = manager.Manager(ses, dh, timeout=LONG)
                smgrs[i].timeout = SHORT
            return smgrs[i]
    calls = []                                # dict(id, sig, how, out, tok, mid, exc)
    def new_call(sig, how, use=('op',)):
        with olock:
            c = dict(id=len(calls), sig=tuple(sig), how=how, out=None, tok=None, mid=None, exc=None, use=list(use), thread=threading.current_thread().name)
            calls.append(c)
        log.add('start', c['id'])
        return c
    def done(c, out, text=None, exc=None):
        c['out'], c['exc'] = out, exc
        if text is not None:
            c['tok'], c['mid'] = _token(text), _mid(text)
        log.add('ret', c['id'], out)
    def finish(c, fn):
        """run the call, classify how it ended"""
        try:
            r = fn()
        except RPCError as e:
            done(c, 'rpc-error', text=e.message); return None
        except Exception as e:
            done(c, 'raised', exc=type(e).__name__); return None
        return r
    def reply_text(r):
        return getattr(r, 'xml', None) or (r.tostring.decode() if hasattr(r, 'tostring') else str(r))
    def flt(k):
        return ('subtree', '<probe xmlns="%s" k="%s"/>' % (XNS, k))
    def lockctx(st):
        with olock:
            key = (st[1], st[2])
            if key not in lcs:
                lcs[key] = mgrs[st[1] % len(mgrs)].locked(TARGETS[st[2] % 3])
            return lcs[key], TARGETS[st[2] % 3]
    def collect(pending):
        for c, rpc in pending:
            if not rpc.event.wait(LONG):
                done(c, 'raised', exc='TimeoutExpiredError')
            elif rpc.error is not None:
                done(c, 'raised', exc=type(rpc.error).__name__)
            else:
                done(c, 'ok', text=reply_text(rpc.reply))
    def steps(prog, pending, tid):
        for si, st in enumerate(prog):
            k = st[0]
            if k == 'call':                       # ['call', mgr, op, async(, short, late)]: an operation through a Manager; short: the
                                                  # Manager's time limit is SHORT; late: the server answers this request after LATE x late
                short = bool(st[4]) if len(st) > 4 else False
                late = int(st[5]) if len(st) > 5 else 0
                m = short_mgr(st[1] % len(mgrs)) if short else mgrs[st[1] % len(mgrs)]
                marker = 'c%d' % len(calls) if st[2] in ('get', 'get_config', 'dispatch') else TARGETS[int(st[2].split(':')[1]) % 3]
                opname = st[2].split(':')[0]
                sig = ({'get': 'get', 'get_config': 'get-config', 'dispatch': 'probe', 'lock': 'lock', 'unlock': 'unlock'}[opname], marker)
                c = new_call(sig, 'async' if st[3] else 'sync')
                if sig[0] in ('get', 'get-config', 'probe'):
                    c['sig'] = sig = (sig[0], 'c%d%s' % (c['id'], 'L' * late))
                c['short'] = short
                def invoke():
                    if opname == 'get': return m.get(filter=flt(sig[1]))
                    if opname == 'get_config': return m.get_config(source='running', filter=flt(sig[1]))
                    if opname == 'dispatch': return m.dispatch(to_ele('<probe xmlns="%s" k="%s"/>' % (XNS, sig[1])))
                    return getattr(m, opname)(sig[1])
                if st[3]:
                    # the mode is an attribute of the (shared) Manager, read when the operation object is built: set it, make
                    # the call (it returns at once) and reset it as one step
                    with olock:
                        m.async_mode = True
                        try:
                            r = finish(c, invoke)
                        finally:
                            m.async_mode = False
                else:
                    r = finish(c, invoke)
                if r is None:
                    pass
                elif hasattr(r, 'event') and hasattr(r, 'deliver_reply'):
                    pending.append((c, r))           # an asynchronous call: its completion is collected at the end of the thread
                else:
                    done(c, 'ok', text=reply_text(r))
            elif k == 'with':                     # ['with', mgr, lc, [body]]: the lock context lc of Manager mgr, entered once more
                lc, target = lockctx(st)
                ce = new_call(('lock', target), 'enter')
                cx = None
                phase = 'enter'
                try:
                    with lc:
                        done(ce, 'ok')
                        phase = 'body'
                        steps(st[3], pending, tid)
                        phase = 'exit'
                        cx = new_call(('unlock', target), 'exit')
                    done(cx, 'ok')
                except RPCError as e:
                    if phase == 'body': raise
                    done(ce if phase == 'enter' else cx, 'rpc-error', text=e.message)
                except Exception as e:
                    if phase == 'body': raise
                    done(ce if phase == 'enter' else cx, 'raised', exc=type(e).__name__)
            elif k == 'req':                      # ['req', obj, async, short]: the RPC object obj, request()ed once more
                with olock:
                    if st[1] not in rpcs:
                        rpcs[st[1]] = Get(ses, dh, async_mode=bool(st[2]), timeout=SHORT if st[3] else LONG, raise_mode=RaiseMode.ALL)
                    rpc = rpcs[st[1]]
                c = new_call(('get', None), 'async' if st[2] else 'sync', use=('req', st[1]))
                c['sig'] = sig = ('get', 'c%d' % c['id'])
                c['short'] = bool(st[3])
                r = finish(c, lambda: rpc.request(filter=flt(sig[1])))
                if r is not None and st[2]:
                    pending.append((c, rpc))
                elif r is not None:
                    done(c, 'ok', text=reply_text(r))
            elif k == 'mwith':                    # ['mwith', mgr, [body]]: the Manager as a context manager (leaving closes the session)
                m = mgrs[st[1] % len(mgrs)]
                cx, phase = None, 'body'
                try:
                    with m:
                        steps(st[2], pending, tid)
                        collect(pending); del pending[:]
                        phase = 'exit'
                        cx = new_call(('close-session', None), 'exit', use=('mexit',))
                    done(cx, 'ok')
                except Exception as e:
                    if phase == 'body': raise
                    done(cx, 'raised', exc=type(e).__name__)
            elif k == 'sleep':
                time.sleep(LATE + 0.1)
    errors = []
    def thread(prog, tid):
        pending = []
        try:
            steps(prog, pending, tid)
        except Exception as e:
            errors.append('%s: %s' % (type(e).__name__, e))
        finally:
            collect(pending)
    ths = [threading.Thread(target=thread, args=(prog, i), daemon=True, name='reuse-client-%d' % i) for i, prog in enumerate(case['threads'])]
    for t in ths: t.start()
    t0 = time.time()
    for t in ths: t.join(max(0.1, BOUND - (time.time() - t0)))
    hung = [t.name for t in ths if t.is_alive()]
    time.sleep(0.02)
    # let held answers go out before judging the end state
    t1 = time.time()
    while time.time() - t1 < 1.5:
        with srv.cond:
            n = len(srv.wire)
        with log.lock:
            ans = sum(1 for e in log.items if e[0] == 'answer')
        if ans >= n: break
        time.sleep(0.02)
    time.sleep(0.05)
    connected = bool(ses.connected)
    probe = None
    if connected and not hung:
        c = new_call(('get', 'final'), 'sync')
        mgrs[0].async_mode = False
        mgrs[0].timeout = LONG
        r = finish(c, lambda: mgrs[0].get(filter=flt('final')))
        if r is not None:
            done(c, 'ok', text=reply_text(r))
        probe = c
    try:
        ses.close()
    except Exception:
        pass
    for s in (a, b):
        try: s.close()
        except OSError: pass
    ses.join(2)
    with log.lock:
        items = list(log.items)
    return dict(calls=calls, wire=list(srv.wire), log=items, connected=connected, probe=probe, hung=hung, errors=errors)

def closes(case):
    def has(prog):
        return any(st[0] == 'mwith' or (st[0] == 'with' and has(st[3])) for st in prog)
    return any(has(p) for p in case['threads'])

def oracle(case, res):
    """Returns (text, sig) of the first property sentence that is false of the run, or None."""
    wire, calls, log = res['wire'], res['calls'], res['log']
    if res['errors']:
        return ('rig: the body of a with-block raised %s' % res['errors'][0], 'rig')
    # 1. message-ids on the wire are unique within the session
    seen = {}
    for n, w in enumerate(wire):
        if w['mid'] in seen:
            return ('message-id %s is on the wire twice (requests %d %r and %d %r of this session)' % (w['mid'], seen[w['mid']], wire[seen[w['mid']]]['sig'], n, w['sig']), 'dup_wire_id')
        seen[w['mid']] = n
    if res['hung']:
        return ('a call has neither returned nor raised after %.0f s although the server answered every request it received' % BOUND, 'call_hangs')
    # 2. the answer a call holds is the answer to its own request, and nobody else holds it
    holder = {}
    for c in calls:
        if c['tok'] is None:
            continue
        if c['tok'] >= len(wire):
            return ('rig: call %d holds token %d which the server never issued' % (c['id'], c['tok']), 'rig')
        w = wire[c['tok']]
        if tuple(w['sig']) != tuple(c['sig']):
            return ('call %d (%s %s) completed with the answer to another request (%s %s)' % (c['id'], c['sig'][0], c['sig'][1], w['sig'][0], w['sig'][1]), 'foreign_reply')
        if c['mid'] is not None and c['mid'] != w['mid']:
            return ('call %d completed with a reply carrying message-id %s, its request carried %s' % (c['id'], c['mid'], w['mid']), 'foreign_reply')
        if c['tok'] in holder:
            return ('calls %d and %d both completed with the one answer the server gave to request %d (%s %s)' % (holder[c['tok']], c['id'], c['tok'], w['sig'][0], w['sig'][1]), 'reply_delivered_twice')
        holder[c['tok']] = c['id']
    # 3. no call completes before the server answered its request: k completions of a content need k answers before them
    answered, completed = {}, {}
    byid = {c['id']: c for c in calls}
    for e in log:
        if e[0] == 'answer':
            s = tuple(wire[e[1]]['sig']); answered[s] = answered.get(s, 0) + 1
        elif e[0] == 'ret' and e[2] in ('ok', 'rpc-error'):
            c = byid[e[1]]; s = tuple(c['sig']); completed[s] = completed.get(s, 0) + 1
            if completed[s] > answered.get(s, 0):
                what = {'enter': 'the with-body was entered', 'exit': 'the with-block was left'}.get(c['how'], 'the call completed')
                return ('%s (%s %s, use number %d of this content) before the server had answered that request: %d answer(s) so far' % (what, s[0], s[1], completed[s], answered.get(s, 0)), 'returned_before_answer')
    # 4. what else a call may do: refuse locally (nothing on the wire), or time out when the answer really was late
    for s in {tuple(c['sig']) for c in calls}:
        cs = [c for c in calls if tuple(c['sig']) == s]
        ws = [w for w in wire if tuple(w['sig']) == s]
        sent = [c for c in cs if c['out'] in ('ok', 'rpc-error') or (c['out'] == 'raised' and c['exc'] == 'TimeoutExpiredError')]
        for c in cs:
            if c['out'] is None:
                return ('rig: call %d never finished' % c['id'], 'rig')
            if c['out'] == 'raised' and c['exc'] == 'TimeoutExpiredError' and not (c.get('short') and any(w['hold'] >= LATE for w in ws)):
                return ('call %d (%s %s) timed out although the server answered its request in time' % (c['id'], s[0], s[1]), 'request_timed_out')
        if len(ws) > len(sent):
            bad = next((c for c in cs if c['out'] == 'raised' and c['exc'] != 'TimeoutExpiredError'), None)
            if bad is not None and not (closes(case) and bad['exc'] in ('TransportError', 'SessionCloseError')):
                return ('call %d (%s %s) raised %s although its request went out and the server answered it' % (bad['id'], s[0], s[1], bad['exc']), 'request_failed')
            if bad is None:
                return ('%d requests (%s %s) on the wire for %d call(s)' % (len(ws), s[0], s[1], len(sent)), 'sent_twice')
    for w in wire:
        if not any(tuple(c['sig']) == tuple(w['sig']) for c in calls):
            return ('rig: a request %r on the wire that no call made' % (w['sig'],), 'rig')
    # 5. the session survives
    if not closes(case):
        if not res['connected']:
            return ('the session was torn down although the server only answered the requests it received, each once', 'session_died')
        p = res['probe']
        on_wire = any(tuple(w['sig']) == ('get', 'final') for w in wire)
        if p is not None and p['out'] != 'ok' and on_wire:       # (a probe refused locally is the API model's business, not C03's)
            return ('a request made after the history went out and was answered, but did not get its reply (%s)' % (p['exc'] or p['out'],), 'session_died')
    return None

def judge_many(cases, jobs=8):
    """[(failure text or None, case with the '_' facts of the run)] - the cases run side by side (they mostly wait for the
    session thread's tick), which costs detection power at worst: no verdict depends on a duration"""
    from concurrent.futures import ThreadPoolExecutor
    restore = _unpatched()
    try:
        with ThreadPoolExecutor(max(1, jobs)) as ex:
            return list(ex.map(lambda c: judge(c, _run), cases))
    finally:
        restore()

def judge(case, runner=None):
    """(failure text or None, case with the '_' facts of the run) for one case"""
    case = {k: v for k, v in case.items() if k != 'check' and not k.startswith('_')}
    res = (runner or run_case)(case)
    f = oracle(case, res)
    case['_refused'] = sum(1 for c in res['calls'] if c['out'] == 'raised' and c['exc'] != 'TimeoutExpiredError')
    case['_calls'], case['_wire'] = len(res['calls']), len(res['wire'])
    case['_uses'] = [[c['use'], None if c['out'] is None else (c['out'] in ('ok', 'rpc-error') or c['exc'] == 'TimeoutExpiredError'), c['thread'], c['exc']] for c in res['calls']]
    if f is None:
        return None, case
    if f[1] == 'rig':
        return f[0] if f[0].startswith('rig:') else 'rig: ' + f[0], case
    case['_sig'] = f[1]
    return f[0], case

# ---------------- cases ----------------
def mk(threads, policy=((0, 'ok'),), profile='default', base11=False, nmgr=1):
    return dict(profile=profile, base11=base11, nmgr=nmgr, threads=threads, policy=[list(p) for p in policy])

H, N, E = [1, 'ok'], [0, 'ok'], [1, 'err']
def core_cases():
    return [
        # the same LockContext, two with-blocks one after the other (answers held / at once)
        mk([[['with', 0, 0, []], ['with', 0, 0, []]]], policy=[H]),
        mk([[['with', 0, 0, [['call', 0, 'get', 0]]], ['with', 0, 0, [['call', 0, 'get_config', 0]]], ['with', 0, 0, []]]], policy=[N, H, H]),
        # ... re-used after a denied lock; nested in itself; entered by two threads
        mk([[['with', 0, 1, []], ['with', 0, 1, []], ['with', 0, 1, []]]], policy=[E, H, H, N]),
        mk([[['with', 0, 0, [['with', 0, 0, []]]]]], policy=[H, N]),
        mk([[['with', 0, 0, [['call', 0, 'get', 0]]]] * 2, [['with', 0, 0, []]] * 2], policy=[H, N, H]),
        # two lock contexts of one Manager / of two Managers on the session, interleaved
        mk([[['with', 0, 0, [['with', 1, 1, []]]], ['with', 1, 1, [['with', 0, 0, []]]]]], policy=[H], nmgr=2, base11=True),
        # the same RPC object request()ed again: after its reply, while outstanding, after a time-out (late answer), asynchronously
        mk([[['req', 0, 0, 0], ['req', 0, 0, 0], ['call', 0, 'get', 0]]], policy=[H]),
        mk([[['req', 0, 1, 0], ['req', 0, 1, 0], ['req', 1, 1, 0]]], policy=[H, N]),
        mk([[['req', 0, 0, 1], ['req', 0, 0, 1], ['sleep'], ['call', 0, 'get', 0]]], policy=[[2, 'ok'], N]),
        mk([[['req', 0, 0, 0]], [['req', 0, 0, 0]], [['call', 0, 'dispatch', 0]]], policy=[H]),
        # the same operation repeated through one Manager: sync, pipelined, from two threads; lock / unlock by hand
        mk([[['call', 0, 'get', 0]] * 3, [['call', 0, 'get', 1]] * 3], policy=[H, N]),
        mk([[['call', 0, 'lock:0', 0], ['call', 0, 'unlock:0', 0], ['call', 0, 'lock:0', 0], ['call', 0, 'unlock:0', 0]]], policy=[H, H, N, N], base11=True),
        # a Manager used for two with-blocks
        mk([[['mwith', 0, [['call', 0, 'get', 0]]], ['mwith', 0, [['call', 0, 'get', 0]]]]], policy=[N]),
    ] + timeout_core_cases()

# requests made THROUGH A MANAGER that time out (the Manager's time limit is short, the script holds the answer back longer) and
# whose answer arrives later, while the session is in use: S = such a request, W(n) = a request with the long limit whose answer
# is held n x LATE (it is outstanding when the late answer to S arrives)
def S(op='get', mgr=0): return ['call', mgr, op, 0, 1, 1]
def W(n, op='get_config', mgr=0, asy=0): return ['call', mgr, op, asy, 0, n]
def timeout_core_cases():
    return [
        mk([[S()]]),                                                         # alone: the late answer, then the probe
        mk([[S(), W(2), ['call', 0, 'get', 0]]], policy=[N, H]),              # the late answer arrives while the NEXT request is outstanding
        mk([[W(2)], [S()]]),                                                  # ... while another thread's request is outstanding
        mk([[W(2), ['call', 0, 'get', 0]], [S(), S('get_config')], [W(2, 'dispatch', asy=1), W(1, 'get', asy=1)]], policy=[N, H]),
        mk([[['with', 0, 0, [S('get_config'), ['call', 0, 'get', 0]]]], [['with', 0, 1, [W(2, 'get')]]]], policy=[H]),
        mk([[S('dispatch', 1), S('get', 0)], [W(2, mgr=1), W(1, mgr=0)], [['req', 0, 1, 0], ['call', 1, 'lock:2', 0]]], policy=[E, N, H], nmgr=2, base11=True),
    ]

def gen_timeout_case(rng):
    """random histories around Manager-level requests that time out: per thread 1-3 steps of S (sync, any retrieval operation,
    any Manager), W (sync / async, answer held 1 or 2 x LATE), ordinary operations, a lock context around some of them, a pause"""
    nmgr = rng.choice([1, 1, 2])
    ops = ['get', 'get', 'get_config', 'dispatch']
    def step(depth):
        r = rng.random()
        if r < 0.4:
            return S(rng.choice(ops), rng.randrange(nmgr))
        if r < 0.65:
            return W(rng.choice([1, 2, 2]), rng.choice(ops), rng.randrange(nmgr), int(rng.random() < 0.35))
        if r < 0.8:
            return ['call', rng.randrange(nmgr), rng.choice(ops + ['lock:0', 'unlock:0', 'lock:2']), int(rng.random() < 0.35)]
        if r < 0.92 and depth == 0:
            return ['with', rng.randrange(nmgr), rng.randrange(2), [step(1) for _ in range(rng.choice([1, 2]))]]
        return ['sleep'] if r >= 0.92 else ['req', rng.randrange(2), int(rng.random() < 0.4), 0]
    threads = [[step(0) for _ in range(rng.choice([1, 2, 2, 3]))] for _ in range(rng.choice([1, 2, 2, 3]))]
    def has(prog):
        return any((st[0] == 'call' and len(st) > 4 and st[4]) or (st[0] == 'with' and has(st[3])) for st in prog)
    if not any(has(p) for p in threads):
        i = rng.randrange(len(threads)); threads[i].insert(rng.randrange(len(threads[i]) + 1), S(rng.choice(ops), rng.randrange(nmgr)))
    policy = [[rng.choice([0, 1, 1]), rng.choice(['ok', 'ok', 'ok', 'err'])] for _ in range(rng.choice([1, 2, 3, 5]))]
    return mk(threads, policy=policy, profile=rng.choice(PROFILES), base11=rng.random() < 0.4, nmgr=nmgr)

def gen_prog(rng, depth, nmgr, nobj, budget):
    prog = []
    for _ in range(rng.choice([1, 2, 2, 3])):
        if budget[0] <= 0: break
        r = rng.random()
        budget[0] -= 1
        if r < 0.4 and depth < 2:
            prog.append(['with', rng.randrange(nmgr), rng.randrange(2), gen_prog(rng, depth + 1, nmgr, nobj, budget) if rng.random() < 0.6 else []])
        elif r < 0.65:
            prog.append(['req', rng.randrange(nobj), int(rng.random() < 0.4), 0])
        else:
            prog.append(['call', rng.randrange(nmgr), rng.choice(['get', 'get', 'get_config', 'dispatch', 'lock:0', 'unlock:0', 'lock:2']), int(rng.random() < 0.35)])
    return prog

def gen_case(rng):
    nmgr = rng.choice([1, 1, 2])
    nth = rng.choice([1, 1, 2, 3])
    budget = [rng.choice([4, 6, 8])]
    threads = [gen_prog(rng, 0, nmgr, 2, budget) or [['with', 0, 0, []]] for _ in range(nth)]
    if rng.random() < 0.5:               # make sure something IS re-used: repeat one thread's program
        i = rng.randrange(nth); threads[i] = threads[i] + threads[i]
    policy = [[rng.choice([0, 1, 1]), rng.choice(['ok', 'ok', 'ok', 'err'])] for _ in range(rng.choice([1, 2, 3, 5]))]
    return mk(threads, policy=policy, profile=rng.choice(PROFILES), base11=rng.random() < 0.4, nmgr=nmgr)

def all_cases():
    out = []
    for c in core_cases():
        for b11 in (False, True):
            for pol in (None, [N], [H]):
                d = dict(c, base11=b11)
                if pol is not None:
                    if any(p[0] == 2 for p in c['policy']): continue
                    d['policy'] = [list(p) for p in pol]
                out.append(d)
    return out

# ---------------- the API model (coq/Model/ApiReuse.v, runner REUSE) ----------------
_model = [None, False]
def reuse_model(ctx=None):
    if not _model[1]:
        _model[1] = True
        from vlib import build
        from vlib.model import Model
        with build.Lock():
            ok, log, _ = build.make(['Glue/REUSE_glue.vo'])
            if ok:
                ok, log = build.build_runner('REUSE')
        if ok:
            _model[0] = Model('REUSE')
        elif ctx is not None:
            ctx.disagree({'reuse': 'runner'}, 'REUSE runner builds', log[-400:], 'extraction of Glue/REUSE_glue.v')
    return _model[0]

def model_call(uses):
    """the history of uses as executed (calls in the order they were started) in the vocabulary of Model/ApiReuse.v;
    returns (call, positions of the calls in the model's list of outcomes)"""
    us, pos, built = [], [], set()
    for use, sent, th, exc in uses:
        if use[0] == 'req':
            if use[1] not in built:
                built.add(use[1]); us.append([1, use[1]])
            us.append([2, use[1]])
        elif use[0] == 'mexit':
            us.append([3])
        else:
            us.append([0])
        pos.append(len(us) - 1)
    return [1, us], pos

def compare(uses, mo):
    """-> None or the first difference between what Model/ApiReuse.v says of the uses (sent as a request record of its
    own / refused) and what the calls did.  Per API object the NUMBER of accepted uses is compared (which of two racing
    request() calls on one object wins is not determined); with one client thread every call is compared."""
    if isinstance(mo, str) or not isinstance(mo, list) or len(mo) != 5:
        return 'model runner rejected the call: %r' % (mo,)
    if mo[3] != mo[4]:
        return 'SessionLTS.step accepts only %d of the %d labels of the history (C03_reuse_accepted says all)' % (mo[3], mo[4])
    call, pos = model_call(uses)
    outs = [mo[0][p] for p in pos]
    msent = [o[0] == 0 for o in outs]
    if len({u[2] for u in uses if u[2].startswith('reuse-client')}) <= 1:          # one client thread (+ the final probe made by the driver)
        for i, (u, m) in enumerate(zip(uses, msent)):
            if u[1] is not None and u[1] != m:
                return 'use %d (%s): the model says %s, the call %s' % (i, '/'.join(map(str, u[0])), 'a request of its own is sent' if m else 'refused before anything is sent',
                                                                       'made a request' if u[1] else 'was refused (%s)' % u[3])
    keys = sorted({tuple(u[0]) for u in uses})
    for k in keys:
        mine = [(u, m) for u, m in zip(uses, msent) if tuple(u[0]) == k]
        if any(u[1] is None for u, _ in mine): continue
        a, b = sum(1 for u, _ in mine if u[1]), sum(1 for _, m in mine if m)
        if a != b:
            exc = next((u[3] for u, _ in mine if not u[1]), None)
            return '%d use(s) of %s: the model says %d make a request of their own, %d did%s' % (len(mine), '/'.join(map(str, k)), b, a, ' (refused: %s)' % exc if exc else '')
    return None
