"""Re-parse histories: one process PARSES texts - the same text more than once - and edits the trees it got back (C17).

Every call of a parsing helper on a text must hand out a NEW tree that says what the text says: to_ele (with and
without huge_tree), validated_element on a string, RPCReply.parse / GetReply.data_ele (which call to_ele), NCElement
built from a reply text (its own parse of the transformed reply), parse_root.  The caller owns what it got and changes
it in place (replace_namespace, sub_ele, sub_ele_ns, attributes, text, tails, removing children, moving a child into
another tree); none of that may show in a tree obtained earlier or later from the same text.  This module holds what
is independent of the implementation: the generator (shapes are read off the INDEPENDENT reader's tree) and the
independent parser table for the model.

A call that RAISES leaves nothing behind: the text was not well-formed, cannot be encoded (a lone surrogate), is too
large for the parser variant asked for, or its root does not meet validated_element's requirement.  Such a call hands
out nothing, raises the documented exception, changes no tree - and the NEXT calls behave as in a fresh process.

case : {'kind': 'reparse', 'texts': [text..], 'steps': [step..]}
text : str | [part..] with part = str | [str, n] (n repetitions) | [code point]   (long / unencodable texts stay small in a replay file)
step : ['parse', via, ti]                      hand out a tree for texts[ti]; via in VIAS
     | ['fail', via, ti, why]                  the same call on a text / with a requirement for which it must raise; via in VIAS or
                                               FAIL_VIAS; why (the generator's intention, the oracle classifies the text itself) in EXC
     | ['nce', huge, ti]                       NCElement(RPCReply(texts[ti]), <namespace-stripping XSLT>, huge_tree): its document
     | ['parse_root', ti, None | [name, value]] parse_root(texts[ti]); the caller then sets name=value on the attrib it got
     | ['replace', k, path, old, new] | ['sub_ele', k, path, tag, attrs] | ['sub_ele_ns', k, path, tag, ns, attrs]   (xml_ helpers)
     | ['set', k, path, name, value] | ['text', k, path, s] | ['tail', k, path, s]                                   (lxml API)
     | ['remove', k, path]                     the last child of that element is removed
     | ['move', k, path, j, qpath]             the last child of that element is appended to an element of tree j
     | ['to_xml', k]                           serialise tree k and read it back
k, j : index of a tree in the order in which the trees were handed out (parse and nce steps); paths are lxml child indices
"""
from harness import xmlgen as X
from harness import xmlhist as H

B = X.B
BASE = 'urn:ietf:params:xml:ns:netconf:base:1.0'

# via -> (huge_tree?, needs a <data> child of an rpc-reply?)
VIAS = {
    'to_ele': (False, False), 'to_ele_kw_false': (False, False), 'to_ele_huge': (True, False), 'to_ele_huge_pos': (True, False),
    'validated': (False, False), 'validated_tags': (False, False),
    'rpcreply': (False, False), 'rpcreply_huge': (True, False),
    'getreply_data': (False, True), 'getreply_data_huge': (True, True),
}
EDITS = ('replace', 'sub_ele', 'sub_ele_ns', 'set', 'text', 'tail', 'remove', 'move')
HELPERS = ('replace', 'sub_ele', 'sub_ele_ns')

# vias that exist only to fail: validated_element with a requirement the root does not meet
FAIL_VIAS = {'validated_wrong_tag': (False, False), 'validated_missing_attr': (False, False)}
WRONG_TAGS = ['{urn:no-such}zz', 'zz-not-the-root']
MISSING_ATTRS = ['no-such-attribute', ['nor-this', '{urn:no-such}nor-that']]
# why a call must raise -> the documented exception (class name): str.encode / lxml.etree / ncclient.xml_
EXC = {'encode': 'UnicodeEncodeError', 'syntax': 'XMLSyntaxError', 'oversized': 'XMLSyntaxError', 'requirement': 'XMLError'}
CHUNK = 1 << 16                 # documents longer than this are 'long': feeding a parser piecewise would matter
TEXT_LIMIT = 10000000           # libxml2 XML_MAX_TEXT_LENGTH: a longer text node needs huge_tree (XML_PARSE_HUGE)
MODEL_GOOD_MAX = 4096           # trees of longer texts are compared with the independent reader only, not sent to the model
MODEL_BAD_MAX = 300000          # rejected texts longer than this are not sent to the model


def text_of(t):
    """the text a 'texts' entry stands for"""
    if isinstance(t, str): return t
    return ''.join(p if isinstance(p, str) else chr(p[0]) if len(p) == 1 else p[0] * p[1] for p in t)


def longest(exp):
    """octets of the longest single character-data / attribute value / comment of an independent reading"""
    if exp[0] != 0: return max([len(x) for x in exp[1:] if isinstance(x, bytes)] or [0])
    return max([len(a[1]) for a in exp[2]] + [longest(k) for k in exp[3]] + [0])


def why_fails(text, via, huge, exp):
    """None if the call must hand out a tree, else why it must raise - decided from the text (and the independent
    reading `exp` of it, None = rejected), never from what the implementation does"""
    try: text.encode('utf-8')
    except UnicodeEncodeError: return 'encode'
    if exp is None: return 'syntax'
    if not huge and longest(exp) > TEXT_LIMIT: return 'oversized'
    if via == 'validated_wrong_tag':
        u, l = exp[1]
        if ('{%s}%s' % (u[0].decode(), l.decode()) if u else l.decode()) not in WRONG_TAGS: return 'requirement'
    if via == 'validated_missing_attr':
        have = set(('{%s}%s' % (a[0][0][0].decode(), a[0][1].decode()) if a[0][0] else a[0][1].decode()) for a in exp[2])
        if any(not (set([r] if isinstance(r, str) else r) & have) for r in MISSING_ATTRS): return 'requirement'
    return None


TAGS = ['rpc', 'get', 'filter', 'a', 'b', 'config', 'é', 'name', 'added-later']
NSS = [BASE, 'urn:u', 'urn:v', 'urn:w']
SET_NAMES = ['touched', 'a', 'message-id', 'é', '{urn:u}a', '{urn:new}k']


def nss_of(exp, acc=None):
    acc = set() if acc is None else acc
    if exp[0] == 0:
        if exp[1][0]: acc.add(exp[1][0][0].decode())
        for a in exp[2]:
            if a[0][0]: acc.add(a[0][0][0].decode())
        for k in exp[3]: nss_of(k, acc)
    return acc


def data_index(exp):
    """lxml child index of the first <data> child (NETCONF base namespace) of the root, per the independent reading"""
    i = 0
    for k in exp[3]:
        if k[0] == 1: continue
        if k[0] == 0 and k[1] == [[B(BASE)], b'data']: return i
        i += 1
    return None


def indep_mnode(text, huge):
    """what libxml2 reads from the text, through a parser object of the harness's own (never xml_'s): the model's
    parser oracle.  None = rejected."""
    from lxml import etree
    try:
        return X.lx_mnode(etree.fromstring(text.encode('utf-8'), parser=etree.XMLParser(recover=False, huge_tree=bool(huge))))
    except etree.XMLSyntaxError:
        return None


# ---------------------------------------------------------------- generator
def gen_text(rng, g):
    """a document, or an rpc-reply around one (so that RPCReply / GetReply apply)"""
    sd, _ = g.element()
    body = X.serialise(sd, rng if rng.random() < 0.5 else None)
    pro = ''
    r = rng.random()
    if r < 0.25: pro = '<?xml version="1.0" encoding="UTF-8"?>' + rng.choice(['', '\n'])
    if rng.random() < 0.1: pro += '<!--prolog-->'
    if rng.random() < 0.5:
        ws = rng.choice(['', '', '\n', '\n  '])
        mid = str(rng.randint(1, 999))
        extra = rng.choice(['', '', ' xmlns:x="urn:u" x:k="v"'])
        body = '<rpc-reply xmlns="%s" message-id="%s"%s>%s<data>%s</data>%s</rpc-reply>' % (BASE, mid, extra, ws, body, ws.rstrip(' '))
    return pro + body + rng.choice(['', '', '\n', '<!--epilog-->'])


def gen_attrs(rng):
    d = []
    for _ in range(rng.choice([0, 0, 1, 1, 2])):
        u = rng.choice([None, None, None, BASE, 'urn:u'])
        l = rng.choice(['a', 'b', 'message-id', 'type', 'é'])
        k = '{%s}%s' % (u, l) if u else l
        if k in [x[0] for x in d]: continue
        d.append([k, X.gen_text(rng, 3, 0.1)])
    return None if not d and rng.random() < 0.5 else d


FILL = ['é€😀x', 'ab', 'ж', '名前 ', 'x&amp;y', '😀', '0123456789']
SHORT_BAD = ['', ' ', '<a>', '<a></b>', '<a/>junk', '<a b=1/>', 'plain words', '<a>&undefined;</a>', '<a><b></a></b>', '<a/><a/>',
             '<?xml version="1.0"?>', '<a xmlns:p="urn:u"><q:b/></a>', '<a>\x01</a>', '<a k="1" k="2"/>', '<!-- only a comment -->']


def gen_long_good(rng):
    """a well-formed document of more than CHUNK characters (multi-octet characters, so that neither the 64K-character nor
    the 64K-octet boundaries fall between characters of one width), as parts"""
    fill = rng.choice(FILL); n = rng.randint(CHUNK + 500, 2 * CHUNK + 5000) // len(fill) + 1
    pad = 'abc'[:rng.randrange(4)]
    body = ['<a k="v&amp;w" xmlns:p="urn:u">' + pad + '<p:b>first</p:b>', [fill, n], '<c q="1">t</c>tail &lt; end<!--c--></a>']
    if rng.random() < 0.4:
        body = ['<rpc-reply xmlns="%s" message-id="%d"><data>' % (BASE, rng.randint(1, 99))] + body + ['</data></rpc-reply>']
    if rng.random() < 0.3: body = ['<?xml version="1.0" encoding="UTF-8"?>\n'] + body
    return body


def gen_bad_text(rng, why, good):
    """a text on which every parsing helper must raise for that reason; `good`: a well-formed text of the case (str)"""
    fill = rng.choice(FILL); n = rng.randint(CHUNK + 10, 2 * CHUNK + 3000) // len(fill) + 1
    if why == 'syntax':
        r = rng.random()
        if r < 0.30: return rng.choice(SHORT_BAD)
        if r < 0.45: return good[:rng.randrange(1, max(2, len(good.rstrip()) - 1))] if len(good) < 5000 else '<a>'
        # the defect is beyond the first 64K characters
        tail = rng.choice(['</blub>', '', '</blob>junk', '<b></blob>', '&undefined;</blob>', '\x02</blob>', '</blob><blob/>', '<b k=1/></blob>'])
        return ['<blob k="1">' + rng.choice(['', '<b/>', 'abc']), [fill, n], tail]
    if why == 'encode':
        sur = [rng.choice([0xDC80, 0xD800, 0xDFFF, 0xDCFF])]
        r = rng.random()
        if r < 0.25: return [rng.choice(['<a>', '<a k="', '', '<a><b/>']), sur, rng.choice(['</a>', '"/>', '<a/>'])]
        if r < 0.35: return [good, sur]
        # the character that cannot be encoded is beyond the first 64K (sometimes 128K) characters of a document that is fine up to there
        parts = ['<blob k="1">', [fill, n * rng.choice([1, 1, 2])], sur, rng.choice(['rest</blob>', '', '<b/></blob>'])]
        return parts if rng.random() < 0.8 else ['<blob>', [fill, n], '<b k="', sur, '"/></blob>']
    if why == 'oversized':
        # well-formed; one text node of more than TEXT_LIMIT octets: refused unless huge_tree
        op, cl = rng.choice([('<a>', '</a>'), ('<a k="1"><b/>', '<c/>t</a>'),
                             ('<rpc-reply xmlns="%s" message-id="1"><data><a>' % BASE, '</a></data></rpc-reply>')])
        return [op, ['0123456789', TEXT_LIMIT // 10 + rng.randint(1, 50)], cl]
    raise ValueError(why)


class _Tree:
    def __init__(self, ti, exp, text, base, modelled):
        self.ti, self.base, self.modelled = ti, tuple(base), modelled
        self.counts = H.lx_child_counts(exp) if modelled else {(): 0}
        self.present = sorted(nss_of(exp))
        self.none_ok = 'xmlns=' not in text
        self.replaced = self.moved_into = False
        self.added = set()


def gen_reparse(rng, g=None):
    g = g or X.DocGen(rng, max_depth=3, max_kids=3)
    texts = [gen_text(rng, g) for _ in range(rng.choice([1, 2, 2]))]
    exps = [X.indep_read(t) for t in texts]
    dix = [data_index(e) for e in exps]
    trees, steps = [], []
    strs = list(texts)                       # the texts as strings (texts[i] may be parts)
    ngood = len(texts)                       # the first texts: short and well-formed

    def add_text(t):
        texts.append(t); s = text_of(t); strs.append(s)
        try: e = X.indep_read(s)
        except (ValueError, UnicodeEncodeError): e = None
        exps.append(e); dix.append(data_index(e) if e is not None else None)
        return len(texts) - 1

    def vias(ti, huge=None):
        return sorted(v for v, (h, needs) in VIAS.items() if (huge is None or h == huge) and (not needs or dix[ti] is not None))

    def parse(ti, huge=None, via=None):
        via = via or rng.choice(vias(ti, huge))
        steps.append(['parse', via, ti])
        modelled = len(strs[ti]) <= MODEL_GOOD_MAX
        trees.append(_Tree(ti, exps[ti], strs[ti], [dix[ti]] if VIAS[via][1] and modelled else [], modelled))

    def fail_block():
        """1-3 calls that must raise (several reasons, both parser variants, every helper), then good parses: first with the
        parser variant of the last failure, mostly also with the other one, sometimes of a long document"""
        h = False
        for _ in range(rng.choice([1, 1, 2, 3])):
            why = rng.choice(['syntax'] * 6 + ['encode'] * 8 + ['requirement'] * 4 + ['oversized'])
            if why == 'requirement':
                ti, via = rng.randrange(ngood), rng.choice(sorted(FAIL_VIAS))
            elif why == 'oversized':
                ti, via = add_text(gen_bad_text(rng, why, None)), rng.choice([v for v in sorted(VIAS) if not VIAS[v][0]])
            else:
                ti, via = add_text(gen_bad_text(rng, why, strs[0])), rng.choice(sorted(VIAS) + (sorted(FAIL_VIAS) if rng.random() < 0.15 else []))
            h = (VIAS.get(via) or FAIL_VIAS[via])[0]
            if why_fails(strs[ti], via, h, exps[ti]) != why:           # (a truncation that happens to be well-formed)
                why = 'syntax'; texts[ti] = strs[ti] = '<a>'; exps[ti] = dix[ti] = None
            steps.append(['fail', via, ti, why])
        ti = rng.randrange(ngood)
        if rng.random() < 0.3: ti = add_text(gen_long_good(rng))
        parse(ti, h)
        if rng.random() < 0.7: parse(ti, not h)
        r = rng.random()
        if r < 0.15: steps.append(['parse_root', rng.randrange(ngood), None])
        elif r < 0.25: nce(rng.randrange(ngood), h)

    def nce(ti, huge):
        steps.append(['nce', bool(huge), ti])
        trees.append(_Tree(ti, exps[ti], texts[ti], [], False))

    def pick_path(t):
        paths = sorted(t.counts)
        inside = [p for p in paths if p[:len(t.base)] == t.base]
        pool = inside if inside and rng.random() < 0.75 else paths
        deep = [p for p in pool if p]
        return rng.choice(deep) if deep and rng.random() < 0.5 else rng.choice(pool)

    def edit(k):
        t = trees[k]
        p = pick_path(t); path = list(p)
        r = rng.random()
        if r < 0.30:
            old = rng.choice(t.present + t.present + [None, 'urn:absent']) if t.present else rng.choice([None, 'urn:absent'])
            new = rng.choice(t.present + ['urn:new', 'urn:new', 'urn:v'] + ([None] if t.none_ok and not t.moved_into else []))
            steps.append(['replace', k, path, old, new]); t.replaced = True
        elif r < 0.52:
            tag, a = rng.choice(TAGS), gen_attrs(rng)
            # sub_ele copies the parent's binding: not modelled after a rename / a move into the tree / on an added element
            if r < 0.42 and t.modelled and not t.replaced and not t.moved_into and p not in t.added:
                steps.append(['sub_ele', k, path, tag, a])
            else:
                steps.append(['sub_ele_ns', k, path, tag, rng.choice(NSS), a])
            if t.modelled:                   # (the shape of an NCElement document is not known here: only its root is edited)
                c = p + (t.counts[p],); t.counts[p] += 1; t.counts[c] = 0; t.added.add(c)
        elif r < 0.68:
            steps.append(['set', k, path, rng.choice(SET_NAMES), X.gen_text(rng, 3, 0.1)])
        elif r < 0.78:
            steps.append(['text', k, path, rng.choice([None, X.gen_text(rng, 4)])])
        elif r < 0.83 and p:
            steps.append(['tail', k, path, rng.choice([None, X.gen_text(rng, 4)])])
        else:
            # structural edits: remove the last child / move it into another tree
            cands = [q for q in sorted(t.counts) if t.counts[q] > 0]
            if not cands or not t.modelled:
                steps.append(['set', k, path, 'touched', 'yes']); return
            p = rng.choice(cands); c = p + (t.counts[p] - 1,)
            sub = dict((q[len(c):], n) for q, n in t.counts.items() if q[:len(c)] == c)
            others = [j for j in range(len(trees)) if j != k and trees[j].modelled]
            for q in [q for q in t.counts if q[:len(c)] == c]: del t.counts[q]
            t.added = set(q for q in t.added if q[:len(c)] != c)
            t.counts[p] -= 1
            if others and rng.random() < 0.6:
                j = rng.choice(others); d = trees[j]
                q = pick_path(d); new = q + (d.counts[q],)
                d.counts[q] += 1
                for rel, n in sub.items(): d.counts[new + rel] = n
                d.moved_into = True
                steps.append(['move', k, list(p), j, list(q)])
            else:
                steps.append(['remove', k, list(p)])

    if rng.random() < 0.06: fail_block()         # the first parsing call of the process is one that raises
    if rng.random() < 0.1:
        # the NCElement document: built twice from one reply text, the first edited in between
        h = rng.random() < 0.5
        k0 = len(trees)
        nce(0, h)
        for _ in range(rng.randint(1, 2)): edit(k0)
        nce(0, h)
    else:
        huge = rng.random() < 0.6
        k0 = len(trees)
        parse(0, huge)
        for _ in range(rng.randint(1, 3)): edit(k0)
        r = rng.random()
        if r < 0.12: steps.append(['to_xml', k0])
        elif r < 0.24: steps.append(['parse_root', 0, rng.choice([None, ['touched', 'yes']])])
        elif r < 0.36 and ngood > 1: parse(1)
        parse(0, huge if rng.random() < 0.85 else None)
    if rng.random() < 0.3: fail_block()
    if rng.random() < 0.05: parse(add_text(gen_long_good(rng)))
    for _ in range(rng.randint(0, 4)):
        r = rng.random()
        if r < 0.38: edit(rng.randrange(len(trees)))
        elif r < 0.64: parse(rng.randrange(ngood))
        elif r < 0.74: steps.append(['to_xml', rng.randrange(len(trees))])
        elif r < 0.86: steps.append(['parse_root', rng.randrange(ngood), rng.choice([None, [rng.choice(SET_NAMES[:4]), 'x']])])
        elif r < 0.92: nce(rng.randrange(ngood), rng.random() < 0.5)
        else: fail_block()
    if rng.random() < 0.6:
        # whatever happened, the first text still reads as it reads - through both parser variants
        for h in rng.sample([False, True], 2): parse(0, h)
    return {'kind': 'reparse', 'texts': texts, 'steps': steps}
