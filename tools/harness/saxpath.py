"""Harness for C18: (a) handler level — the real SAXParser under real expat with a tee that records the SAX
events; (b) whole path — a Junos-profile session (no transport: Session subclass whose _transport_read hands out
prepared segments, real Session.run executed synchronously) fed a reply byte stream under chosen cuts.
Nothing here imports ncclient at module import time (vlib.paths.use_repo() must have run before first use)."""
import io, itertools, threading
import xml.etree.ElementTree as ET

BASE_NS = 'urn:ietf:params:xml:ns:netconf:base:1.0'
DELIM = b']]>]]>'
END_OF_CHUNKS = b'\n##\n'

def chunk_frame(msg, sizes):
    """RFC 6242 chunked framing of one message: `sizes` = the chunk lengths (positive; whatever is left after them goes
    into a last chunk, sizes beyond the end are cut short); the cuts are at octet granularity (inside a tag or a
    multi-byte character are ordinary places)."""
    out, i = [], 0
    for n in list(sizes) + [len(msg)]:
        n = min(int(n), len(msg) - i)
        if n <= 0: continue
        out.append(b'\n#%d\n' % n + msg[i:i + n]); i += n
    return b''.join(out) + END_OF_CHUNKS

# ------------------------------------------------------------------ handler level
class _FakeRpc:
    def __init__(self, f): self._filter_xml = f

class _BareRpc:          # a request class without the attribute at all (every operation except ExecuteRpc)
    pass

class _FakeSession:
    def __init__(self):
        self._listeners = set(); self._buffer = io.BytesIO()
    def get_listener_instance(self, cls):
        for l in self._listeners:
            if isinstance(l, cls): return l
    def add_listener(self, l): self._listeners.add(l)

# ------------------------------------------------------------------ the ways a caller hands over the filter
# The streaming parser accepts the filter as XML text or as an lxml element (_get_sax_parser_root).  A filter is a
# filter whatever its shape: an lxml element WITHOUT children (a single-leaf filter such as <name/>) is falsy, a
# sub-element of a larger tree has a parent and siblings, one element object may serve several requests.
FILTER_FORMS = ('text', 'bytes', 'element', 'subelement', 'shared')
# ... and the ways a request has NO filter: filter_xml=None, the argument left out, request classes that never have
# the attribute (every operation except ExecuteRpc)
NOFILTER_FORMS = ('none', 'default', 'command', 'getconf')

def filter_object(fstr, form='text', shared=None):
    """The object handed over as filter_xml for the filter written `fstr` (XML text).  `shared`: a dictionary that
    lives as long as the caller wants objects to be reused (one session's requests; or, in the several-sessions
    family, all sessions of the process): with it the SAME str / bytes object is handed over for equal filters, and
    form 'shared' hands over the same element object."""
    from lxml import etree
    if form in (None, 'text'): return fstr if shared is None else shared.setdefault(('text', fstr), fstr)
    if form == 'bytes': return fstr.encode() if shared is None else shared.setdefault(('bytes', fstr), fstr.encode())
    if form == 'element': return etree.fromstring(fstr)
    if form == 'subelement':
        return etree.fromstring('<filter><before/>' + fstr + '<after>t</after></filter>')[1]
    if form == 'shared':
        if shared is None: return etree.fromstring(fstr)
        if fstr not in shared: shared[fstr] = etree.fromstring(fstr)
        return shared[fstr]
    raise ValueError('unknown filter form %r' % (form,))

def default_form(f): return 'text' if f is not None else 'none'

EXN = {'SAXFilterXMLNotFoundError': 'Switch', 'OperationError': 'Operation', 'KeyError': 'Key', 'IndexError': 'Index',
       'AttributeError': 'Attr', 'SyntaxError': 'Syntax', 'TypeError': 'Type'}

def handler_run(doc, table, listener=True, chunk=None, form='text'):
    """Feed `doc` (bytes) to a fresh real SAXParser handler under expat.  `table`: dict message-id -> filter string,
    None (request without filter) or 'bare' (request object without the attribute); `form`: how a filter string is
    handed over (FILTER_FORMS).
    Returns (events, outcome, output bytes); events = list of ('S', name, [(k, v)...]) / ('E', name) / ('C', text)
    exactly as the handler received them; outcome 'Done' or the exception class name (EXN enum or raw name)."""
    from xml.sax import make_parser
    from xml.sax._exceptions import SAXParseException
    from ncclient.transport.third_party.junos.parser import SAXParser
    from ncclient.operations import rpc as rpcmod
    s = _FakeSession()
    if listener:
        l = rpcmod.RPCReplyListener(s, None)
        for mid, f in table.items():
            l._id2rpc[mid] = _BareRpc() if f == 'bare' else _FakeRpc(f if f is None else filter_object(f, form))
    events = []
    class Tee(SAXParser):
        def startElement(self, tag, attributes):
            events.append(('S', tag, [(k, attributes[k]) for k in attributes.keys()]))
            return SAXParser.startElement(self, tag, attributes)
        def endElement(self, tag):
            events.append(('E', tag)); return SAXParser.endElement(self, tag)
        def characters(self, content):
            events.append(('C', content)); return SAXParser.characters(self, content)
    p = make_parser(); p.setContentHandler(Tee(s))
    try:
        if chunk:
            for i in range(0, len(doc), chunk): p.feed(doc[i:i + chunk])
        else:
            p.feed(doc)
        p.close()
        out = 'Done'
    except SAXParseException as e:
        out = 'XMLParse'
    except Exception as e:
        out = EXN.get(type(e).__name__, type(e).__name__)
    return events, out, s._buffer.getvalue()

# ------------------------------------------------------------------ whole path
class _FakeSelector:
    def __init__(self, *a, **k): pass
    def select(self, timeout=None): return [1]
    def register(self, *a, **k): pass
    def close(self): pass

class _FakeSelectorsModule:
    EVENT_READ = 1
    DefaultSelector = _FakeSelector

_ids = None
def _install(start=1):
    """Rebind the module-level names ncclient imported (no source hooks): the selector used by Session.run and the
    uuid4 used for message-ids (the next request gets urn:uuid:<start>)."""
    global _ids
    import ncclient.transport.session as S
    import ncclient.operations.rpc as R
    S.selectors = _FakeSelectorsModule
    class _U:
        def __init__(self, n): self.urn = 'urn:uuid:%08d' % n
    cnt = itertools.count(start)
    R.uuid4 = lambda: _U(next(cnt))
    _ids = cnt

def make_session(use_filter=True, base=10):
    """base=11: the session as it is after a capability exchange that selected base:1.1 (both sides advertise it;
    the Junos profile's client capabilities do): chunked framing in both directions."""
    from ncclient.transport.session import Session, NetconfBase
    from ncclient.capabilities import Capabilities
    from ncclient import manager
    _install()
    class SegSession(Session):
        def __init__(self, dh):
            Session.__init__(self, Capabilities(dh.get_capabilities()))
            self._device_handler = dh
            self._connected = True
            self._buffer = io.BytesIO(); self._message_list = []; self._closing = threading.Event()
            self.parser = None
            self.segments = []; self.sent = []
        def _transport_register(self, selector, event): pass
        def _send_ready(self): return True
        def _transport_write(self, data):
            self.sent.append(data); return len(data)
        def _transport_read(self):
            if self.segments: return self.segments.pop(0)
            self._closing.set(); return b''
        def close(self):
            self._connected = False
    dh = manager.make_device_handler({'name': 'junos', 'use_filter': use_filter} if use_filter is not None else {'name': 'junos'})
    s = SegSession(dh)
    s.parser = dh.get_xml_parser(s)          # the SSH-only step, done by hand
    if base == 11:
        if ':base:1.1' not in s._client_capabilities: raise RuntimeError('the profile does not advertise base:1.1')
        s._base = NetconfBase.BASE_11        # what Session._post_connect does when the server's <hello> has base:1.1 too
    return s, dh

def reply_bytes(mid, body, nc=False, extra_attrs=''):
    if nc:
        return ('<nc:rpc-reply xmlns:nc="%s" message-id="%s"%s>%s</nc:rpc-reply>' % (BASE_NS, mid, extra_attrs, body)).encode()
    return ('<rpc-reply message-id="%s"%s>%s</rpc-reply>' % (mid, extra_attrs, body)).encode()

def issue_requests(s, dh, filters, forms=None, shared=None):
    """len(filters) pipelined requests on session s.  filters[i]: filter string or None; forms[i]: how it is handed
    over (FILTER_FORMS) resp. how the request comes to have no filter (NOFILTER_FORMS); default text / None.
    shared: the dictionary of filter objects to reuse (default: one per call, i.e. per session)."""
    from ncclient.operations.third_party.juniper.rpc import ExecuteRpc, Command, GetConfiguration
    from ncclient.operations import RaiseMode
    objs = []
    if shared is None: shared = {}
    kw = dict(async_mode=True, raise_mode=RaiseMode.NONE, timeout=1)
    for i, f in enumerate(filters):
        form = (forms[i] if forms else None) or default_form(f)
        if f is not None:
            if form not in FILTER_FORMS: raise ValueError('form %r for a request with filter' % (form,))
            o = ExecuteRpc(s, dh, **kw)
            o.request('<get-software-information/>', filter_xml=filter_object(f, form, shared))
        elif form == 'none':
            o = ExecuteRpc(s, dh, **kw); o.request('<get-software-information/>', filter_xml=None)
        elif form == 'default':
            o = ExecuteRpc(s, dh, **kw); o.request('<get-software-information/>')
        elif form == 'command':
            o = Command(s, dh, **kw); o.request('show version')
        elif form == 'getconf':
            o = GetConfiguration(s, dh, **kw); o.request()
        else:
            raise ValueError('form %r for a request without filter' % (form,))
        objs.append(o)
    return objs

def collect_results(objs, dh):
    from ncclient.xml_ import NCElement
    res = []
    for o in objs:
        if o.reply is not None:
            raw = o.reply._raw
            try:
                o.reply.parse()
                tr = NCElement(o.reply, dh.transform_reply()).tostring
                if isinstance(tr, bytes): tr = tr.decode()
            except Exception as e:
                tr = 'EXC:' + type(e).__name__
            res.append(('reply', raw, tr))
        elif o.error is not None:
            res.append(('error', type(o.error).__name__))
        else:
            res.append(('pending',))
    return res

def run_stream(segments, filters, use_filter=True, forms=None, base=10, id0=0):
    """One session, len(filters) pipelined requests (filter string or None; forms: see issue_requests), the given
    read segments (base=11: the session uses chunked framing).  Returns a list with one outcome per request:
      ('reply', raw xml text, transformed xml text) | ('error', class name) | ('pending',)"""
    s, dh = make_session(use_filter, base)
    if id0: _install(id0 + 1)
    objs = issue_requests(s, dh, filters, forms)
    s.segments = list(segments)
    s.run()
    return collect_results(objs, dh)

def ids_for(n, id0=0):
    """The message-ids the next make_session()+n requests will get: ids restart at 1 per _install() (id0: the
    number of ids handed out before, see run_stream(id0=))."""
    return ['urn:uuid:%08d' % (id0 + i + 1) for i in range(n)]

def cuts_to_segments(stream, cuts):
    cuts = sorted(set(c for c in cuts if 0 < c < len(stream)))
    segs, last = [], 0
    for c in cuts + [len(stream)]:
        segs.append(stream[last:c]); last = c
    return segs

# ------------------------------------------------------------------ independent readers (oracle side; xml.etree only)
def canon_tree(xml_text, strip_ns=False):
    """Canonical form of a document read by xml.etree: (tag, sorted attrs, text chunks joined / stripped, children).
    Blank text is dropped; non-blank text is kept stripped (the 1.0 framing strips, end tags get a newline)."""
    if isinstance(xml_text, bytes): xml_text = xml_text.decode()
    root = ET.fromstring(xml_text)
    def loc(t): return t.split('}', 1)[1] if strip_ns and t.startswith('{') else t
    def c(e):
        kids = [c(k) for k in e]
        texts = [(e.text or '').strip()] + [(k.tail or '').strip() for k in e]
        return [loc(e.tag), sorted((loc(k), v) for k, v in e.attrib.items()), [t for t in texts if t], kids]
    return c(root)
