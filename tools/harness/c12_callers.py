"""C12: WHO calls close() / close_session() / leaves the with-block.

The property speaks of the session that is closed; its sentence must hold whichever thread asked for the close:
  main     the main thread of the process
  app      an application thread (daemon / non-daemon)
  own      the session's own thread, from one of its listeners (path close_in_callback: that close cannot wait for
           its own thread, the worker ends right after)
  foreign  the thread of ANOTHER session: two managers in one process, a listener of session A - listeners run on
           A's session thread - closes session B.  trigger 'callback': A receives a notification and its listener
           closes B (supervisor); trigger 'errback': A's peer goes away and A's listener closes B when it is told
           (cascade close).
For every caller other than the session's own thread: when the close path returns the session thread of the closed
session has ended and none of its listeners is invoked afterwards.  B carries listeners whose errback is slow, so
that a close which does not wait for B's thread returns while B's last error broadcast is still under way.

Model: coq/Model/CloseCallers.v (caller kinds; two sessions, the foreign close as steps of the other session's
thread), theorems C12_foreign_* / C12_caller_* of coq/Props/C12.v.
"""
import queue, signal, threading, time

from harness import c12_peers as P

NOTIF = (b'<notification xmlns="urn:ietf:params:xml:ns:netconf:notification:1.0"><eventTime>2026-01-01T00:00:00Z'
         b'</eventTime><alarm xmlns="urn:x:c12"/></notification>' + P.DELIM)
LIMIT = 6.0          # seconds a close path may take before it is declared hung (expected: errback time + < 0.2 s)

class ClosePathHung(Exception):
    """the close path did not return to its caller"""

# ----------------------------------------------------------------------------------------------------
# running a piece of a scenario on the main thread
# ----------------------------------------------------------------------------------------------------
_jobs = queue.Queue()
_main_serving = [False]

class _Expired(BaseException):
    pass

class _Job(object):
    def __init__(self, fn, limit):
        self.fn, self.limit, self.done, self.hung, self.exc = fn, limit, threading.Event(), False, None
        self.th = None

def serve_main(th, limit):
    """called by the thread that started the scenario thread `th`.  If that is the main thread it executes the jobs the
    scenario hands over (`on_main`) until `th` has ended or `limit` seconds have passed; returns True when th ended"""
    if threading.current_thread() is not threading.main_thread():
        th.join(limit); return not th.is_alive()
    _main_serving[0] = True
    try:
        t_end = P.now() + limit
        while True:
            left = t_end - P.now()
            if left <= 0: return not th.is_alive()
            try: job = _jobs.get(timeout=left)
            except queue.Empty: return not th.is_alive()
            if job.th is not th: continue          # left over from a scenario that was given up
            if job.fn is None:                     # the scenario thread has nothing more to hand over
                th.join(max(0.0, t_end - P.now())); return not th.is_alive()
            def expired(sig, frm): raise _Expired()
            old = signal.signal(signal.SIGALRM, expired)
            signal.setitimer(signal.ITIMER_REAL, job.limit)
            try:
                try: job.fn()
                finally: signal.setitimer(signal.ITIMER_REAL, 0)
            except _Expired: job.hung = True
            except BaseException as e: job.exc = e
            finally:
                signal.signal(signal.SIGALRM, old)
                job.done.set()
    finally:
        _main_serving[0] = False

def scenario_done():
    """the scenario thread tells the serving main thread that nothing more will come"""
    job = _Job(None, 0); job.th = threading.current_thread()
    _jobs.put(job)

def on_main(fn, limit):
    """run fn() on the main thread (which must be inside serve_main); returns 'ok' | 'hung' | 'unavailable'"""
    if not _main_serving[0]: return 'unavailable'
    job = _Job(fn, limit); job.th = threading.current_thread()
    _jobs.put(job)
    if not job.done.wait(limit + 2): return 'hung'
    if job.exc is not None: raise job.exc
    return 'hung' if job.hung else 'ok'

# ----------------------------------------------------------------------------------------------------
# scenario
# ----------------------------------------------------------------------------------------------------
def scenario_callers(case, r, opener_of, submit, new_run, rpc_timeout=0.5):
    """case: transport (of the session that is closed, B), caller (main | app | app_nondaemon | foreign),
    via (close | close_session | with_ok | with_exc), pending (requests in flight on B), slow (seconds each slow errback
    of B takes), listeners (how many slow listeners B has), close_rpc (what B's peer does with close-session);
    foreign only: a_transport, trigger (callback | errback), a_pending (requests in flight on A)"""
    from ncclient.manager import Manager
    from ncclient.transport.session import SessionListener
    kind, who, via = case['transport'], case['caller'], case['via']
    slow = case.get('slow', 0.3)
    r.s, r.peer, err = opener_of(kind)(rpc='hold', close_rpc=case.get('close_rpc', 'ok_close'))
    assert err is None, err
    b = r.s
    b._plog_add('HelloOk')
    class SlowErr(SessionListener):
        "a listener of B: being told that the session ended takes it a while"
        def callback(self, root, raw): pass
        def errback(self, ex):
            time.sleep(slow); b.probe.calls.append(('slow-errback-end', P.now()))
    for _ in range(case.get('listeners', 1)): b.add_listener(SlowErr())
    submit(r, case.get('pending', 0))
    dh = P.device_handler()
    res = {}
    def do_close():
        res['caller'] = P.caller_kind(b)
        try:
            if via == 'close':
                b.close()
            else:
                m = Manager(b, dh, timeout=rpc_timeout)
                try:
                    if via == 'close_session':
                        b._plog_add('CsBegin'); m.close_session()
                    elif via == 'with_ok':
                        with m:
                            b._plog_add('MgrExit', 0); b._plog_add('CsBegin')
                    else:
                        with m:
                            b._plog_add('MgrExit', 1); b._plog_add('CsBegin')
                            raise KeyError('body failed')
                except Exception as e:
                    res['raised'] = type(e).__name__
        finally:
            # what the caller finds at the moment the close path hands control back to it
            res['t_ret'] = P.now(); res['alive_at_return'] = b.is_alive(); res['connected_at_return'] = bool(b.connected)
            if via != 'close': b._plog_add('CsRet')
    ra = None
    if who in ('app', 'app_nondaemon'):
        th = threading.Thread(target=do_close, daemon=(who == 'app'), name='c12-app-closer'); th.start(); th.join(LIMIT)
        hung = th.is_alive()
    elif who == 'main':
        st = on_main(do_close, LIMIT)
        if st == 'unavailable':            # the check is not driven from the main thread: an application thread instead
            th = threading.Thread(target=do_close, daemon=True, name='c12-app-closer'); th.start(); th.join(LIMIT)
            hung = th.is_alive()
        else:
            hung = st == 'hung'
    elif who == 'foreign':
        a_kind, trigger = case.get('a_transport', kind), case['trigger']
        ra = new_run()
        ra.s, ra.peer, err = opener_of(a_kind)(rpc='hold')
        assert err is None, err
        a = ra.s
        a._plog_add('HelloOk')
        done = threading.Event()
        class Supervisor(SessionListener):
            "a listener of A: closes the other session"
            fired = False
            def _go(self):
                if self.fired: return
                self.fired = True
                try: do_close()
                finally: done.set()
            def callback(self, root, raw):
                if trigger == 'callback' and root[0].endswith('notification'): self._go()
            def errback(self, ex):
                if trigger == 'errback': self._go()
        a.add_listener(Supervisor())
        submit(ra, case.get('a_pending', 0))
        if trigger == 'callback': assert ra.peer._send(NOTIF)
        else: ra.peer._close_own()
        hung = not done.wait(LIMIT)
    else:
        raise ValueError(who)
    if hung or 't_ret' not in res:
        raise ClosePathHung('the close path (%s) entered by %s did not return within %.0f s' %
                            (via, 'a listener of another session' if who == 'foreign' else 'the %s thread' % who, LIMIT))
    r.t_ret = res['t_ret']; r.raised = res.get('raised')
    r.extra['caller'] = res['caller']
    r.extra['alive_at_path_return'] = res['alive_at_return']
    r.extra['connected_at_path_return'] = res['connected_at_return']
    if ra is not None:
        # the supervising session is an ordinary session of its own: it is closed now and checked as well
        a = ra.s
        if case['trigger'] == 'errback':
            a.join(2.0)                        # its worker saw EOF, told the listeners (one of them closed B), closes itself
            ra.extra['alive_after_peer_drop'] = a.is_alive()
        a.close(); ra.t_ret = P.now()
        r.other = (dict(transport=case.get('a_transport', kind), path=('peer_drop' if case['trigger'] == 'errback' else 'close'),
                        pending=case.get('a_pending', 0)), ra)
    return r

# ----------------------------------------------------------------------------------------------------
# cases
# ----------------------------------------------------------------------------------------------------
VIAS = ['close', 'close_session', 'with_ok', 'with_exc']

def quick_cases(kind, rng):
    """every caller kind once or more; the foreign caller with both triggers, the two usual close paths and one drawn at random"""
    cs = []
    for trigger, via, n in (('callback', 'close', 1), ('errback', 'close_session', 2),
                            (rng.choice(['callback', 'errback']), rng.choice(VIAS), rng.randint(0, 3))):
        cs.append(dict(transport=kind, path='callers', caller='foreign', a_transport=kind, trigger=trigger, via=via, pending=n,
                       slow=0.15, a_pending=rng.randint(0, 1)))
    cs.append(dict(transport=kind, path='callers', caller='main', via=rng.choice(VIAS), pending=rng.randint(0, 2), slow=0.1))
    cs.append(dict(transport=kind, path='callers', caller=rng.choice(['app', 'app_nondaemon']), via=rng.choice(VIAS),
                   pending=rng.randint(0, 2), slow=0.1))
    return cs

def thorough_cases(kind, rng):
    cs = []
    for trigger in ('callback', 'errback'):
        for via in VIAS:
            for a_kind in sorted({kind, 'unix'}):
                cs.append(dict(transport=kind, path='callers', caller='foreign', a_transport=a_kind, trigger=trigger, via=via,
                               pending=rng.randint(0, 3), slow=rng.choice([0.15, 0.3]), listeners=rng.randint(1, 3),
                               a_pending=rng.randint(0, 2), close_rpc=rng.choice(['ok_close', 'ok_open', 'silent', 'error'])))
    for who in ('main', 'app', 'app_nondaemon'):
        for via in VIAS:
            cs.append(dict(transport=kind, path='callers', caller=who, via=via, pending=rng.randint(0, 3),
                           slow=rng.choice([0.15, 0.3]), listeners=rng.randint(1, 2)))
    return cs
