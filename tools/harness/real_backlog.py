"""C04 with a BACKLOG of unsent requests: many pipelined (asynchronous) requests and a few synchronous ones are issued while
the transport takes (almost) nothing, then the connection is lost.  Real SSHSession / TLSSession / UnixSocketSession code,
free-running threads, the stand-in sockets of real_end.py (no handshake), wall-clock bounds.

A case is

    kind      ssh | tls | unix
    writable  slow    the peer reads, but the session thread is otherwise idle (nothing inbound): it takes the queue at its own pace
              never   ssh: the channel reports "not ready to send" (window full) from the first request on
                      tls / unix: the peer stops reading, the (small) socket buffers fill up and the write blocks
    n         requests issued back to back by each pipelining thread (asynchronous mode: the call returns the request object)
    threads   pipelining threads
    n_sync    threads making one synchronous request each (timeout T) while the burst is under way
    loss      close (the peer closes its end) | inactive_first (ssh: the transport is reported inactive before end-of-file is read)

Oracle = the property sentences on observables:
  * "under every schedule and fault a synchronous request returns or raises within its configured timeout": EVERY call -
    synchronous or asynchronous, made before, while or after the connection is lost - has returned or raised T + SLACK
    after it was made (an asynchronous call has nothing to wait for at all);
  * every request accepted before the loss (the call returned its request object / the synchronous call was waiting) is
    failed promptly after the loss - event set, error a TransportError for a close by the peer, no reply - and a call that
    raises raises a TransportError (refusal), a synchronous one never TimeoutExpiredError, never returns a reply;
  * afterwards the session thread has ended, the session reports itself disconnected, a later request is refused promptly.
Nothing looks at the source or at the session's queue."""
import socket, threading, time
from . import real_end as R

T, SLACK, PROMPT, LOSS_AT = 2.0, 1.0, 1.5, 0.35
KINDS = ('ssh', 'tls', 'unix')

def now():
    return time.monotonic()

class GatedChannel(R.FakeChannel):
    def __init__(self, sock):
        R.FakeChannel.__init__(self, sock); self.ready = True
    def send_ready(self): return self.ready

class StallServer(threading.Thread):
    """sends the hello, reads the client's hello, then reads only while `reading` is set"""
    def __init__(self, sock):
        threading.Thread.__init__(self, daemon=True, name='backlog-server')
        self.sock, self.reading, self.n_msgs, self.got_hello = sock, threading.Event(), 0, threading.Event()
        self.reading.set()
    def run(self):
        try: self.sock.sendall(R.HELLO)
        except OSError: return
        buf = b''
        self.sock.settimeout(0.05)
        while True:
            if not self.reading.is_set():
                time.sleep(0.01); continue
            try: data = self.sock.recv(65536)
            except socket.timeout: continue
            except OSError: return
            if not data: return
            buf += data
            while R.DELIM in buf:
                _, _, buf = buf.partition(R.DELIM)
                self.n_msgs += 1; self.got_hello.set()

def run_backlog(case):
    """-> None or a text"""
    from ncclient import manager
    from ncclient.transport.errors import TransportError
    kind, writable, n, nthreads, n_sync, loss = (case['kind'], case['writable'], case['n'], case.get('threads', 1),
                                                 case.get('n_sync', 1), case.get('loss', 'close'))
    tag = '%s/%s %dx%d pipelined + %d synchronous' % (kind, writable, nthreads, n, n_sync)
    dh = manager.make_device_handler({'name': 'default'})
    a, b = socket.socketpair(socket.AF_UNIX, socket.SOCK_STREAM)
    if writable == 'never' and kind != 'ssh':
        a.setsockopt(socket.SOL_SOCKET, socket.SO_SNDBUF, 4096); b.setsockopt(socket.SOL_SOCKET, socket.SO_RCVBUF, 4096)
    srv = StallServer(b); srv.start()
    transport = chan = None
    if kind == 'ssh':
        from ncclient.transport.ssh import SSHSession
        ses = SSHSession(dh); transport = R.FakeTransport(a); ses._transport = transport; chan = GatedChannel(a); ses._channel = chan
    elif kind == 'tls':
        from ncclient.transport.tls import TLSSession
        ses = TLSSession(dh); ses._socket = R.TlsSock(a)
    else:
        from ncclient.transport.unixSocket import UnixSocketSession
        ses = UnixSocketSession(dh); ses._socket = a
    calls = []                      # dict(sync, t0, t1, kind, val)
    lock = threading.Lock()
    stop = threading.Event()
    try:
        ses._connected = True
        ses._post_connect(timeout=5)
        if not srv.got_hello.wait(5):
            return 'rig: %s: the client hello never reached the peer' % tag
        if writable == 'never':
            if chan is not None: chan.ready = False
            else: srv.reading.clear()
        m_async = manager.Manager(ses, dh, timeout=T); m_async.async_mode = True
        m_sync = manager.Manager(ses, dh, timeout=T)
        def one(m, sync):
            rec = dict(sync=sync, t0=now(), t1=None, kind=None, val=None)
            with lock: calls.append(rec)
            try: rec['val'] = m.get_config(source='running'); rec['kind'] = 'value'
            except BaseException as e: rec['val'] = e; rec['kind'] = 'error'
            rec['t1'] = now()
        def burst():
            for _ in range(n):
                if stop.is_set(): return
                one(m_async, False)
        ths = [threading.Thread(target=burst, daemon=True) for _ in range(nthreads)]
        sths = [threading.Thread(target=one, args=(m_sync, True), daemon=True) for _ in range(n_sync)]
        t_start = now()
        for th in ths: th.start()
        time.sleep(0.05)
        for th in sths: th.start()
        time.sleep(max(0.0, t_start + LOSS_AT - now()))
        if transport is not None and loss == 'inactive_first':
            transport.active = False
        t_loss = now()
        try: b.shutdown(socket.SHUT_RDWR)
        except OSError: pass
        b.close()
        # every call gets its timeout and the slack
        for th in ths + sths:
            while th.is_alive():
                with lock: open_calls = [c for c in calls if c['t1'] is None]
                if any(now() - c['t0'] > T + SLACK for c in open_calls): break
                th.join(0.02)
        with lock: snapshot = list(calls)
        late = [c for c in snapshot if (c['t1'] if c['t1'] is not None else now()) - c['t0'] > T + SLACK]
        if late:
            c = late[0]
            done = sum(1 for x in snapshot if x['t1'] is not None)
            return ('%s: %s request call %s %.1f s after it was made (timeout %.0f s; the connection was lost %.1f s ago; %d calls had completed)'
                    % (tag, 'a synchronous' if c['sync'] else 'an asynchronous (pipelined)',
                       'has neither returned nor raised' if c['t1'] is None else 'returned only', (c['t1'] or now()) - c['t0'], T, now() - t_loss, done))
        # a peer that goes away with octets of ours unread resets the connection: the client sees a read / write error,
        # not end-of-file, and "a transport error for a close by the peer" does not apply (any error but a timeout does)
        clean = kind == 'ssh' or writable != 'never'
        bad = lambda e: (not isinstance(e, TransportError)) if clean else type(e).__name__ == 'TimeoutExpiredError'
        for c in snapshot:
            if c['kind'] == 'error' and bad(c['val']):
                return '%s: a %s request raised %s instead of a transport error' % (tag, 'synchronous' if c['sync'] else 'pipelined', type(c['val']).__name__)
            if c['sync'] and c['kind'] == 'value':
                return '%s: a synchronous request returned a reply although the peer never answered' % tag
            if c['sync'] and c['t0'] < t_loss and c['t1'] - t_loss > PROMPT:
                return '%s: a synchronous request outstanding at the loss was failed only %.1f s after it' % (tag, c['t1'] - t_loss)
        accepted = [c['val'] for c in snapshot if not c['sync'] and c['kind'] == 'value' and c['t1'] <= t_loss]
        while now() - t_loss < PROMPT and not all(r.event.is_set() for r in accepted): time.sleep(0.01)
        unfailed = [r for r in accepted if not r.event.is_set()]
        if unfailed:
            return '%s: %d of %d requests accepted before the connection was lost were never failed' % (tag, len(unfailed), len(accepted))
        for r in accepted:
            if r.reply is not None or r.error is None or bad(r.error):
                return '%s: a request accepted before the loss ended with %r instead of a transport error' % (tag, r.error if r.reply is None else 'a reply')
        ses.join(max(0.0, t_loss + PROMPT + 1.0 - now()))
        if ses.is_alive():
            return '%s: the session thread is still running after the connection was lost' % tag
        if ses.connected or m_sync.connected:
            return '%s: the session still reports connected after the connection was lost' % tag
        rec = {}
        def later():
            t0 = now()
            try: rec['r'] = ('value', m_sync.get_config(source='running'))
            except BaseException as e: rec['r'] = ('error', e)
            rec['t'] = now() - t0
        th2 = threading.Thread(target=later, daemon=True); th2.start(); th2.join(T + SLACK)
        if th2.is_alive() or 'r' not in rec:
            return '%s: a request made after the loss did not return within its timeout' % tag
        k, v = rec['r']
        if k != 'error' or not isinstance(v, TransportError):
            return '%s: a request made after the loss ended with %s instead of being refused with a transport error' % (tag, type(v).__name__ if k == 'error' else 'a reply')
        if rec['t'] > PROMPT:
            return '%s: a request made after the loss was refused only after %.1f s' % (tag, rec['t'])
        case['_stats'] = dict(calls=len(snapshot), accepted_before_loss=len(accepted), refused=sum(1 for c in snapshot if c['kind'] == 'error'),
                              sent=srv.n_msgs - 1)
        return None
    finally:
        stop.set()
        try: ses.close()
        except Exception: pass
        for s in (a, b):
            try: s.close()
            except OSError: pass

def core_cases():
    return [dict(kind='ssh', writable='never', n=1200, threads=1, n_sync=1, loss='close'),
            dict(kind='unix', writable='slow', n=400, threads=1, n_sync=2, loss='close'),
            dict(kind='tls', writable='slow', n=150, threads=2, n_sync=2, loss='close')]

def gen_case(rng, kind=None):
    kind = kind or rng.choice(KINDS)
    return dict(kind=kind, writable=rng.choice(['slow', 'never']), n=rng.choice([20, 100, 140, 200, 300, 500]), threads=rng.choice([1, 1, 2, 4]),
                n_sync=rng.choice([0, 1, 2, 3]), loss=rng.choice(['close', 'close', 'inactive_first']) if kind == 'ssh' else 'close')

def all_cases():
    out = []
    for kind in KINDS:
        for writable in ('slow', 'never'):
            for n, threads, n_sync in ((1, 1, 1), (60, 2, 1), (260, 1, 2), (130, 4, 0), (1000, 1, 1), (3000, 1, 1)):
                out.append(dict(kind=kind, writable=writable, n=n, threads=threads, n_sync=n_sync, loss='close'))
    out.append(dict(kind='ssh', writable='never', n=400, threads=1, n_sync=1, loss='inactive_first'))
    return out

def judge(case, tries=2):
    from . import lts
    was = bool(lts._installed)
    lts.uninstall()
    try:
        f = None
        for _ in range(tries):
            c = dict(case)
            f = run_backlog(c)
            case['_stats'] = c.get('_stats')
            if f is None: return None
        return f
    finally:
        if was: lts.install()
