"""Harness for C18, byte-level driver: runs the Junos-profile session of saxpath on prepared read segments and
records, after every read, the observable state of JunosXMLParser.parse (which parser the session has, _held,
_head, the session buffer, messages dispatched so far, what was given to expat) — by subclassing the session and
rebinding the module-level name make_parser of the Junos parser module (no hooks in the source).  Also builds the
oracle side of the extracted driver model (coq/Model/JunosSax.v): per reply-to-be of the stream, the SAX events each
octet completes (real expat fed octet by octet, no ncclient code involved) and what dispatching it does.
run_sessions_obs: several such sessions in ONE process, each with the real Session.run in a worker of its own, the
reads handed out one at a time in a given order (exactly one worker runs at any time: deterministic)."""
import io
import xml.etree.ElementTree as ET
from harness import saxpath as H

DELIM = H.DELIM
WS = b' \t\n\r\x0b\x0c'

# ------------------------------------------------------------------ implementation side
_cur = {'log': None}          # the log of the session that is being created / whose turn it is (one runs at a time)

def _new_log():
    return dict(reads=[], outs=[], fed=[b''], raised=[False], died=None)

def _rec_parser_class():
    from xml.sax import expatreader
    class RecParser(expatreader.ExpatParser):
        """records what the XML parser of a reply is given, in the log of the session that created it"""
        def __init__(self, *a, **k):
            expatreader.ExpatParser.__init__(self, *a, **k)
            self._log = _cur['log']
        def feed(self, data, isFinal=False):
            log = self._log
            log['fed'][-1] += bytes(data)
            try:
                return expatreader.ExpatParser.feed(self, data, isFinal)
            except BaseException:
                log['raised'][-1] = True
                raise
    return RecParser

def _obs_session(log, use_filter, base, turn=None):
    """A saxpath session whose class records into `log` (state after every read, messages dispatched).  turn: None, or
    a _Turn: the session's worker then waits in _transport_read until the scheduler gives it the next read."""
    from ncclient.transport.third_party.junos import parser as P
    _cur['log'] = log
    s, dh = H.make_session(use_filter, base)
    cls0 = s.__class__

    def snapshot(self):
        p = self.parser
        buf = self._buffer.getvalue()
        if base == 11:
            # chunked framing: the Junos parser stays; the framing side is the buffer and the chunks of the message in progress
            st = (5 if isinstance(p, P.JunosXMLParser) else 6, getattr(p, '_held', None), getattr(p, '_head', None), buf,
                  b''.join(self._message_list), len(log['outs']))
        elif isinstance(p, P.JunosXMLParser):
            st = (0, p._held, p._head, buf, len(log['outs']), len(log['fed'][-1]), log['raised'][-1])
        else:
            st = (1, b'', b'', buf.lstrip(WS), len(log['outs']), len(log['fed'][-1]), log['raised'][-1])
        log['reads'].append(st)

    class Obs(cls0):
        _first = True
        def _transport_read(self):
            if not self._first: snapshot(self)
            self._first = False
            if turn is not None: turn.wait_turn()
            return cls0._transport_read(self)
        def _dispatch_message(self, raw):
            # written by the SAX handler?  base:1.0: the Junos parser is (still) the session's parser; base:1.1: the
            # XML parser of this message was fed and did not raise
            via = isinstance(self.parser, P.JunosXMLParser) if base != 11 else (bool(log['fed'][-1]) and not log['raised'][-1])
            log['outs'].append((via, raw))
            log['fed'].append(b''); log['raised'].append(False)
            return cls0._dispatch_message(self, raw)
        def _dispatch_error(self, err):
            if log['died'] is None and not self._closing.is_set(): log['died'] = type(err).__name__
            return cls0._dispatch_error(self, err)
    s.__class__ = Obs
    return s, dh

def run_stream_obs(segments, filters, use_filter=True, forms=None, base=10, id0=0):
    """As saxpath.run_stream, plus the observations.  -> (results per request, obs)
    obs = dict(reads=[state after each read...], outs=[(via_sax, raw message)...], fed=[bytes per reply, oldest first],
               raised=[bool per reply: a feed() raised], died=exception class name or None)
    state = (kind 0 SAX / 1 DOM, _held, _head, buffer (DOM: without leading white space), number of messages dispatched,
             length of what the current reply's parser was given)"""
    from ncclient.transport.third_party.junos import parser as P
    log = _new_log()
    orig = P.make_parser
    P.make_parser = _rec_parser_class()
    try:
        s, dh = _obs_session(log, use_filter, base)
        if id0: H._install(id0 + 1)
        objs = H.issue_requests(s, dh, filters, forms)
        s.segments = list(segments)
        s.run()
    finally:
        P.make_parser = orig
    res = H.collect_results(objs, dh)
    return res, log

# ------------------------------------------------------------------ several sessions in one process, reads interleaved
class _Turn:
    """Hand-over between the scheduler and one session's worker: the worker runs the real Session.run; in
    _transport_read it reports 'back at the read' and waits for its next turn.  Exactly one thread runs at a time, so
    the whole run is deterministic: the scheduler decides which session's parser gets the next read."""
    def __init__(self):
        import threading
        self.go = threading.Semaphore(0); self.idle = threading.Semaphore(0); self.done = False
    def wait_turn(self):
        self.idle.release()
        if not self.go.acquire(timeout=30): raise RuntimeError('scheduler gone')
    def give(self, log):
        """let the worker take its next read and process it (returns when it is back at the read, or has ended)"""
        if self.done: return
        _cur['log'] = log
        self.go.release()
        if not self.idle.acquire(timeout=30): raise RuntimeError('session worker does not come back')

def run_sessions_obs(specs, order, use_filter=True):
    """Several Junos-profile sessions in ONE process (what an application polling several devices has), their reads
    interleaved as `order` says: order = list of session indices, each entry gives that session's worker its next
    read segment (entries for a session that has none left are skipped; segments left over when the order is used up
    are handed out session by session).  specs[k] = dict(segments, filters, forms, base, id0): as run_stream_obs; all
    sessions are created first, then all requests issued (filter objects reused ACROSS sessions: equal filters are
    the same str/bytes object, form 'shared' the same lxml element), then the reads.  End of stream for all at the end.
    -> [(results per request, obs) per session]"""
    import threading
    from ncclient.transport.third_party.junos import parser as P
    orig = P.make_parser
    P.make_parser = _rec_parser_class()
    logs, turns, sess, objs, threads = [], [], [], [], []
    try:
        for sp in specs:
            log, turn = _new_log(), _Turn()
            s, dh = _obs_session(log, use_filter, sp.get('base', 10), turn)
            logs.append(log); turns.append(turn); sess.append((s, dh))
        shared = {}
        for (s, dh), sp, log in zip(sess, specs, logs):
            _cur['log'] = log
            H._install(sp.get('id0', 0) + 1)
            objs.append(H.issue_requests(s, dh, sp['filters'], sp.get('forms'), shared))
            s.segments = list(sp['segments'])
        for (s, dh), turn, log in zip(sess, turns, logs):
            def body(s=s, turn=turn):
                try: s.run()
                finally:
                    turn.done = True; turn.idle.release()
            t = threading.Thread(target=body, daemon=True); threads.append(t)
            _cur['log'] = log
            t.start()
            if not turn.idle.acquire(timeout=30): raise RuntimeError('session worker does not start')
        for k in order:
            if sess[k][0].segments: turns[k].give(logs[k])
        for k in range(len(specs)):
            while sess[k][0].segments and not turns[k].done: turns[k].give(logs[k])
        for k in range(len(specs)):
            turns[k].give(logs[k])                     # end of stream
            threads[k].join(30)
    finally:
        P.make_parser = orig
    return [(H.collect_results(o, dh), log) for o, (s, dh), log in zip(objs, sess, logs)]

# ------------------------------------------------------------------ oracle side of the model
def split_pieces(stream):
    """the stream split at every delimiter (leftmost, non-overlapping); the last element follows the last delimiter"""
    return stream.split(DELIM)

def expat_script(data):
    """real expat fed octet by octet: for each octet the list of SAX events it completes (as c18.events_val wants
    them), None from the octet expat rejects on"""
    from xml.sax import make_parser
    from xml.sax.handler import ContentHandler
    from xml.sax._exceptions import SAXParseException
    cur = []
    class Rec(ContentHandler):
        def startElement(self, tag, attributes): cur.append(('S', tag, [(k, attributes[k]) for k in attributes.keys()]))
        def endElement(self, tag): cur.append(('E', tag))
        def characters(self, content): cur.append(('C', content))
    p = make_parser(); p.setContentHandler(Rec())
    out = []
    for i in range(len(data)):
        del cur[:]
        try:
            p.feed(data[i:i + 1])
        except SAXParseException:
            out.append(None); break
        out.append(list(cur))
    return out

def well_formed(msg):
    """Does Session._dispatch_message get a root out of this message (ncclient.xml_.parse_root reads the root's start
    tag only)?  The verdict is the library's own: it is part of the environment of the driver, like expat."""
    from ncclient.xml_ import parse_root
    try:
        parse_root(msg.decode('utf-8').strip())
        return True
    except Exception:
        return False

def world_for(stream, ids, filters, env_val, events_val):
    """The oracle argument of the model for this stream: one entry per piece.  ids/filters: the requests outstanding at
    the start (message-id -> filter string or None), replies are delivered (and their id dropped) in stream order.
    env_val/events_val: the encoders of props/c18.py."""
    table = dict(zip(ids, filters))
    world = []
    for piece in split_pieces(stream):
        body = piece.lstrip(WS)
        script = expat_script(body)
        enc = [[] if e is None else [events_val(e)] for e in script]
        world.append([env_val(dict(table), True), enc, 1 if well_formed(body) or not body else 0])
        # the reply delivered: its id is no longer outstanding
        try:
            mid = ET.fromstring(body.decode('utf-8')).get('message-id')
            table.pop(mid, None)
        except Exception:
            pass
    return world

def world_for11(messages, ids, filters, env_val, events_val):
    """base:1.1: one entry per (complete, de-chunked) message of the stream, as the harness framed them -- no ncclient
    code involved; the script is that of the whole message (nothing is stripped)."""
    table = dict(zip(ids, filters))
    world = []
    for body in list(messages) + [b'']:
        enc = [[] if e is None else [events_val(e)] for e in expat_script(body)]
        world.append([env_val(dict(table), True), enc, 1])
        try:
            table.pop(ET.fromstring(body.decode('utf-8')).get('message-id'), None)
        except Exception:
            pass
    return world

def compare11(mres, log):
    """base:1.1: model result (glue fn 5) vs the observations.  Per read: the Junos parser is still the session's parser
    with nothing held, the session buffer (octets not yet de-chunked), the chunks of the message in progress, the number of
    messages dispatched; at the end: the messages (handler output stripped / the message as received), the octets each
    message's XML parser was given."""
    mreads, mouts, mfed = mres
    for i, m in enumerate(mreads):
        if m[0] == 2:
            if len(log['reads']) > i or log['died'] is None:
                return ('read %d: model says the session ends (exception %d), the implementation went on' % (i, m[1]), m, log['died'])
            break
        if i >= len(log['reads']):
            return ('read %d: the implementation ended the session (%s), the model goes on' % (i, log['died']), m, log['died'])
        mm = (5, b'', b'', bytes(m[2]), bytes(m[3]), m[4])
        if mm != tuple(log['reads'][i]):
            return ('read %d (base:1.1): state after the read differs (parser, held, head, buffer, chunks in progress, #dispatched)' % i,
                    list(mm), list(log['reads'][i]))
    else:
        if len(log['reads']) != len(mreads):
            return ('number of reads processed', len(mreads), len(log['reads']))
    mo = [(bool(v), bytes(b).decode('utf-8', 'replace').strip().encode() if v else bytes(b)) for v, b in mouts]
    io_ = [(v, (b if isinstance(b, bytes) else b.encode())) for v, b in log['outs']]
    if mo != io_:
        return ('messages dispatched (base:1.1)', mo, io_)
    mf = [bytes(b) for b in reversed(mfed)]
    if len(mf) != len(log['fed']):
        return ('number of messages given to an XML parser', len(mf), len(log['fed']))
    for k, (a, b, r) in enumerate(zip(mf, log['fed'], log['raised'])):
        if (a != b) if not r else (not b.startswith(a)):
            return ('octets given to the XML parser of message %d' % k, a, b)
    return None

def lens_of(stream, cuts):
    """read lengths for the model's `segments` from cut offsets"""
    if cuts == 'bytewise': return [1] * (len(stream) - 1)
    cs = sorted(set(c for c in cuts if 0 < c < len(stream)))
    return [b - a for a, b in zip([0] + cs, cs)]

def compare(mres, log):
    """model result (decoded val of run_driver) vs observations of the implementation.
    -> None if they agree, else (what, model, impl).  Reads after the model left its domain (kind 3) are not compared."""
    mreads, mouts, mfed = mres
    for i, m in enumerate(mreads):
        kind = m[0]
        if kind == 3:
            return None                                  # outside the model from here on (expat rejected, ...)
        if kind == 4:
            return ('model out of fuel', m, None)
        if kind == 2:
            # the session thread ended: no state after this read on the implementation
            if len(log['reads']) > i or log['died'] is None:
                return ('read %d: model says the session ends (exception %d), the implementation went on' % (i, m[1]), m, log['died'])
            break
        if i >= len(log['reads']):
            return ('read %d: the implementation ended the session (%s), the model goes on' % (i, log['died']), m, log['died'])
        st = log['reads'][i]
        mm = (m[0], m[2], m[3], m[4], m[5], m[6])
        if mm[:5] != st[:5]:
            return ('read %d: state after the read differs (kind, held, head, buffer, #dispatched)' % i, list(mm), list(st))
        if (mm[5] != st[5]) if not st[6] else (mm[5] > st[5]):
            return ('read %d: octets given to the XML parser of the current reply' % i, mm[5], st[5])
    else:
        if len(log['reads']) != len(mreads):
            return ('number of reads processed', len(mreads), len(log['reads']))
    mo = [(bool(v), bytes(b)) for v, b in mouts]
    io_ = [(v, (b if isinstance(b, bytes) else b.encode())) for v, b in log['outs']]
    # the implementation dispatches the decoded, stripped text
    mo = [(v, b.decode('utf-8', 'replace').strip().encode()) for v, b in mo]
    if mo != io_:
        return ('messages dispatched', mo, io_)
    mf = [bytes(b) for b in reversed(mfed)]
    if len(mf) != len(log['fed']):
        return ('number of replies started', len(mf), len(log['fed']))
    for k, (a, b, r) in enumerate(zip(mf, log['fed'], log['raised'])):
        if (a != b) if not r else (not b.startswith(a)):
            return ('octets given to the XML parser of reply %d (no octet of a delimiter may be among them)' % k, a, b)
    return None
