"""C07, vendor operation classes (ncclient/operations/third_party/*/rpc.py) reached through a real Manager made with
the device profile that ships them.  Model: coq/Model/VendorBuilders.v (runner fn 6/7, coq/Glue/C07_glue.v);
spec: coq/Spec/VendorSchema.v.  A case is {'profile', 'vop' (Manager method), 'args'}; the captured message is read by
the independent reader (expat) and compared (a) with the model's tree, (b) with the oracle below: the vendor schema
"as shipped" (element names, namespaces, attribute sets, child order) written here as data, and a path assertion for
every caller string / fragment.  ncclient and props.c07 are imported lazily."""
import json

B = 'urn:ietf:params:xml:ns:netconf:base:1.0'
YANG = 'urn:ietf:params:xml:ns:yang:1'
SROS_OPS = 'urn:nokia.com:sros:ns:yang:sr:oper-global'
SROS_AUG = 'urn:nokia.com:sros:ns:yang:sr:ietf-netconf-augments'
HW = 'http://www.huawei.com/netconf/capability/base/1.0'
NXOS = 'http://www.cisco.com/nxos:1.0'
CISCO_IA = 'http://cisco.com/yang/cisco-ia'

# (profile, Manager method) in constructor order of VendorBuilders.vcall: the index is the model tag
VOPS = [('junos', 'command'), ('junos', 'get_configuration'), ('junos', 'load_configuration'), ('junos', 'compare_configuration'),
        ('junos', 'rpc'), ('junos', 'reboot'), ('junos', 'halt'), ('junos', 'commit'), ('junos', 'rollback'),
        ('sros', 'md_cli_raw_command'), ('sros', 'commit'),
        ('alu', 'show_cli'), ('alu', 'get_configuration'), ('alu', 'load_configuration'),
        ('h3c', 'get_bulk'), ('h3c', 'get_bulk_config'), ('h3c', 'cli'), ('h3c', 'action'), ('h3c', 'save'), ('h3c', 'load'), ('h3c', 'rollback'),
        ('hpcomware', 'cli_display'), ('hpcomware', 'cli_config'), ('hpcomware', 'action'), ('hpcomware', 'save'), ('hpcomware', 'rollback'),
        ('huawei', 'cli'), ('huawei', 'action'), ('iosxe', 'save_config'), ('nexus', 'exec_command')]
TAG = {pv: i for i, pv in enumerate(VOPS)}
CLASS = {('junos', 'command'): 'juniper.Command', ('junos', 'get_configuration'): 'juniper.GetConfiguration',
         ('junos', 'load_configuration'): 'juniper.LoadConfiguration', ('junos', 'compare_configuration'): 'juniper.CompareConfiguration',
         ('junos', 'rpc'): 'juniper.ExecuteRpc', ('junos', 'reboot'): 'juniper.Reboot', ('junos', 'halt'): 'juniper.Halt',
         ('junos', 'commit'): 'juniper.Commit', ('junos', 'rollback'): 'juniper.Rollback',
         ('sros', 'md_cli_raw_command'): 'sros.MdCliRawCommand', ('sros', 'commit'): 'sros.Commit',
         ('alu', 'show_cli'): 'alu.ShowCLI', ('alu', 'get_configuration'): 'alu.GetConfiguration', ('alu', 'load_configuration'): 'alu.LoadConfiguration',
         ('h3c', 'get_bulk'): 'h3c.GetBulk', ('h3c', 'get_bulk_config'): 'h3c.GetBulkConfig', ('h3c', 'cli'): 'h3c.CLI', ('h3c', 'action'): 'h3c.Action',
         ('h3c', 'save'): 'h3c.Save', ('h3c', 'load'): 'h3c.Load', ('h3c', 'rollback'): 'h3c.Rollback',
         ('hpcomware', 'cli_display'): 'hpcomware.DisplayCommand', ('hpcomware', 'cli_config'): 'hpcomware.ConfigCommand',
         ('hpcomware', 'action'): 'hpcomware.Action', ('hpcomware', 'save'): 'hpcomware.Save', ('hpcomware', 'rollback'): 'hpcomware.Rollback',
         ('huawei', 'cli'): 'huawei.CLI', ('huawei', 'action'): 'huawei.Action', ('iosxe', 'save_config'): 'iosxe.SaveConfig',
         ('nexus', 'exec_command'): 'nexus.ExecCommand'}
PREFIXED = {'junos', 'iosxe'}

def c07():
    import importlib
    return importlib.import_module('props.c07')

class NoModel(Exception): pass

# ---------------- generators ----------------
def gen_frag(rng, root=None):
    """a caller document that does not use the base namespace (that class is the open finding C07-envelope-binding-shadowed)"""
    return c07().gen_fragment(rng, root=root, ns_choice=rng.choice(['none', 'none', 'default', 'prefix']))

def gen_doc(rng, kinds=('str', 'ele'), root=None):
    return {'xml': gen_frag(rng, root), 'as': rng.choice(kinds)}

def opt(rng, f, p=0.6): return f() if rng.random() < p else None

def gen_timeout(rng):
    r = rng.random()
    if r < 0.15: return None
    if r < 0.45: return rng.choice([0, 1, 59, 60, 61, 119, 120, 121, 600, -1, -59, -60, -61, rng.randint(-10**6, 10**9), rng.randint(0, 10**12)])
    if r < 0.85: return rng.choice(['0', '1', '60', '61', '600', '-61', ' 125 ', '+5', '1_0', '٣', '007', str(rng.randint(0, 10**9))])
    return rng.choice(['', 'x', '1.5', '0x10', '1e3', '12a', ' ', '--1'])

def gen_vcase(rng, profile, vop):
    G = c07()
    S = lambda n=8: G.gen_str(rng, n)
    fmt = lambda: rng.choice(['xml', 'text', 'json', 'set', '', S(3)])
    a = {}
    pv = (profile, vop)
    if pv == ('junos', 'command'): a = dict(command=opt(rng, S, 0.9), format=rng.choice(['xml', 'text', 'json', S(3)]))
    elif pv == ('junos', 'get_configuration'):
        a = dict(format=fmt(), filter=opt(rng, lambda: gen_doc(rng, ('ele', 'ele', 'ele', 'str'), rng.choice(['configuration', None])), 0.6))
    elif pv == ('junos', 'load_configuration'):
        r = rng.random()
        if r < 0.06: cfg = None
        elif r < 0.40: cfg = gen_doc(rng, ('ele',), rng.choice(['configuration', 'system', None]))
        elif r < 0.75: cfg = S(12)
        else: cfg = [S(5) for _ in range(rng.randint(0, 4))]
        f = rng.choice(['xml', 'xml', 'text', 'text', 'json', 'bogus', 'XML', '', 'set'])
        if isinstance(cfg, dict) and rng.random() < 0.8: f = 'xml'
        a = dict(format=f, action=rng.choice(['merge', 'merge', 'override', 'replace', 'update', 'set', 'set', 'patch', 'Set', S(3)]), config=cfg)
        if rng.random() < 0.3: a['target'] = rng.choice(['candidate', 'running', S(3)])
    elif pv == ('junos', 'compare_configuration'): a = dict(rollback=rng.choice([0, 1, 49, rng.randint(0, 10**6), S(3)]), format=rng.choice(['text', 'xml', S(3)]))
    elif pv == ('junos', 'rpc'):
        a = dict(rpc=rng.choice([gen_doc(rng), gen_doc(rng), {'xml': '<get-software-information/>', 'as': 'str'}, {'xml': '<a', 'as': 'str'}, {'xml': 'x<a/>', 'as': 'str'}]))
        if rng.random() < 0.3: a['filter_xml'] = rng.choice(['configuration/system', S(3)])
    elif pv == ('junos', 'commit'):
        a = dict(confirmed=rng.random() < 0.5, timeout=gen_timeout(rng), comment=opt(rng, S, 0.5), synchronize=rng.random() < 0.4,
                 at_time=opt(rng, lambda: rng.choice(['12:00', '2030-01-01 00:00:00', S(4)]), 0.35), check=rng.random() < 0.3)
    elif pv == ('junos', 'rollback'): a = dict(rollback=rng.choice([0, 1, 2, rng.randint(0, 10**6), S(3)]))
    elif pv == ('sros', 'md_cli_raw_command'): a = dict(command=opt(rng, S, 0.92))
    elif pv == ('sros', 'commit'):
        a = dict(confirmed=rng.random() < 0.6, timeout=opt(rng, lambda: rng.choice(['600', '0', S()])), persist=opt(rng, S, 0.4),
                 persist_id=opt(rng, S, 0.3), comment=opt(rng, lambda: rng.choice([S(), S(), ' ', '', '\t\n', ' ', '​', ' x ', '\xa0']), 0.6))
    elif pv == ('alu', 'show_cli'): a = dict(command=opt(rng, S, 0.92))
    elif pv == ('alu', 'get_configuration'):
        content = rng.choice(['xml', 'xml', 'cli', 'cli', 'cli', '', 'json', 'CLI'])
        r = rng.random()
        if r < 0.15: f = None
        elif content == 'xml': f = rng.choice([gen_doc(rng), gen_doc(rng), gen_doc(rng), {'xml': '<a', 'as': 'str'}])
        elif content == 'cli': f = rng.choice([[S(5) for _ in range(rng.randint(0, 4))], [S(5)], S(3)])
        else: f = rng.choice([[S(5)], gen_doc(rng)])
        a = dict(content=content, filter=f, detail=rng.random() < 0.5)
    elif pv == ('alu', 'load_configuration'):
        f = rng.choice(['xml', 'xml', 'cli', 'cli', 'cli', '', 'text', 'CLI'])
        r = rng.random()
        if r < 0.08: cfg = None
        elif f == 'xml': cfg = gen_doc(rng, ('ele', 'ele', 'ele', 'str'), rng.choice(['configure', None]))
        elif f == 'cli': cfg = S(12) if rng.random() < 0.9 else gen_doc(rng, ('ele',))
        else: cfg = rng.choice([S(5), gen_doc(rng, ('ele',))])
        a = dict(format=f, default_operation=opt(rng, lambda: rng.choice(['merge', 'replace', 'none', 'get', '', S(3)]), 0.5),
                 target=G.gen_ds(rng, 0.05), config=cfg)
    elif pv == ('h3c', 'get_bulk'): a = dict(filter=vfilter(rng))
    elif pv == ('h3c', 'get_bulk_config'): a = dict(source=G.gen_ds(rng), filter=vfilter(rng))
    elif vop in ('cli', 'action') and profile in ('h3c', 'hpcomware', 'huawei'):
        k = 'command' if vop == 'cli' else 'action'
        roots = {'h3c': ['Execution', 'Configuration', None], 'huawei': ['cmd', None]}.get(profile, [None]) if vop == 'cli' else ['top', None]
        a = {k: rng.choice([gen_doc(rng, root=rng.choice(roots))] * 6 + [{'xml': '<a', 'as': 'str'}, {'xml': '', 'as': 'str'}, None])}
    elif pv in (('h3c', 'save'), ('h3c', 'load'), ('h3c', 'rollback')): a = dict(file=opt(rng, lambda: rng.choice(['startup.cfg', S()]), 0.9))
    elif pv in (('hpcomware', 'save'), ('hpcomware', 'rollback')): a = dict(filename=opt(rng, lambda: rng.choice(['startup.cfg', S()]), 0.9))
    elif pv in (('hpcomware', 'cli_display'), ('hpcomware', 'cli_config')):
        a = dict(cmds=rng.choice([S(12), [S(5) for _ in range(rng.randint(0, 4))]]))
    elif pv == ('nexus', 'exec_command'): a = dict(cmds=rng.choice([[S(5) for _ in range(rng.randint(0, 4))], [S(8)], S(3)]))
    return {'profile': profile, 'vop': vop, 'args': a}

def vfilter(rng):
    """filters of util.build_filter whose raw form is rooted at a bare or base-namespace <filter>"""
    G = c07()
    while True:
        f = G.gen_filter(rng)
        if f and f['kind'] == 'raw' and B in f['xml'] and 'nc:' in f['xml']: continue     # a prefixed base-namespace root: same tree, kept simple
        return f

STR_KEYS = {('junos', 'command'): ['command', 'format'], ('junos', 'get_configuration'): ['format'], ('junos', 'load_configuration'): ['action', 'config'],
            ('junos', 'compare_configuration'): ['rollback', 'format'], ('junos', 'commit'): ['comment', 'at_time'], ('junos', 'rollback'): ['rollback'],
            ('sros', 'md_cli_raw_command'): ['command'], ('sros', 'commit'): ['timeout', 'persist', 'persist_id', 'comment'],
            ('alu', 'show_cli'): ['command'], ('alu', 'load_configuration'): ['default_operation', 'config'],
            ('h3c', 'save'): ['file'], ('h3c', 'load'): ['file'], ('h3c', 'rollback'): ['file'], ('hpcomware', 'save'): ['filename'], ('hpcomware', 'rollback'): ['filename'],
            ('hpcomware', 'cli_display'): ['cmds'], ('hpcomware', 'cli_config'): ['cmds']}

def gen_vinvalid(rng, profile, vop):
    """one string argument replaced by a string lxml refuses (NUL, C0 control, U+FFFE/FFFF, lone surrogate)"""
    G = c07()
    c = gen_vcase(rng, profile, vop)
    keys = STR_KEYS.get((profile, vop))
    bad = rng.choice(G.INVALID_STR[:8])
    if (profile, vop) in (('nexus', 'exec_command'),):
        c['args']['cmds'] = [G.gen_str(rng, 3), bad]; c['invalid'] = 'cmds'; return c
    if (profile, vop) == ('alu', 'get_configuration'):
        c['args'].update(content='cli', filter=[bad]); c['invalid'] = 'filter'; return c
    if not keys: return None
    k = rng.choice(keys)
    if k == 'config':
        if (profile, vop) == ('junos', 'load_configuration'): c['args'].update(format=rng.choice(['text', 'json']))
        else: c['args'].update(format='cli')
    if k in ('comment', 'at_time') and profile == 'junos' and k == 'at_time': c['args']['confirmed'] = False
    if profile == 'sros' and k in ('timeout', 'persist'): c['args']['confirmed'] = True
    c['args'][k] = bad
    c['invalid'] = k
    return c

def gen_vendor_cases(rng, tier):
    cases = fixed_cases()
    per = 14 if tier == 'quick' else 220
    for (profile, vop) in VOPS:
        k = 1 if vop in ('reboot', 'halt', 'save_config') else per
        if (profile, vop) in (('junos', 'load_configuration'), ('junos', 'commit'), ('sros', 'commit'), ('alu', 'get_configuration'), ('alu', 'load_configuration')): k *= 2
        for _ in range(k): cases.append(gen_vcase(rng, profile, vop))
        for _ in range(max(1, k // 5)):
            c = gen_vinvalid(rng, profile, vop)
            if c: cases.append(c)
    return cases

def fixed_cases():
    """the unit tests' and the examples' own calls, and the corner of every switch"""
    E = lambda x: {'xml': x, 'as': 'ele'}
    T = lambda x: {'xml': x, 'as': 'str'}
    J, S_, A = 'junos', 'sros', 'alu'
    cs = [
        (J, 'command', dict(command='show version', format='text')), (J, 'command', dict()), (J, 'command', dict(command='', format='xml')),
        (J, 'command', dict(command='show <x> & "y" ]]>\r\n\t', format='a"b<\n')),
        (J, 'get_configuration', dict()), (J, 'get_configuration', dict(format='text', filter=E('<configuration><system/></configuration>'))),
        (J, 'get_configuration', dict(format='xml', filter=T('<configuration><system/></configuration>'))),
        (J, 'load_configuration', dict(config=E('<configuration><system><location><floor>7</floor></location></system></configuration>'))),
        (J, 'load_configuration', dict(format='json', action='merge', config='{"configuration": {"system": {"location": {"floor": "7"}}}}')),
        (J, 'load_configuration', dict(format='text', action='set', config='set system location floor 7')),
        (J, 'load_configuration', dict(format='text', action='merge', config='system {\n location {\n floor 7;\n }\n}')),
        (J, 'load_configuration', dict(format='text', action='set', config=['set system location floor 7', 'set system location rack 8'])),
        (J, 'load_configuration', dict(format='xml', action='set', config='set a <b> & c')), (J, 'load_configuration', dict(config=[], format='text')),
        (J, 'load_configuration', dict(config=['a'], format='json')), (J, 'load_configuration', dict(config='<system/>')),
        (J, 'load_configuration', dict(config=E('<a/>'), format='text')), (J, 'load_configuration', dict(config=E('<a/>'), format='json')),
        (J, 'load_configuration', dict(config='x', format='bogus')), (J, 'load_configuration', dict(config='x', format='bogus', action='set')),
        (J, 'load_configuration', dict(config='x', format='set')), (J, 'load_configuration', dict()), (J, 'load_configuration', dict(format='text', action='override')),
        (J, 'load_configuration', dict(config=E('<a/>'), action='x\x00')), (J, 'load_configuration', dict(config='x', format='bogus', action='x\x00')),
        (J, 'compare_configuration', dict()), (J, 'compare_configuration', dict(rollback=2)), (J, 'compare_configuration', dict(rollback='a<b"', format='xml')),
        (J, 'rpc', dict(rpc=T('<get-software-information/>'))), (J, 'rpc', dict(rpc=E('<get-x xmlns="urn:j"><a>1</a></get-x>'), filter_xml='x')),
        (J, 'reboot', dict()), (J, 'halt', dict()),
        (J, 'commit', dict(confirmed=True, comment='message', timeout='50')), (J, 'commit', dict()), (J, 'commit', dict(check=True)),
        (J, 'commit', dict(at_time='1111-11-11 00:00:00', synchronize=True)), (J, 'commit', dict(confirmed=True, at_time='12:00')),
        (J, 'commit', dict(confirmed=True, timeout=61)), (J, 'commit', dict(confirmed=True, timeout='x')), (J, 'commit', dict(confirmed=False, timeout='x', comment='')),
        (J, 'commit', dict(confirmed=True, timeout=-61, comment='a<b', synchronize=True, check=True)),
        (J, 'rollback', dict()), (J, 'rollback', dict(rollback=1)), (J, 'rollback', dict(rollback='x"y')),
        (S_, 'md_cli_raw_command', dict(command='show version')), (S_, 'md_cli_raw_command', dict()),
        (S_, 'commit', dict(confirmed=True, comment='This is a comment', timeout='50')), (S_, 'commit', dict(comment='  ', persist_id='p')),
        (S_, 'commit', dict(persist='a', persist_id='p')), (S_, 'commit', dict(comment='x\x00', persist='a', persist_id='p')), (S_, 'commit', dict()),
        (A, 'show_cli', dict(command='show version')), (A, 'show_cli', dict()),
        (A, 'get_configuration', dict()), (A, 'get_configuration', dict(filter=E('<configure xmlns="urn:alcatel-lucent.com:sros:ns:yang:conf-r13"><system/></configure>'))),
        (A, 'get_configuration', dict(content='xml', filter=T('<get>device-name</get>'))), (A, 'get_configuration', dict(content='cli', filter=['port 1/1/11'])),
        (A, 'get_configuration', dict(content='cli', filter=['port 1/1/11'], detail=True)), (A, 'get_configuration', dict(content='cli', filter=[])),
        (A, 'get_configuration', dict(content='cli', filter='ab')), (A, 'get_configuration', dict(content='xml', filter=['system'])),
        (A, 'get_configuration', dict(content='', filter=['system'], detail=True)), (A, 'get_configuration', dict(content='bogus')),
        (A, 'load_configuration', dict()), (A, 'load_configuration', dict(format='xml', default_operation='')), (A, 'load_configuration', dict(format='xml', default_operation='get')),
        (A, 'load_configuration', dict(format='xml', default_operation='merge', target='candidate', config=E('<configure xmlns="urn:alu"><system/></configure>'))),
        (A, 'load_configuration', dict(format='cli', default_operation='get', config='device-name')), (A, 'load_configuration', dict(format='cli', config='configure <x>', target='candidate')),
        (A, 'load_configuration', dict(config='<configure/>')), (A, 'load_configuration', dict(format='bogus', config='x', default_operation='merge')),
        (A, 'load_configuration', dict(format='cli', config='c', target='a b')), (A, 'load_configuration', dict(format='xml', config=E('<a/>'), target='ftp://x/y')),
        ('h3c', 'get_bulk', dict()), ('h3c', 'get_bulk_config', dict(source='running')), ('h3c', 'cli', dict(command=T('<Execution>display version</Execution>'))),
        ('h3c', 'cli', dict()), ('h3c', 'action', dict(action=T('<top xmlns="http://www.h3c.com/netconf/action:1.0"><a/></top>'))),
        ('h3c', 'save', dict(file='a<b.cfg')), ('h3c', 'save', dict()), ('h3c', 'load', dict(file='x')), ('h3c', 'rollback', dict(file='x')),
        ('hpcomware', 'cli_display', dict(cmds='display version')), ('hpcomware', 'cli_display', dict(cmds=['a', 'b<'])), ('hpcomware', 'cli_display', dict(cmds=[])),
        ('hpcomware', 'cli_config', dict(cmds=['vlan 1', 'name x'])), ('hpcomware', 'action', dict(action=T('<top><a/></top>'))),
        ('hpcomware', 'save', dict(filename='f')), ('hpcomware', 'rollback', dict()),
        ('huawei', 'cli', dict(command=T('<cmd><id>1</id><cmdline>display version</cmdline></cmd>'))), ('huawei', 'cli', dict(command=E('<p:cmd xmlns:p="urn:x"><id>1</id></p:cmd>'))),
        ('huawei', 'action', dict(action=T('<ethernet xmlns="http://www.huawei.com/netconf/vrp"><a/></ethernet>'))),
        ('iosxe', 'save_config', dict()), ('nexus', 'exec_command', dict(cmds=['show version', 'a<b'])), ('nexus', 'exec_command', dict(cmds=[])), ('nexus', 'exec_command', dict(cmds='ab')),
    ]
    return [{'profile': p, 'vop': v, 'args': a} for p, v, a in cs]

def vendor_shadow_cases():
    """open finding C07-envelope-binding-shadowed in the guise of the xmlns-attribute idiom (R2): lxml believes the envelope's
    default-namespace declaration is in scope and drops the fragment's own declaration of the base namespace"""
    return [{'profile': 'huawei', 'vop': 'cli', 'args': {'command': {'xml': '<cmd xmlns="%s"><id>1</id></cmd>' % B, 'as': 'str'}}}]

# ---------------- case -> python call ----------------
def to_python(case):
    G = c07()
    kw = {}
    for k, v in case['args'].items():
        if k == 'filter' and case['profile'] == 'h3c': kw[k] = G.py_filter(v)
        else: kw[k] = G.py_value(v)
    return case['vop'], kw

def impl_run(case, profile=None):
    from harness import capture
    m, s = capture.make_manager(profile or case['profile'], c07().FULL_CAPS)
    method, kw = to_python(case)
    return capture.call(m, s, method, kwargs=kw)

# ---------------- case -> model call (Glue/C07_glue.v, fn 6) ----------------
def b(s):
    if not isinstance(s, str): raise NoModel()
    return s.encode('utf-8', 'surrogatepass')
def ostr(s): return [] if s is None else [b(s)]
def is_doc(v): return isinstance(v, dict) and 'xml' in v

def enc_docarg(v):
    """validated_element(v) / to_ele(v): element or str document"""
    G = c07()
    if v is None: return [1, G.EXC['AttributeError']]
    if not is_doc(v): raise NoModel()
    t = G.parse_frag(v['xml'])
    if t is None: return [1, G.EXC['XMLSyntaxError']]
    from harness import capture
    return [0, capture.enc_tree(t)]

def enc_elarg(v):
    """an argument the code appends / assigns without conversion: an lxml element or a str"""
    from harness import capture
    if is_doc(v):
        if v['as'] == 'ele': return [0, capture.enc_tree(c07().parse_frag(v['xml']))]
        return [1, b(v['xml'])]
    return [1, b(v)]

def py_int(t):
    """Python's verdict on int(timeout) — an oracle input of the model"""
    if t is None: return []
    if isinstance(t, bool) or not isinstance(t, (int, str)): raise NoModel()
    try: z = int(t) if isinstance(t, str) else t
    except ValueError: return [2]
    return [1, 1 if z < 0 else 0, abs(z)]

def chars(s): return [b(ch) for ch in s]
def strlist(v):
    if isinstance(v, str): return chars(v)            # a str where the code iterates is the list of its characters
    if isinstance(v, list): return [b(x) for x in v]
    raise NoModel()

def to_model(case):
    G = c07()
    p, v, a = case['profile'], case['vop'], case['args']
    tag = TAG[(p, v)]
    g = a.get
    if (p, v) == ('junos', 'command'): return [tag, ostr(g('command')), b(g('format', 'xml'))]
    if (p, v) == ('junos', 'get_configuration'):
        f = g('filter')
        return [tag, b(g('format', 'xml')), [] if f is None else [enc_elarg(f)]]
    if (p, v) == ('junos', 'load_configuration'):
        cfg = g('config')
        if cfg is None: c = []
        elif isinstance(cfg, list): c = [1, [b(x) for x in cfg]]
        else: c = [0, enc_elarg(cfg)]
        return [tag, b(g('format', 'xml')), b(g('action', 'merge')), c]
    if (p, v) == ('junos', 'compare_configuration'): return [tag, b(str(g('rollback', 0))), b(g('format', 'text'))]
    if (p, v) == ('junos', 'rpc'): return [tag, enc_docarg(a['rpc'])]
    if v in ('reboot', 'halt', 'save_config'): return [tag]
    if (p, v) == ('junos', 'commit'):
        return [tag, 1 if g('confirmed') else 0, py_int(g('timeout')), ostr(g('comment')), 1 if g('synchronize') else 0, ostr(g('at_time')), 1 if g('check') else 0]
    if (p, v) == ('junos', 'rollback'): return [tag, b(str(g('rollback', 0)))]
    if (p, v) == ('sros', 'md_cli_raw_command'): return [tag, ostr(g('command'))]
    if (p, v) == ('sros', 'commit'):
        cm = g('comment')
        if cm is not None and not isinstance(cm, str): raise NoModel()
        return [tag, 1 if g('confirmed') else 0, ostr(g('timeout')), ostr(g('persist')), ostr(g('persist_id')), ostr(cm), 1 if (cm and cm.strip()) else 0]
    if (p, v) == ('alu', 'show_cli'): return [tag, ostr(g('command'))]
    if (p, v) == ('alu', 'get_configuration'):
        f, content = g('filter'), g('content', 'xml')
        if f is None: fl = []
        elif is_doc(f) and not (content == 'cli' and f['as'] == 'str'): fl = [[0, enc_docarg(f)]]
        elif is_doc(f): fl = [[1, chars(f['xml'])]]
        else: fl = [[1, strlist(f)]]
        return [tag, b(content), fl, 1 if g('detail') else 0]
    if (p, v) == ('alu', 'load_configuration'):
        cfg = g('config')
        return [tag, b(g('format', 'xml')), ostr(g('default_operation')), G.enc_ds(g('target', 'running')), [] if cfg is None else [enc_elarg(cfg)]]
    if (p, v) == ('h3c', 'get_bulk'): return [tag, G.enc_filter(g('filter'))]
    if (p, v) == ('h3c', 'get_bulk_config'): return [tag, G.enc_ds(a['source']), G.enc_filter(g('filter'))]
    if v == 'cli': return [tag, enc_docarg(g('command'))]
    if v == 'action': return [tag, enc_docarg(g('action'))]
    if p == 'h3c': return [tag, ostr(g('file'))]
    if (p, v) in (('hpcomware', 'save'), ('hpcomware', 'rollback')): return [tag, ostr(g('filename'))]
    if p == 'hpcomware':
        c = a['cmds']
        return [tag, [1, [b(x) for x in c]] if isinstance(c, list) else [0, b(c)]]
    if (p, v) == ('nexus', 'exec_command'): return [tag, strlist(a['cmds'])]
    raise NoModel()

# ---------------- oracle: the vendor schema as shipped + path assertions ----------------
def EL(q, attrs=(), text=False, slots=()): return ('el', q, list(attrs), text, list(slots))
ANY = ('any',)
def NAMED(q): return ('named', q)
def one(*alts): return (False, list(alts))
def many(*alts): return (True, list(alts))
def leafq(ns, name): return EL((ns, name), text=True)

def filter_shape(ns=B):
    return [EL((ns, 'filter'), ['type'], False, [many(ANY)]), EL((ns, 'filter'), ['select', 'type']), NAMED((ns, 'filter'))]
def ds_shape(ns, wha): return EL((ns, wha), slots=[one(ANY)])

def schema(case):
    """the operation element the vendor's documentation / the shipped unit tests describe, as the reader must see it"""
    p, v = case['profile'], case['vop']
    pv = (p, v)
    if pv == ('junos', 'command'): return EL((B, 'command'), ['format'], True)
    if pv == ('junos', 'get_configuration'): return EL((B, 'get-configuration'), ['format'], False, [one(ANY)])
    if pv == ('junos', 'load_configuration'):
        return EL((B, 'load-configuration'), ['action', 'format'], False,
                  [one(EL((B, 'configuration'), slots=[one(ANY)]), leafq(B, 'configuration-json'), leafq(B, 'configuration-text'), leafq(B, 'configuration-set'))])
    if pv == ('junos', 'compare_configuration'): return EL((B, 'get-configuration'), ['compare', 'format', 'rollback'])
    if pv == ('junos', 'rpc'): return ANY
    if pv == ('junos', 'reboot'): return EL((B, 'request-reboot'))
    if pv == ('junos', 'halt'): return EL((B, 'request-halt'))
    if pv == ('junos', 'commit'):
        return EL(('', 'commit-configuration'), slots=[one(EL(('', 'confirmed'))), one(leafq('', 'confirm-timeout')), one(leafq('', 'at-time')), one(leafq('', 'log')),
                                                     one(EL(('', 'synchronize'))), one(EL(('', 'check')))])
    if pv == ('junos', 'rollback'): return EL((B, 'load-configuration'), ['rollback'])
    if pv == ('sros', 'md_cli_raw_command'):
        return EL((YANG, 'action'), slots=[one(EL((SROS_OPS, 'global-operations'), slots=[one(EL((SROS_OPS, 'md-cli-raw-command'), slots=[one(leafq(SROS_OPS, 'md-cli-input-line'))]))]))])
    if pv == ('sros', 'commit'):
        return EL((B, 'commit'), slots=[one(leafq(SROS_AUG, 'comment')), one(EL((B, 'confirmed'))), one(leafq(B, 'confirm-timeout')), one(leafq(B, 'persist')), one(leafq(B, 'persist-id'))])
    if pv == ('alu', 'show_cli'):
        return EL((B, 'get'), slots=[one(EL((B, 'filter'), slots=[one(EL((B, 'oper-data-format-cli-block'), slots=[one(leafq(B, 'cli-show'))]))]))])
    if pv == ('alu', 'get_configuration'):
        return EL((B, 'get-config'), slots=[one(EL((B, 'source'), slots=[one(EL((B, 'running')))])),
                                            one(EL((B, 'filter'), ['type'], False, [one(ANY)]),
                                                EL((B, 'filter'), slots=[one(EL((B, 'config-format-cli-block'), slots=[many(leafq(B, 'cli-info'), leafq(B, 'cli-info-detail'))]))]))])
    if pv == ('alu', 'load_configuration'):
        return EL((B, 'edit-config'), slots=[one(ds_shape(B, 'target')), one(leafq(B, 'default-operation')),
                                             one(EL((B, 'config'), slots=[one(leafq(B, 'config-format-cli-block'), ANY)]))])
    if pv == ('h3c', 'get_bulk'): return EL((B, 'get-bulk'), slots=[one(*filter_shape())])
    if pv == ('h3c', 'get_bulk_config'): return EL((B, 'get-bulk-config'), slots=[one(ds_shape(B, 'source')), one(*filter_shape())])
    if pv in (('h3c', 'cli'),): return EL((B, 'CLI'), slots=[one(ANY)])
    if pv in (('h3c', 'action'), ('hpcomware', 'action')): return EL((B, 'action'), slots=[one(ANY)])
    if pv in (('h3c', 'save'), ('hpcomware', 'save')): return EL((B, 'save'), slots=[one(leafq(B, 'file'))])
    if pv == ('h3c', 'load'): return EL((B, 'load'), slots=[one(leafq(B, 'file'))])
    if pv in (('h3c', 'rollback'), ('hpcomware', 'rollback')): return EL((B, 'rollback'), slots=[one(leafq(B, 'file'))])
    if pv == ('hpcomware', 'cli_display'): return EL((B, 'CLI'), slots=[one(leafq(B, 'Execution'))])
    if pv == ('hpcomware', 'cli_config'): return EL((B, 'CLI'), slots=[one(leafq(B, 'Configuration'))])
    if pv == ('huawei', 'cli'): return EL((HW, 'execute-cli'), slots=[one(ANY)])
    if pv == ('huawei', 'action'): return EL((HW, 'execute-action'), slots=[one(ANY)])
    if pv == ('iosxe', 'save_config'): return EL((CISCO_IA, 'save-config'))
    if pv == ('nexus', 'exec_command'): return EL((NXOS, 'exec-command'), slots=[many(leafq(NXOS, 'cmd'))])

def shape_ok(t, sh, where, errs):
    if t[0] != 'E': errs.append('%s: text where an element is expected' % where); return False
    if sh[0] == 'any': return True
    if sh[0] == 'named':
        if (t[1], t[2]) != sh[1]: errs.append('%s: element %r, schema says %r' % (where, (t[1], t[2]), sh[1])); return False
        return True
    _, q, attrs, text, slots = sh
    n0 = len(errs)
    if (t[1], t[2]) != q: errs.append('%s: element %r, schema says %r' % (where, (t[1], t[2]), q)); return False
    if [(x[0], x[1]) for x in t[3]] != [('', n) for n in sorted(attrs)]: errs.append('%s/%s: attributes %r, schema says %r' % (where, q[1], [x[1] for x in t[3]], sorted(attrs)))
    if not text and any(c[0] == 'T' for c in t[4]): errs.append('%s/%s: unexpected text' % (where, q[1]))
    i = 0
    for c in t[4]:
        if c[0] != 'E': continue
        while i < len(slots):
            rep, alts = slots[i]
            if any(shape_ok(c, alt, where + '/' + q[1], []) for alt in alts):
                if not rep: i += 1
                break
            i += 1
        else:
            errs.append('%s/%s: child %r not in the schema here (out of order, repeated or unknown)' % (where, q[1], (c[1], c[2])))
    return len(errs) == n0

def at_path(t, path):
    cur = [t]
    for q in path:
        cur = [c for e in cur for c in e[4] if c[0] == 'E' and (c[1], c[2]) == q]
    return cur
def text_of(t): return ''.join(c[1] for c in t[4] if c[0] == 'T')
def kids(t): return [c for c in t[4] if c[0] == 'E']
def attr(t, name):
    m = [x[2] for x in t[3] if (x[0], x[1]) == ('', name)]
    return m[0] if len(m) == 1 else None

def reader_view(t, d, prefixed):
    """R3: what a reader makes of the caller's own stand-alone document once it sits where the default namespace is d"""
    if t[0] == 'T': return t
    return ['E', t[1] or d, t[2], t[3], [reader_view(c, d, prefixed) for c in t[4]]]

def expectations(case):
    """[(kind, path, name, expected)]: kind 'text' -> list of texts of the elements at path; 'attr' -> attribute value of the
    operation element; 'kids' -> element children of the single element at path (caller fragments as the reader must see them)"""
    G = c07()
    p, v, a = case['profile'], case['vop'], case['args']
    pv = (p, v); g = a.get
    pre = p in PREFIXED
    def frag(x, d): return reader_view(G.parse_frag(x['xml']), '' if pre else d, pre)
    def T(path, vals): return ('text', path, None, ['' if x is None else x for x in vals])
    ex = []
    if pv == ('junos', 'command'): ex = [T([], [g('command')]), ('attr', [], 'format', g('format', 'xml'))]
    elif pv == ('junos', 'get_configuration'):
        ex = [('attr', [], 'format', g('format', 'xml')), ('kids', [], None, [] if g('filter') is None else [frag(g('filter'), B)])]
    elif pv == ('junos', 'load_configuration'):
        act, f, cfg = g('action', 'merge'), g('format', 'xml'), g('config')
        if act == 'set': f = 'text'
        ex = [('attr', [], 'action', act), ('attr', [], 'format', f)]
        txt = '\n'.join(cfg) if isinstance(cfg, list) else cfg
        el = {'json': 'configuration-json', 'text': 'configuration-set' if act == 'set' else 'configuration-text'}.get(f)
        if f == 'xml': ex += [('kids', [(B, 'configuration')], None, [frag(cfg, B)]), ('kids', [], None, None)]
        for n in ('configuration-json', 'configuration-text', 'configuration-set'):
            ex.append(T([(B, n)], [txt] if n == el else []))
    elif pv == ('junos', 'compare_configuration'):
        ex = [('attr', [], 'compare', 'rollback'), ('attr', [], 'format', g('format', 'text')), ('attr', [], 'rollback', str(g('rollback', 0)))]
    elif pv == ('junos', 'rpc'): ex = [('self', [], None, frag(a['rpc'], B))]
    elif pv == ('junos', 'commit'):
        import math
        cf, to, at = bool(g('confirmed')), g('timeout'), g('at_time')
        ex = [('count', [('', 'confirmed')], None, 1 if cf else 0), ('count', [('', 'synchronize')], None, 1 if g('synchronize') else 0),
              ('count', [('', 'check')], None, 1 if g('check') else 0),
              T([('', 'confirm-timeout')], [str(-((-int(to)) // 60))] if cf and to is not None else []),       # minutes, rounded up (exact integers)
              T([('', 'at-time')], [at] if (not cf and at is not None) else []), T([('', 'log')], [g('comment')] if g('comment') is not None else [])]
    elif pv == ('junos', 'rollback'): ex = [('attr', [], 'rollback', str(g('rollback', 0)))]
    elif pv == ('sros', 'md_cli_raw_command'):
        ex = [T([(SROS_OPS, 'global-operations'), (SROS_OPS, 'md-cli-raw-command'), (SROS_OPS, 'md-cli-input-line')], [g('command')])]
    elif pv == ('sros', 'commit'):
        cf, cm = bool(g('confirmed')), g('comment')
        ex = [T([(SROS_AUG, 'comment')], [cm] if (cm and cm.strip()) else []), ('count', [(B, 'confirmed')], None, 1 if cf else 0),
              T([(B, 'confirm-timeout')], [g('timeout')] if cf and g('timeout') is not None else []),
              T([(B, 'persist')], [g('persist')] if cf and g('persist') is not None else []), T([(B, 'persist-id')], [g('persist_id')] if g('persist_id') else [])]
    elif pv == ('alu', 'show_cli'): ex = [T([(B, 'filter'), (B, 'oper-data-format-cli-block'), (B, 'cli-show')], [g('command')])]
    elif pv == ('alu', 'get_configuration'):
        f, content = g('filter'), g('content', 'xml')
        ex = [('count', [(B, 'source'), (B, 'running')], None, 1)]
        if f is None: ex.append(('count', [(B, 'filter')], None, 0))
        elif content == 'xml': ex += [('kids', [(B, 'filter')], None, [frag(f, B)]), ('fattr', [(B, 'filter')], 'type', 'subtree')]
        elif content == 'cli':
            items = list(f['xml']) if is_doc(f) else list(f)
            name, other = ('cli-info-detail', 'cli-info') if g('detail') else ('cli-info', 'cli-info-detail')
            ex += [T([(B, 'filter'), (B, 'config-format-cli-block'), (B, name)], items), T([(B, 'filter'), (B, 'config-format-cli-block'), (B, other)], [])]
    elif pv == ('alu', 'load_configuration'):
        f, cfg = g('format', 'xml'), g('config')
        ex = [T([(B, 'default-operation')], [g('default_operation')] if g('default_operation') is not None else []), ('ds', 'target', None, g('target', 'running'))]
        if f == 'xml': ex.append(('kids', [(B, 'config')], None, [frag(cfg, B)]))
        elif f == 'cli': ex.append(T([(B, 'config'), (B, 'config-format-cli-block')], [cfg]))
    elif pv == ('h3c', 'get_bulk'): ex = [('filter', [], None, g('filter'))]
    elif pv == ('h3c', 'get_bulk_config'): ex = [('ds', 'source', None, a['source']), ('filter', [], None, g('filter'))]
    elif v in ('cli', 'action'):
        x = g('command' if v == 'cli' else 'action')
        ex = [('kids', [], None, [frag(x, HW if p == 'huawei' else B)])]
    elif pv in (('h3c', 'save'), ('h3c', 'load'), ('h3c', 'rollback')): ex = [T([(B, 'file')], [g('file')])]
    elif pv in (('hpcomware', 'save'), ('hpcomware', 'rollback')): ex = [T([(B, 'file')], [g('filename')])]
    elif p == 'hpcomware':
        c = a['cmds']
        ex = [T([(B, 'Execution' if v == 'cli_display' else 'Configuration')], ['\n'.join(c) if isinstance(c, list) else c])]
    elif pv == ('nexus', 'exec_command'): ex = [T([(NXOS, 'cmd')], list(a['cmds']))]
    return ex

def check_vop(case, opel):
    G = c07()
    errs = []
    shape_ok(opel, schema(case), '', errs)
    dns = case['profile'] not in PREFIXED
    for kind, path, name, want in expectations(case):
        if kind == 'text':
            got = [text_of(e) for e in at_path(opel, path)]
            if want == [''] and got == []: got = None
            if got != want: errs.append('text at %s is %r, caller gave %r' % ('/'.join(q[1] for q in path) or '.', [x[:60] for x in got or []], [x[:60] for x in want]))
        elif kind == 'attr':
            if attr(opel, name) != want: errs.append('attribute %s is %r, caller gave %r' % (name, attr(opel, name), want))
        elif kind == 'fattr':
            es = at_path(opel, path)
            if len(es) != 1 or attr(es[0], name) != want: errs.append('attribute %s at %s' % (name, path[-1][1]))
        elif kind == 'count':
            if len(at_path(opel, path)) != want: errs.append('%d x %s, expected %d' % (len(at_path(opel, path)), path[-1][1], want))
        elif kind == 'kids':
            es = at_path(opel, path)
            if want is None: continue
            if len(es) != 1 or kids(es[0]) != want: errs.append('caller fragment under %s not found unaltered' % ('/'.join(q[1] for q in path) or 'the operation element'))
        elif kind == 'self':
            if opel != want: errs.append('the caller\'s own rpc element is altered')
        elif kind == 'ds': G.expect_ds(errs, opel, path, want)
        elif kind == 'filter': G.expect_filter(errs, opel, want, dns)
    return errs

def invalid_text(s): return c07().invalid_text(s)

def expected_rejection(case):
    """why the property demands that nothing is sent and an exception is raised (independent statement), or None"""
    G = c07()
    p, v, a = case['profile'], case['vop'], case['args']
    pv = (p, v); g = a.get
    def bad(*keys): return any(g(k) is not None and invalid_text(g(k)) for k in keys)
    def doc_bad(x): return x is None or not is_doc(x) or G.parse_frag(x['xml']) is None
    def need_ele(x): return not (is_doc(x) and x['as'] == 'ele')
    def ds_bad(x): return (not isinstance(x, str)) or invalid_text(x) or ('://' not in x and not G.name_ok(x))
    def filt_bad(f):
        if f is None: return False
        k = f['kind']
        if k == 'badtype': return True
        if k in ('xpath', 'xpath-ns'): return invalid_text(f['select'])
        if k == 'subtree': return G.parse_frag(f['xml']) is None
        if k == 'list': return any(G.parse_frag(x) is None for x in f['xmls'])
        t = G.parse_frag(f['xml']); return t is None or (t[1], t[2]) not in (('', 'filter'), (B, 'filter'))
    if pv == ('junos', 'command'): return 'bad text' if bad('command') or invalid_text(g('format', 'xml')) else None
    if pv == ('junos', 'get_configuration'):
        if invalid_text(g('format', 'xml')): return 'bad text'
        if g('filter') is not None and need_ele(g('filter')): return 'filter is not an element'
    elif pv == ('junos', 'load_configuration'):
        act, f, cfg = g('action', 'merge'), g('format', 'xml'), g('config')
        if cfg is None: return 'config omitted'
        if act == 'set': f = 'text'
        if f not in ('xml', 'text', 'json'): return 'format outside its enumerated set'
        if invalid_text(act): return 'bad text'
        if f == 'xml':
            if need_ele(cfg): return 'xml config is not an element'
        else:
            if is_doc(cfg) and cfg['as'] == 'ele': return 'text config is an element'
            txt = '\n'.join(cfg) if isinstance(cfg, list) else (cfg['xml'] if is_doc(cfg) else cfg)
            if invalid_text(txt): return 'bad text'
    elif pv == ('junos', 'compare_configuration'):
        if invalid_text(str(g('rollback', 0))) or invalid_text(g('format', 'text')): return 'bad text'
    elif pv == ('junos', 'rpc'):
        if doc_bad(a['rpc']): return 'bad rpc document'
    elif pv == ('junos', 'commit'):
        if g('confirmed') and g('at_time') is not None: return 'confirmed with at_time'
        if g('confirmed') and g('timeout') is not None and py_int(g('timeout')) == [2]: return 'timeout is not a number'
        if bad('comment') or (not g('confirmed') and bad('at_time')): return 'bad text'
    elif pv == ('junos', 'rollback'):
        if invalid_text(str(g('rollback', 0))): return 'bad text'
    elif pv in (('sros', 'md_cli_raw_command'), ('alu', 'show_cli')):
        if bad('command'): return 'bad text'
    elif pv == ('sros', 'commit'):
        cm = g('comment')
        if cm and cm.strip() and invalid_text(cm): return 'bad text'
        if g('persist') and g('persist_id'): return 'persist with persist-id'
        if g('confirmed') and bad('timeout', 'persist'): return 'bad text'
        if g('persist_id') and bad('persist_id'): return 'bad text'
    elif pv == ('alu', 'get_configuration'):
        f, content = g('filter'), g('content', 'xml')
        if f is None: return None
        if content not in ('xml', 'cli'): return 'content outside its documented set (cli or xml)'
        if content == 'xml' and doc_bad(f): return 'bad filter document'
        if content == 'cli':
            if is_doc(f) and f['as'] == 'ele': return 'cli filter is an element'
            if any(invalid_text(x) for x in (f['xml'] if is_doc(f) else f)): return 'bad text'
    elif pv == ('alu', 'load_configuration'):
        f, cfg = g('format', 'xml'), g('config')
        if cfg is None: return 'config omitted'
        if f not in ('xml', 'cli'): return 'format outside the set the builder handles (xml or cli)'
        if ds_bad(g('target', 'running')): return 'bad target'
        if f == 'xml' and need_ele(cfg): return 'xml config is not an element'
        if f == 'cli' and (is_doc(cfg) and cfg['as'] == 'ele'): return 'cli config is an element'
        if f == 'cli' and invalid_text(cfg['xml'] if is_doc(cfg) else cfg): return 'bad text'
        if bad('default_operation'): return 'bad text'
    elif pv == ('h3c', 'get_bulk'):
        if filt_bad(g('filter')): return 'bad filter'
    elif pv == ('h3c', 'get_bulk_config'):
        if ds_bad(a['source']): return 'bad source'
        if filt_bad(g('filter')): return 'bad filter'
    elif v in ('cli', 'action'):
        if doc_bad(g('command' if v == 'cli' else 'action')): return 'bad document'
    elif pv in (('h3c', 'save'), ('h3c', 'load'), ('h3c', 'rollback')):
        if bad('file'): return 'bad text'
    elif pv in (('hpcomware', 'save'), ('hpcomware', 'rollback')):
        if bad('filename'): return 'bad text'
    elif p == 'hpcomware':
        c = a['cmds']
        if invalid_text('\n'.join(c) if isinstance(c, list) else c): return 'bad text'
    elif pv == ('nexus', 'exec_command'):
        if any(invalid_text(x) for x in a['cmds']): return 'bad text'
    return None

def uses_base_ns(case):
    return any(B in x for x in c07().frag_texts(case['args']))

def sig_of(case, r, rejected):
    """signature of a failure: the two open vendor findings have exact predicates; everything else is a violation"""
    p, v, a = case['profile'], case['vop'], case['args']
    from harness import capture
    def sent_op():
        if len(r['sent']) != 1: return None
        try: return kids(capture.read_independent(r['sent'][0]))[0]
        except Exception: return None
    if v == 'load_configuration' and a.get('config') is None and r['exc'] is None:
        if p == 'junos' and not r['sent']: return 'vendor_config_omitted'
        if p == 'alu':
            op = sent_op(); do = a.get('default_operation')
            want = ['E', B, 'edit-config', [], [] if do is None else [['E', B, 'default-operation', [], [['T', do]] if do else []]]]
            if op == want: return 'vendor_config_omitted'
    if p == 'alu' and r['exc'] is None and rejected and 'outside' in rejected:
        op = sent_op()
        if v == 'get_configuration' and op == ['E', B, 'get-config', [], [['E', B, 'source', [], [['E', B, 'running', [], []]]]]]: return 'alu_unknown_selector_drops_argument'
        if v == 'load_configuration':
            do = a.get('default_operation')
            want = ['E', B, 'edit-config', [], ([] if do is None else [['E', B, 'default-operation', [], [['T', do]] if do else []]]) + [['E', B, 'config', [], []]]]
            if op == want: return 'alu_unknown_selector_drops_argument'
    if p in ('huawei', 'sros') and uses_base_ns(case): return 'envelope_namespace_binding_shadowed'
    return 'vendor_schema_or_data:%s.%s' % (p, v)

def oracle(case, r):
    """None if the observed call satisfies the property, else (what, sig)"""
    from harness import capture
    rejected = expected_rejection(case)
    if r['exc'] is not None:
        if r['sent']: return ('raised %s after sending' % r['exc'], 'sent_and_raised')
        if rejected is None: return ('valid call refused locally with %s' % r['exc'], 'valid_call_refused')
        return None
    if rejected is not None:
        return ('%s: not rejected locally (%d message(s) sent, no exception)' % (rejected, len(r['sent'])), sig_of(case, r, rejected))
    if len(r['sent']) != 1: return ('%d messages sent' % len(r['sent']), 'not_exactly_one_message')
    try: root = capture.read_independent(r['sent'][0])
    except Exception as e: return ('request is not well-formed XML: %s' % e, 'ill_formed_request')
    if (root[1], root[2]) != (B, 'rpc'): return ('root is %r' % ((root[1], root[2]),), 'root_not_base_rpc')
    if root[3] != [['', 'message-id', r['msgid']]]: return ('message-id attribute missing or not the request id', 'message_id')
    if len(kids(root)) != 1 or text_of(root) != '': return ('rpc has %d element children' % len(kids(root)), 'not_one_operation')
    errs = check_vop(case, kids(root)[0])
    if errs: return ('; '.join(errs[:3]), sig_of(case, r, None))
    return None

# ---------------- running ----------------
def key_of(case): return json.dumps(case, sort_keys=True, default=repr)

def run_vendor_cases(ctx, cases):
    from harness import capture
    G = c07()
    results, mcalls, midx = [], [], []
    for i, case in enumerate(cases):
        r = impl_run(case); results.append(r)
        try:      # lxml's namespace reconciliation of fragments that use the base namespace is not modelled where it can alter them
            mc = None if (G.shadow_pred(case) or (uses_base_ns(case) and case['profile'] in ('huawei', 'sros'))) else to_model(case)
        except NoModel: mc = None
        if mc is not None and ctx.model:
            mcalls.append([6, (r['msgid'] or 'mid').encode(), mc]); midx.append(i)
    outs = ctx.model.batch(mcalls) if mcalls else []
    mout = dict(zip(midx, outs))
    for i, (case, r) in enumerate(zip(cases, results)):
        kcase = json.loads(key_of(case))
        ctx.count(case, nontrivial=G.carried(case), key='v:' + key_of(case))
        ctx.hist('vendor_class', CLASS[(case['profile'], case['vop'])]); ctx.hist('vendor_outcome', r['exc'] or ('sent' if r['sent'] else 'nothing'))
        if ctx.evaluations % 211 == 1: ctx.sample({'case': kcase, 'exc': r['exc'], 'sent': [x[:300] for x in r['sent']]})
        ctx.hist('vendor_model', 'not in the model domain' if i not in mout else {0: 'tree', 1: 'exception', 2: 'nothing'}.get(mout[i][0], 'rejected') if not isinstance(mout[i], str) else 'rejected')
        if i in mout:
            mo = mout[i]
            if isinstance(mo, str) or mo[0] == 999:
                ctx.disagree(kcase, repr(mo), None, 'model runner rejected the vendor call encoding')
            elif mo[0] == 1:
                me = G.EXC_REV[mo[1]]
                if {'UnicodeEncodeError': 'ValueError'}.get(r['exc'], r['exc']) != me or r['sent']:
                    ctx.disagree(kcase, {'exc': me}, {'exc': r['exc'], 'nsent': len(r['sent'])}, 'VendorBuilders.vbuild vs Manager call (exception)', theorem='C07_vendor_conforms/C07_vendor_enum_reject')
            elif mo[0] == 2:
                if r['exc'] is not None or r['sent']:
                    ctx.disagree(kcase, 'nothing', {'exc': r['exc'], 'nsent': len(r['sent'])}, 'VendorBuilders.vbuild (no request, no error) vs Manager call', theorem='C07_vendor_envelope')
            else:
                mt = capture.model_tree(mo[1])
                try: it = capture.read_independent(r['sent'][0]) if len(r['sent']) == 1 else None
                except Exception: it = 'ill-formed'
                if r['exc'] is not None or it != mt:
                    ctx.disagree(kcase, mt, it if r['exc'] is None else {'exc': r['exc']}, 'VendorBuilders.vbuild vs captured request tree', theorem='C07_vendor_conforms')
        j = oracle(case, r)
        if j: ctx.fail(kcase, j[0], sig=j[1], expected='instance of the vendor schema carrying the caller data / local rejection', actual={'exc': r['exc'], 'sent': [x[:400] for x in r['sent']]})
    G.check_bindings(ctx, cases, results, [json.loads(key_of(c)) for c in cases])     # namespace bindings in scope at the caller's elements

def yang_action_latent(ctx):
    """Classification of the `yang_action` candidate: the helper builds {base}action with an ATTRIBUTE xmlns=yang:1. Under the
    sros profile (the only one that ships it; default-namespace envelope) a reader sees {urn:ietf:params:xml:ns:yang:1}action — checked
    by every sros case above. Here: the same class driven through Manager.execute under a prefixed envelope would be read as
    {base}action (model fn 7, mode 0) — a latent fragility of the helper, not reachable through a shipped profile. Observation only."""
    from harness import capture
    from ncclient.operations.third_party.sros.rpc import MdCliRawCommand
    m, s = capture.make_manager('default', c07().FULL_CAPS)
    n0 = len(s.sent)
    rpc = m.execute(MdCliRawCommand, command='show version')
    it = capture.read_independent(s.sent[n0])
    op = kids(it)[0]
    case = {'check': 'yang_action_prefixed_latent', 'profile': 'default', 'class': 'sros.MdCliRawCommand'}
    ctx.count(case, key='yang_action_latent')
    ctx.extra['yang_action_under_prefixed_envelope'] = '{%s}%s' % (op[1], op[2])
    if ctx.model:
        mo = ctx.model.call([7, 0, rpc._id.encode(), [TAG[('sros', 'md_cli_raw_command')], [b'show version']]])
        if mo[0] != 0 or capture.model_tree(mo[1]) != it:
            ctx.disagree(case, mo, it, 'VendorBuilders.vbuild_under Prefixed vs Manager.execute(MdCliRawCommand) on the default profile (rule R2)', theorem='C07_vendor_yang_action')

def run(ctx):
    run_vendor_cases(ctx, vendor_shadow_cases())
    run_vendor_cases(ctx, gen_vendor_cases(ctx.rng, ctx.tier))
    yang_action_latent(ctx)

def judge(case):
    r = impl_run(case)
    return r, (oracle(case, r) or c07().binding_verdict(case, r))
