"""Peers and recording stand-ins for C15 (tools/props/c15.py).

quick tier : a recording stand-in for `paramiko.Transport`/`paramiko.Agent` reached through the module-level name
             `ncclient.transport.ssh.paramiko`, and for `SSLContext`/`socket` in `ncclient.transport.tls`; the session
             classes are subclassed only to replace `_post_connect` (the hello exchange) by a recording stub.
             Everything else is the real code: manager.connect_ssh/connect_tls, the device handlers, SSHSession.connect,
             load_known_hosts + paramiko.HostKeys on a real known_hosts file, _auth with real key files.
thorough   : a real in-process paramiko server over a socketpair and a real `ssl` server on 127.0.0.1.
Nothing here is imported by ncclient; all rebinding is undone after each run.  Files live under <framework>/run/c15."""
import os, sys, base64, socket, threading, time, subprocess, shutil, contextlib, hashlib, ssl as _ssl

from vlib import paths

RUNDIR = os.path.join(paths.RUN, 'c15', 'p%d' % os.getpid())      # per process: concurrent checks do not collide
import atexit
atexit.register(lambda: shutil.rmtree(RUNDIR, ignore_errors=True))
HOST, PORT = 'h.example', 830
HELLO_SRV = (b'<?xml version="1.0" encoding="UTF-8"?><hello xmlns="urn:ietf:params:xml:ns:netconf:base:1.0"><capabilities>'
             b'<capability>urn:ietf:params:netconf:base:1.0</capability></capabilities><session-id>7</session-id></hello>]]>]]>')

def _mkdir(p):
    os.makedirs(p, exist_ok=True)
    return p

def colon_fp(key):
    """The fingerprint a caller's unknown_host_cb compares against: the colon-separated lower-case hexadecimal MD5 of the
    public key blob (what `ssh-keygen -l -E md5` prints after "MD5:"), computed here from the blob, not by the library."""
    h = hashlib.md5(key.asbytes()).hexdigest()
    return ':'.join(h[i:i + 2] for i in range(0, len(h), 2))

def host_name(sel, dialled):
    """the host-name strings of the model's hsel, relative to the host that was dialled"""
    return {'host': dialled, 'hostport': '[%s]:%s' % (dialled, PORT), 'other': 'elsewhere.example'}[sel]

def classify_host(name, dialled):
    for sel in ('host', 'hostport', 'other'):
        if name == host_name(sel, dialled) and type(name) is type(host_name(sel, dialled)): return sel
    return 'unexpected:%r' % (name,)

def classify_fp(fp):
    """which pool key a fingerprint string belongs to (the key NAME, e.g. 'E1'), else the string itself, marked"""
    pool = Pool.get()
    if isinstance(fp, str):
        for n in sorted(pool.host):
            if not n.startswith('SRV') and colon_fp(pool.host[n]) == fp: return n
    return 'unexpected:%r' % (fp,)

def make_callback(policy, const_verdict, dialled, record):
    """A caller's unknown_host_cb.  policy None: answers `const_verdict` (raw value); ['fp', K]: True only when shown the
    fingerprint of pool key K; ['host', sel]: True only when called with that host name; ['hostfp', sel, K]: both.
    `record(host, fingerprint)` is told what it was called with."""
    pool = Pool.get()
    want_fp = colon_fp(pool.host[policy[-1]]) if policy and policy[0] in ('fp', 'hostfp') else None
    want_host = host_name(policy[1], dialled) if policy and policy[0] in ('host', 'hostfp') else None
    def cb(host, fingerprint):
        record(host, fingerprint)
        if not policy: return const_verdict
        return (want_fp is None or fingerprint == want_fp) and (policy[0] == 'fp' or host == want_host)
    return cb

# ------------------------------------------------------------------ key pool
class Pool:
    """Real paramiko keys.  Model names: (key type, blob id)."""
    _inst = None
    def __init__(self):
        import paramiko
        shutil.rmtree(RUNDIR, ignore_errors=True); _mkdir(RUNDIR)
        self.host = {}                     # name -> PKey : keys a server may present / known_hosts may hold
        self.host['E1'] = paramiko.ECDSAKey.generate()
        self.host['E2'] = paramiko.ECDSAKey.generate()
        self.host['E3'] = paramiko.ECDSAKey.generate()
        self.host['X9'] = paramiko.ECDSAKey.generate()      # never presented, never stored: "some other fingerprint"
        self.host['R1'] = paramiko.RSAKey.generate(1024)
        self.code = {'E1': (1, 10), 'E2': (1, 11), 'E3': (1, 12), 'X9': (1, 99), 'R1': (2, 20)}
        self.agent = [paramiko.ECDSAKey.generate() for _ in range(2)]
        kd = _mkdir(os.path.join(RUNDIR, 'keys'))
        self.keyfile = {}                  # name -> (path, PKey or None); kfe is encrypted with the passphrase 'pw'
        for n in ('kf0', 'kf1', 'kfe'):
            k = paramiko.ECDSAKey.generate(); p = os.path.join(kd, n)
            k.write_private_key_file(p, password='pw' if n == 'kfe' else None); self.keyfile[n] = (p, k)
        p = os.path.join(kd, 'bad'); open(p, 'w').write('this is not a private key\n'); self.keyfile['bad'] = (p, None)
        self.default = {}                  # file name under ~/.ssh -> PKey or None; id_ecdsa is encrypted with 'pw'
        self.default['id_rsa'] = paramiko.RSAKey.generate(1024)
        self.default['id_dsa'] = None      # garbage: paramiko 5 cannot read DSA keys anyway
        self.default['id_ecdsa'] = paramiko.ECDSAKey.generate()
    @classmethod
    def get(cls):
        if cls._inst is None: cls._inst = Pool()
        return cls._inst
    def b64(self, name):
        return base64.b64encode(self.host[name].asbytes()).decode()

_homes = {}
def home_for(kh, defaults):
    """A HOME directory holding .ssh/known_hosts with the entries `kh` = [(sel, keyname)...] (None: no file) and the
    default key files `defaults` = [relative path...] (e.g. '.ssh/id_rsa', 'ssh/id_ecdsa').  Cached per content."""
    pool = Pool.get()
    key = (None if kh is None else tuple(tuple(x) for x in kh), tuple(defaults))
    if key in _homes: return _homes[key]
    d = os.path.join(RUNDIR, 'home-%d' % len(_homes))
    shutil.rmtree(d, ignore_errors=True); _mkdir(os.path.join(d, '.ssh'))
    if kh is not None:
        with open(os.path.join(d, '.ssh', 'known_hosts'), 'w') as f:
            for sel, kn in kh:
                name = {'host': HOST, 'hostport': '[%s]:%s' % (HOST, PORT), 'other': 'elsewhere.example'}[sel]
                k = pool.host[kn]
                f.write('%s %s %s\n' % (name, k.get_name(), k.get_base64()))
    for rel in defaults:
        p = os.path.join(d, rel); _mkdir(os.path.dirname(p))
        k = pool.default[os.path.basename(rel)]
        if k is None: open(p, 'w').write('garbage\n')
        else: k.write_private_key_file(p, password='pw' if os.path.basename(rel) == 'id_ecdsa' else None)
    _homes[key] = d
    return d

# ------------------------------------------------------------------ histories: ONE known_hosts path, several sessions
KH_OPS = ('write', 'replace_older', 'replace_equal', 'replace_newer', 'inplace', 'inplace_keep', 'symlink', 'keep')
_hist_n = [0]

def kh_text(kh):
    pool = Pool.get()
    return ''.join('%s %s %s\n' % (host_name(sel, HOST), pool.host[kn].get_name(), pool.host[kn].get_base64()) for sel, kn in kh)

class KnownHostsFile:
    """The known_hosts file of ONE history: a fixed path whose content is changed between the sessions of one process.
    via 'default' : $HOME/.ssh/known_hosts (what connect() loads by itself)
        'explicit': another file, handed to SSHSession.load_known_hosts(filename) by the caller before connect()
        'config'  : another file, named by UserKnownHostsFile in the ssh_config passed to connect()
    put(kh, op) brings the file to the content `kh` (entries, None = no file) the way an administrator / a tool would:
      write          open(path, 'w') (new mtime)
      replace_older  a file prepared beforehand, its mtime an hour OLDER than the old file's, moved over it (mv, rsync -t, cp -p)
      replace_equal  a prepared file carrying exactly the old file's mtime, moved over it (new inode, same mtime, often same size)
      replace_newer  a prepared file with a later mtime moved over it
      inplace        rewritten through the same inode (new mtime)
      inplace_keep   rewritten through the same inode and the old atime/mtime restored (same inode, same mtime, often same size)
      symlink        the path becomes a symbolic link to a prepared (old) file
      keep           the file is left alone
    """
    def __init__(self, via='default'):
        d = os.path.join(RUNDIR, 'hist-%d' % _hist_n[0]); _hist_n[0] += 1
        Pool.get()
        shutil.rmtree(d, ignore_errors=True); _mkdir(os.path.join(d, '.ssh'))
        self.home, self.via, self.n = d, via, 0
        self.path = os.path.join(d, '.ssh', 'known_hosts') if via == 'default' else os.path.join(d, 'site_known_hosts')
        self.config = os.path.join(d, 'ssh_config')
        if via == 'config':
            with open(self.config, 'w') as f: f.write('Host *\n  UserKnownHostsFile %s\n' % self.path)
        self.t0 = time.time_ns()
        self.content = None
    def put(self, kh, op):
        self.n += 1
        path = self.path
        if op == 'keep': return
        old = os.stat(path) if os.path.exists(path) else None
        self.content = None if kh is None else [list(x) for x in kh]
        if kh is None:
            if os.path.lexists(path): os.remove(path)
            return
        text = kh_text(kh)
        def prepared(mtime_ns):
            p = path + '.next'
            with open(p, 'w') as f: f.write(text)
            os.utime(p, ns=(mtime_ns, mtime_ns))
            return p
        if old is None and op in ('replace_equal', 'inplace', 'inplace_keep'): op = 'write'
        if op == 'write':
            with open(path, 'w') as f: f.write(text)
        elif op == 'replace_older':
            os.replace(prepared(min(old.st_mtime_ns if old else self.t0, self.t0) - 3600 * 10**9), path)
        elif op == 'replace_equal':
            os.replace(prepared(old.st_mtime_ns), path)
        elif op == 'replace_newer':
            os.replace(prepared(max(old.st_mtime_ns if old else 0, time.time_ns()) + 2 * 10**9), path)
        elif op in ('inplace', 'inplace_keep'):
            with open(path, 'r+') as f:
                f.write(text); f.truncate()
            if op == 'inplace_keep': os.utime(path, ns=(old.st_atime_ns, old.st_mtime_ns))
        elif op == 'symlink':
            tgt = os.path.join(os.path.dirname(path), 'kh-target-%d' % self.n)
            with open(tgt, 'w') as f: f.write(text)
            os.utime(tgt, ns=(self.t0 - 7200 * 10**9 - self.n, self.t0 - 7200 * 10**9 - self.n))
            tmp = path + '.lnk'
            if os.path.lexists(tmp): os.remove(tmp)
            os.symlink(tgt, tmp); os.replace(tmp, path)
        else:
            raise ValueError('unknown known_hosts operation %r' % (op,))
        with open(path) as f:
            if f.read() != text: raise RuntimeError('harness: known_hosts was not brought to the wanted content by %r' % op)
    def discard(self):
        shutil.rmtree(self.home, ignore_errors=True)

@contextlib.contextmanager
def env_home(d):
    old = os.environ.get('HOME')
    os.environ['HOME'] = d
    try: yield
    finally:
        if old is None: os.environ.pop('HOME', None)
        else: os.environ['HOME'] = old

def exc_code(e):
    n = type(e).__name__ if e is not None else None
    return {None: 0, 'SSHUnknownHostError': 1, 'AuthenticationError': 2, 'SSHError': 3, 'TLSError': 4}.get(n, 5)

# ------------------------------------------------------------------ quick: recording paramiko
class _Proxy:
    """Stands for the `paramiko` module inside ncclient.transport.ssh: real paramiko except Transport and Agent."""
    def __init__(self, real, **over):
        self.__dict__['_real'] = real; self.__dict__['_over'] = over
    def __getattr__(self, n):
        o = self.__dict__['_over']
        return o[n] if n in o else getattr(self.__dict__['_real'], n)
    def __setattr__(self, n, v):
        setattr(self.__dict__['_real'], n, v)

def run_ssh_fake(case, khfile=None, reuse=None):
    """Run manager.connect_ssh on the case with the recording transport.  Returns (events, result code, exc name, detail).
    reuse: a dict kept by the caller over several calls: the connect() is made on the SSHSession OBJECT of the previous call
    with the same dict (created by the first one), i.e. one session object connected several times.
    events (raw): ('StartClient',) ('GetServerKey',) ('CallbackAsked', host class, key name) ('Auth', kind, idx, ok)
                  ('OpenSession',) ('Invoke', name) ('OpenChannel',) ('Exec',) ('SendHello',)
    CallbackAsked records what the caller's callback was called WITH: the host argument classified relative to the dialled
    host ('host' | 'hostport' | 'other' | 'unexpected:..') and the pool key whose fingerprint it was shown (or 'unexpected:..').
    detail: for SSHUnknownHostError [host class of .host, key name of .fingerprint], else [].
    khfile: a KnownHostsFile (history mode): its HOME / file is used as it is NOW instead of a per-content home."""
    import paramiko
    import ncclient.transport.ssh as sshmod
    import ncclient.transport as tpkg
    from ncclient import manager
    from ncclient.transport.errors import SessionError
    pool = Pool.get()
    ev = []
    st = dict(auths=list(case['auths']), opens=list(case['opens']), subs=list(case['subs']))
    kf_paths = [pool.keyfile[n][0] for n in case['key_files']]
    def pop(name):
        l = st[name]
        return l.pop(0) if l else False
    def ident(key):
        b = key.asbytes()
        for i, n in enumerate(case['key_files']):
            k = pool.keyfile[n][1]
            if k is not None and k.asbytes() == b: return (0, i)
        for i, k in enumerate(pool.agent):
            if k.asbytes() == b: return (1, i)
        for i, rel in enumerate(case['default_keys']):
            k = pool.default[os.path.basename(rel)]
            if k is not None and k.asbytes() == b: return (2, i)
        return (9, 0)
    class Chan:
        def __init__(self, exec_kind=False): self._n = None
        def get_id(self): return 0
        def set_name(self, n): self._n = n
        def get_name(self): return self._n
        def update_environment(self, env): pass
        def invoke_subsystem(self, name):
            ok = pop('subs'); ev.append(('Invoke', name))
            if not ok: raise paramiko.SSHException('subsystem request rejected')
        def exec_command(self, cmd): ev.append(('Exec',))
        def close(self): pass
    class Transport:
        def __init__(self, sock): self._preferred_keys = None
        def set_log_channel(self, n): pass
        def use_compression(self, *a): pass
        def set_keepalive(self, n): pass
        def is_active(self): return False
        def close(self): pass
        def start_client(self, *a, **k):
            ev.append(('StartClient',))
            if not case['kex_ok']: raise paramiko.SSHException('no acceptable kex')
        def get_remote_server_key(self):
            ev.append(('GetServerKey',)); return pool.host[case['server_key']]
        def auth_publickey(self, username, key):
            kind, idx = ident(key); ok = pop('auths'); ev.append(('Auth', kind, idx, ok))
            if not ok: raise paramiko.AuthenticationException('publickey refused')
            return []
        def auth_password(self, username, password):
            ok = pop('auths'); ev.append(('Auth', 3, 0, ok))
            if not ok: raise paramiko.AuthenticationException('password refused')
            return []
        def open_session(self, *a, **k):
            ok = pop('opens'); ev.append(('OpenSession',))
            if not ok: raise paramiko.ChannelException(1, 'administratively prohibited')
            return Chan()
        def open_channel(self, kind=None, *a, **k):
            ev.append(('OpenChannel',)); return Chan()
    class Agent:
        def get_keys(self): return tuple(pool.agent[:case['agent_keys']])
    class RecSession(sshmod.SSHSession):
        def _post_connect(self, timeout=60):
            ev.append(('SendHello',))
            if not case['hello_ok']: raise SessionError('Capability exchange timed out')
    dialled = None if case.get('host_none') else HOST
    # constant policies answer the raw value: the library must go by its truthiness
    user_cb = make_callback(case.get('cb_policy'), case['cb_verdict'], dialled,
                            lambda h, f: ev.append(('CallbackAsked', classify_host(h, dialled), classify_fp(f))))
    kw = dict(host=dialled, port=PORT, sock=object(), username='u', hostkey_verify=bool(case['verify']),
              allow_agent=bool(case['allow_agent']), look_for_keys=bool(case['look_for_keys']),
              device_params={'name': case['profile']})
    if case['password']: kw['password'] = 'pw'
    if len(kf_paths) == 1: kw['key_filename'] = kf_paths[0]
    elif kf_paths: kw['key_filename'] = kf_paths
    if case['pin'] == 'bad': kw['hostkey_b64'] = base64.b64encode(b'\x00\x00\x00\x07ssh-xyz\x00\x00').decode()
    elif case['pin']: kw['hostkey_b64'] = pool.b64(case['pin'])
    if case['user_cb']: kw['unknown_host_cb'] = user_cb
    home = khfile.home if khfile is not None else home_for(case['kh'], case['default_keys'])
    if khfile is not None and khfile.via == 'config': kw['ssh_config'] = khfile.config
    real_para, real_cls = sshmod.paramiko, tpkg.SSHSession
    sshmod.paramiko = _Proxy(real_para, Transport=Transport, Agent=Agent)
    tpkg.SSHSession = RecSession
    exc = None
    try:
        with env_home(home):
            import warnings
            with warnings.catch_warnings():
                warnings.simplefilter('ignore')
                if case.get('prior_accept'):
                    # ONE session object used twice: a first connect() whose callback accepted the unknown key and whose
                    # authentication failed, then the connect() under test (what it may do is decided by ITS arguments)
                    kw2 = dict(kw); dp = kw2.pop('device_params')
                    dh = manager.make_device_handler(dp); dh.add_additional_ssh_connect_params(kw2)
                    sess = RecSession(dh)
                    saved = dict(st); st['auths'] = []                      # every request of the first attempt is refused
                    kw1 = dict(kw2); kw1['unknown_host_cb'] = lambda h, f: True; kw1.pop('hostkey_b64', None)
                    try: sess.connect(**kw1)
                    except Exception: pass
                    st.update(auths=list(saved['auths']), opens=list(saved['opens']), subs=list(saved['subs'])); del ev[:]
                    sess.connect(**kw2)
                elif reuse is not None:
                    # ONE session object, connect() called on it again (legal after a connect that raised): every connect is
                    # made with ITS OWN arguments against ITS OWN peer (key, verdict streams: `case` of this call)
                    kw2 = dict(kw); dp = kw2.pop('device_params')
                    sess = reuse.get('sess')
                    if sess is None: sess = reuse['sess'] = RecSession(manager.make_device_handler(dp))
                    else: sess.__class__ = RecSession                      # the recording stub of THIS call
                    sess._device_handler.add_additional_ssh_connect_params(kw2)
                    sess.connect(**kw2)
                elif khfile is not None and khfile.via == 'explicit':
                    # the caller names the file: SSHSession.load_known_hosts(filename), then connect() (a NEW session object)
                    kw2 = dict(kw); dp = kw2.pop('device_params')
                    dh = manager.make_device_handler(dp); dh.add_additional_ssh_connect_params(kw2)
                    sess = RecSession(dh)
                    if case['verify']:
                        try: sess.load_known_hosts(khfile.path)
                        except IOError: pass                                # no such file: the caller goes on without it
                    sess.connect(**kw2)
                else:
                    manager.connect_ssh(**kw)
    except Exception as e:
        exc = e
    finally:
        sshmod.paramiko, tpkg.SSHSession = real_para, real_cls
    detail = []
    if exc_code(exc) == 1:
        detail = [classify_host(getattr(exc, 'host', '<no .host>'), dialled), classify_fp(getattr(exc, 'fingerprint', '<no .fingerprint>'))]
    return ev, exc_code(exc), (type(exc).__name__ if exc else None), detail

# ------------------------------------------------------------------ quick: recording ssl
def run_tls_fake(case):
    """manager.connect_tls with recording SSLContext/socket.  events: ('TlsLoadCert',) ('TlsLoadCA',) ('TlsConnect',)
    ('Handshake', verify_required, check_hostname, name_used) ('SendHello',)"""
    import ncclient.transport.tls as tlsmod
    import ncclient.transport as tpkg
    from ncclient import manager
    from ncclient.transport.errors import SessionError
    ev = []
    def load_exc(code, what):
        if code == 1: raise _ssl.SSLError(what)
        if code == 2: raise FileNotFoundError(what)
    class Sock:
        def __init__(self, ctx, name, on_connect): self.ctx, self.name, self.on_connect = ctx, name, on_connect
        def settimeout(self, t): pass
        def connect(self, addr):
            ev.append(('TlsConnect',))
            if not case['connect_ok']: raise ConnectionRefusedError('refused')
            if self.on_connect: self.do_handshake()
        def do_handshake(self):
            ev.append(('Handshake', self.ctx.verify_mode == _ssl.CERT_REQUIRED, bool(self.ctx.check_hostname),
                       'server_hostname' if self.name == 'sni.example' else ('host' if self.name == 'tls.example' else repr(self.name))))
            if not case['handshake_ok']:
                raise _ssl.SSLCertVerificationError('certificate verify failed')
        def close(self): pass
    class Ctx:
        def __init__(self, protocol=None):
            self.verify_mode = _ssl.CERT_NONE; self.check_hostname = False        # the weakest defaults
        def load_cert_chain(self, certfile=None, keyfile=None, password=None):
            ev.append(('TlsLoadCert',)); load_exc(case['load_cert'], 'cert')
        def load_verify_locations(self, cafile=None, capath=None, cadata=None):
            ev.append(('TlsLoadCA',)); load_exc(case['load_ca'], 'ca')
        def wrap_socket(self, sock, server_side=False, do_handshake_on_connect=True, suppress_ragged_eofs=True,
                        server_hostname=None, session=None):
            return Sock(self, server_hostname, do_handshake_on_connect)
    class FakeSocketMod:
        def __getattr__(self, n): return getattr(socket, n)
        def socket(self, *a, **k): return object()
    class RecSession(tlsmod.TLSSession):
        def _post_connect(self, timeout=60):
            ev.append(('SendHello',))
            if not case['hello_ok']: raise SessionError('Capability exchange timed out')
        def close(self): self._connected = False
    kw = dict(check_hostname=bool(case['check_hostname']), timeout=5)
    if case['host']: kw['host'] = 'tls.example'
    if case['certfile']: kw['certfile'] = '/nonexistent/client.pem'
    if case['protocol']: kw['protocol'] = _ssl.PROTOCOL_TLS_CLIENT
    if case['ca']: kw['ca_certs'] = '/nonexistent/ca.pem'
    if case['server_hostname']: kw['server_hostname'] = 'sni.example'
    saved = (tlsmod.SSLContext, tlsmod.socket, tpkg.TLSSession)
    tlsmod.SSLContext, tlsmod.socket, tpkg.TLSSession = Ctx, FakeSocketMod(), RecSession
    exc = None
    try:
        manager.connect_tls(**kw)
    except Exception as e:
        exc = e
    finally:
        tlsmod.SSLContext, tlsmod.socket, tpkg.TLSSession = saved
    return ev, exc_code(exc), (type(exc).__name__ if exc else None)

# ------------------------------------------------------------------ thorough: real paramiko server
_srv_key = None
def server_rsa():
    global _srv_key
    if _srv_key is None:
        import paramiko
        _srv_key = paramiko.RSAKey.generate(2048)
    return _srv_key

def real_kh_entries(case):
    """known_hosts entries of a real-server case (the server's key is stored under the pool name SRV / SRVR)"""
    pool = Pool.get()
    rsa = case.get('hostkey', 'ecdsa') == 'rsa'
    srv, other_name = ('SRVR', 'R1') if rsa else ('SRV', 'E2')
    pool.host[srv] = server_rsa() if rsa else pool.host['E1']
    return {'absent': None, 'empty': [], 'host': [('host', srv)], 'hostport': [('hostport', srv)], 'different': [('host', other_name)],
            'different_hostport': [('hostport', other_name)],
            'different_both': [('host', other_name), ('hostport', other_name)]}[case['kh']]

def run_ssh_real(case, timeout=20, khfile=None, reuse=None):
    """SSHSession.connect(sock=...) against an in-process paramiko server over a socketpair.
    case: verify, kh ('absent'|'host'|'hostport'|'different'|'different_hostport'|'different_both'), pin (None|'match'|'different'),
          cb (None|True|False|'only_presented'|'only_stored'|'only_random': accepts exactly the fingerprint of the server's key /
          of the other key of that type (the one 'different*' layouts store, the one pin 'different' pins) / of a key seen nowhere),
          password (None|'right'|'wrong'), keyfile (None|'right'|'wrong'), subsystem_ok, hostkey ('ecdsa' default | 'rsa' = RSA 2048),
          srvkey (pool name of the ECDSA key the server presents, default 'E1'); cb 'fp:K' accepts exactly the fingerprint of pool key K.
    reuse: a dict kept by the caller: the connect() is made on the SSHSession object of the previous call with that dict.
    Returns dict(server=[...events seen by the server...], bytes=<octets received on the channel>, code, exc, cb_asked)."""
    import paramiko
    from ncclient.transport.ssh import SSHSession
    from ncclient.devices.default import DefaultDeviceHandler
    pool = Pool.get()
    rsa = case.get('hostkey', 'ecdsa') == 'rsa'
    hostkey = server_rsa() if rsa else pool.host[case.get('srvkey', 'E1')]
    other_name = 'R1' if rsa else 'E2'          # a different key of the same type (of E1)
    other = pool.host[other_name]
    seen, got = [], bytearray()
    lock = threading.Lock()
    right_key = pool.keyfile['kf0'][1]
    class Srv(paramiko.ServerInterface):
        def get_allowed_auths(self, username): return 'publickey,password'
        def check_auth_none(self, username):
            with lock: seen.append(('auth', 'none', False))
            return paramiko.AUTH_FAILED
        def check_auth_password(self, username, password):
            ok = (username == 'u' and password == 'right-pw')
            with lock: seen.append(('auth', 'password', ok))
            return paramiko.AUTH_SUCCESSFUL if ok else paramiko.AUTH_FAILED
        def check_auth_publickey(self, username, key):
            ok = key.asbytes() == right_key.asbytes()
            with lock: seen.append(('auth', 'publickey', ok))
            return paramiko.AUTH_SUCCESSFUL if ok else paramiko.AUTH_FAILED
        def check_channel_request(self, kind, chanid):
            with lock: seen.append(('open', kind))
            return paramiko.OPEN_SUCCEEDED
        def check_channel_subsystem_request(self, channel, name):
            with lock: seen.append(('subsystem', name))
            if not case.get('subsystem_ok', True): return False
            def serve():
                try:
                    channel.sendall(HELLO_SRV)
                    channel.settimeout(timeout)
                    while True:
                        d = channel.recv(4096)
                        if not d: break
                        with lock: got.extend(d)
                except Exception:
                    pass
            threading.Thread(target=serve, daemon=True).start()
            return True
    a, b = socket.socketpair()
    st = paramiko.Transport(b)
    st.add_server_key(hostkey)
    try:
        st.start_server(event=threading.Event(), server=Srv())
    except Exception:
        pass
    kh = real_kh_entries(case)                 # (known_hosts homes are cached by content: one name per server key)
    home = khfile.home if khfile is not None else home_for(kh, [])
    cb_asked = []
    want = {'only_presented': colon_fp(hostkey), 'only_stored': colon_fp(other), 'only_random': colon_fp(pool.host['X9'])}
    if isinstance(case['cb'], str) and case['cb'].startswith('fp:'): want[case['cb']] = colon_fp(pool.host[case['cb'][3:]])
    def cb(host, fp):
        cb_asked.append([host, fp])
        if case['cb'] in want: return fp == want[case['cb']]
        return bool(case['cb'])
    kw = dict(host=HOST, port=PORT, sock=a, username='u', hostkey_verify=bool(case['verify']),
              allow_agent=False, look_for_keys=False, timeout=timeout)
    if case['pin'] == 'match': kw['hostkey_b64'] = base64.b64encode(hostkey.asbytes()).decode()
    elif case['pin'] == 'different': kw['hostkey_b64'] = base64.b64encode(other.asbytes()).decode()
    if case['cb'] is not None: kw['unknown_host_cb'] = cb
    if case['password']: kw['password'] = 'right-pw' if case['password'] == 'right' else 'wrong-pw'
    if case['keyfile']: kw['key_filename'] = pool.keyfile['kf0' if case['keyfile'] == 'right' else 'kf1'][0]
    if khfile is not None and khfile.via == 'config': kw['ssh_config'] = khfile.config
    sess = reuse.get('sess') if reuse is not None else None
    if sess is None: sess = SSHSession(DefaultDeviceHandler())
    if reuse is not None: reuse['sess'] = sess
    exc = None
    try:
        with env_home(home):
            if khfile is not None and khfile.via == 'explicit' and case['verify']:
                try: sess.load_known_hosts(khfile.path)
                except IOError: pass
            sess.connect(**kw)
    except Exception as e:
        exc = e
    connected = bool(sess.connected) if exc is None else False
    if exc is None:
        # the client hello has been queued; give the session thread a moment to write it
        t0 = time.time()
        while time.time() - t0 < timeout:
            with lock:
                if b']]>]]>' in got: break
            time.sleep(0.01)
    try:
        if getattr(sess, '_transport', None) is not None:
            if exc is None: sess.close()
            else: sess._transport.close()
    except Exception:
        pass
    try: st.close()
    except Exception: pass
    for s in (a, b):
        try: s.close()
        except Exception: pass
    with lock:
        return dict(server=list(seen), bytes=bytes(got), code=exc_code(exc), exc=(type(exc).__name__ if exc else None),
                    msg=(str(exc)[:200] if exc else ''), cb_asked=cb_asked, connected=connected,
                    presented=[HOST, colon_fp(hostkey)],
                    exc_args=([getattr(exc, 'host', None), getattr(exc, 'fingerprint', None)] if exc_code(exc) == 1 else None))

# ------------------------------------------------------------------ thorough: real TLS server
def _openssl(*args, cwd):
    p = subprocess.run(['openssl'] + list(args), cwd=cwd, stdout=subprocess.PIPE, stderr=subprocess.PIPE, text=True, timeout=120)
    if p.returncode != 0: raise RuntimeError('openssl %s: %s' % (' '.join(args), p.stderr[-400:]))

def make_pki():
    """Two CAs, server certificates (good: SAN IP:127.0.0.1 + DNS:localhost signed by CA1; mismatch: SAN DNS:other.example
    signed by CA1; wrongca: good names signed by CA2; selfsigned), and a client certificate — generated now by the openssl CLI."""
    d = os.path.join(RUNDIR, 'pki')
    shutil.rmtree(d, ignore_errors=True); _mkdir(d)
    for ca in ('ca1', 'ca2'):
        _openssl('req', '-x509', '-newkey', 'rsa:2048', '-nodes', '-keyout', ca + '.key', '-out', ca + '.pem', '-days', '2',
                 '-subj', '/CN=C15 test %s' % ca, '-addext', 'basicConstraints=critical,CA:TRUE', cwd=d)
    def leaf(name, ca, san):
        _openssl('req', '-newkey', 'rsa:2048', '-nodes', '-keyout', name + '.key', '-out', name + '.csr', '-subj', '/CN=%s' % name, cwd=d)
        open(os.path.join(d, name + '.ext'), 'w').write('subjectAltName=%s\nbasicConstraints=CA:FALSE\n' % san)
        _openssl('x509', '-req', '-in', name + '.csr', '-CA', ca + '.pem', '-CAkey', ca + '.key', '-CAcreateserial',
                 '-out', name + '.pem', '-days', '2', '-extfile', name + '.ext', cwd=d)
    leaf('good', 'ca1', 'IP:127.0.0.1,DNS:localhost')
    leaf('mismatch', 'ca1', 'DNS:other.example')
    leaf('wrongca', 'ca2', 'IP:127.0.0.1,DNS:localhost')
    leaf('client', 'ca1', 'DNS:client.example')
    _openssl('req', '-x509', '-newkey', 'rsa:2048', '-nodes', '-keyout', 'selfsigned.key', '-out', 'selfsigned.pem', '-days', '2',
             '-subj', '/CN=127.0.0.1', '-addext', 'subjectAltName=IP:127.0.0.1,DNS:localhost', cwd=d)
    return d

def run_tls_real(pki, case, timeout=20):
    """TLSSession.connect against a real ssl server on 127.0.0.1 (server side: CERT_NONE, no client certificate asked).
    case: cert ('good'|'mismatch'|'wrongca'|'selfsigned'), ca ('ca1'|'ca2'|None), check_hostname, server_hostname (None|str).
    Returns dict(code, exc, server_handshake (bool), bytes (application octets the server received), connected)."""
    from ncclient.transport.tls import TLSSession
    from ncclient.devices.default import DefaultDeviceHandler
    sctx = _ssl.SSLContext(_ssl.PROTOCOL_TLS_SERVER)
    sctx.verify_mode = _ssl.CERT_NONE
    sctx.load_cert_chain(os.path.join(pki, case['cert'] + '.pem'), os.path.join(pki, case['cert'] + '.key'))
    ls = socket.socket(socket.AF_INET, socket.SOCK_STREAM)
    ls.setsockopt(socket.SOL_SOCKET, socket.SO_REUSEADDR, 1)
    ls.bind(('127.0.0.1', 0)); ls.listen(1); ls.settimeout(timeout)
    port = ls.getsockname()[1]
    obs = dict(handshake=False, bytes=bytearray(), raw_after=0)
    def serve():
        try:
            c, _ = ls.accept()
        except Exception:
            return
        try:
            c.settimeout(timeout)
            try:
                sc = sctx.wrap_socket(c, server_side=True)
            except Exception:
                return
            obs['handshake'] = True
            try:
                sc.sendall(HELLO_SRV)
                while True:
                    d = sc.recv(4096)
                    if not d: break
                    obs['bytes'].extend(d)
            except Exception:
                pass
            finally:
                try: sc.close()
                except Exception: pass
        finally:
            try: c.close()
            except Exception: pass
    th = threading.Thread(target=serve, daemon=True); th.start()
    sess = TLSSession(DefaultDeviceHandler())
    kw = dict(host='127.0.0.1', port=port, certfile=os.path.join(pki, 'client.pem'), keyfile=os.path.join(pki, 'client.key'),
              protocol=_ssl.PROTOCOL_TLS_CLIENT, check_hostname=bool(case['check_hostname']), timeout=timeout)
    if case['ca']: kw['ca_certs'] = os.path.join(pki, case['ca'] + '.pem')
    if case['server_hostname']: kw['server_hostname'] = case['server_hostname']
    exc = None
    try:
        sess.connect(**kw)
    except Exception as e:
        exc = e
    connected = bool(sess.connected) if exc is None else False
    if exc is None:
        t0 = time.time()
        while time.time() - t0 < timeout and b']]>]]>' not in obs['bytes']:
            time.sleep(0.01)
    try:
        if exc is None: sess.close()
        elif getattr(sess, '_socket', None): sess._socket.close()
    except Exception:
        pass
    th.join(timeout)
    try: ls.close()
    except Exception: pass
    return dict(code=exc_code(exc), exc=(type(exc).__name__ if exc else None), server_handshake=obs['handshake'],
                bytes=bytes(obs['bytes']), connected=connected)
