"""C05 through the REAL transports, the success clause: "for every server capability set ... hello segmentation: the first thing
on the wire is an end-of-message framed <hello> listing exactly the client capabilities the manager reports; everything after it
is chunked iff BOTH peers advertised base:1.1; session id and server capabilities reported are those of the server's hello".

Two parts of the quantifier that the in-memory transport of the other families cannot reach:

 size / segmentation of the server <hello> as the real transport delivers it.  A server that advertises its YANG modules sends a
   hello of 10-60 kB.  Over TLS one sendall() of up to 16384 octets is ONE record, which OpenSSL decrypts as a whole while the
   session thread sleeps in select() on the TCP socket; over SSH it is a sequence of channel packets, over a Unix socket a
   stream read 4096 octets at a time.  A case fixes the exact number of octets of hello + delimiter (around 4096, 8192, 12288,
   16384 +- a few, and 20-64 kB) and the points where the peer cuts its send (none = one sendall).

 history of the client capability list before the connect.  `Session.client_capabilities` is the documented, mutable
   `Capabilities` object; an application that pins a session to base:1.0 removes the base:1.1 URI from it before connecting,
   one that wants 1.1 in the other URN form adds it, nc_params={'capabilities': [...]} adds through the manager.  A case carries
   a list of ('add'|'remove', uri) applied to session.client_capabilities between the construction of the session
   (transport API: cls(device_handler)) and session.connect(...).

Round 4 (s05) adds what FOLLOWS the server <hello> in the stream, in the direction server -> client ("everything after it
uses chunked framing iff both peers advertised base:1.1" holds for what the client READS too):

 white space after the hello's delimiter.  Servers commonly end their hello with `]]>]]>\n` (or `\r\n`, blanks).  case['ws'] is
   0-3 white-space octets that travel in the same send as the last octet of the delimiter (case['ws_gap_ms'] == 0) or in a send of
   their own that many ms later.
 replies.  With case['answer'] the peer ANSWERS every request it received completely (in the framing the two hellos on the wire
   negotiate, by the property's own base:1.1 test; chunked replies cut into case['reply_chunks'] chunks at octet granularity,
   end-of-message replies followed by case['ws'] again).  The client registers a documented SessionListener before its first
   request and sends request k+1 after reply k arrived.  The oracle requires every reply to be delivered, once, with the
   message-id of its request and the text the server sent, no error to be reported to the listeners and the session to stay up.

The peer (servers of harness/hello_deadline.py: paramiko server on a socketpair, TLS on 127.0.0.1, Unix socket file) sends its
hello as soon as the connection is up, then records every octet the client sends.  After the connect the case sends one or two
requests with Session.send.  Nothing in ncclient is edited or rebound.  Judged on octets and return values only (judge())."""
import threading, time, socket, ssl
import xml.etree.ElementTree as ET

from harness import hello_deadline as HD

BASE_NS = 'urn:ietf:params:xml:ns:netconf:base:1.0'
B10, B11 = 'urn:ietf:params:netconf:base:1.0', 'urn:ietf:params:netconf:base:1.1'
B10X, B11X = 'urn:ietf:params:xml:ns:netconf:base:1.0', 'urn:ietf:params:xml:ns:netconf:base:1.1'
EOM = b']]>]]>'
LATER = ['<rpc message-id="1"><get/></rpc>', '<rpc message-id="2">naïve</rpc>']
TIMEOUT = 3.0            # s: the connect timeout of every case; the peer sends its hello at once
SETTLE = 2.0             # s: how long the peer may take to see the requests
CLS = {'ssh': 'SSHSession', 'tls': 'TLSSession', 'unix': 'UnixSocketSession'}
FUN = {'ssh': 'connect_ssh', 'tls': 'connect_tls', 'unix': 'connect_uds'}
MIN_SIZE = 400

def now():
    return time.monotonic()

# ------------------------------------------------------------------ the property's own notion of "advertises base:V"
PA = ['urn', 'ietf', 'params', 'netconf']
PB = ['urn', 'ietf', 'params', 'xml', 'ns', 'netconf']
def advertises_base(uri, version):
    segs = uri.split('?')[0].split(':')
    return any(segs[:len(p)] == p and segs[len(p):len(p) + 2] == ['base', version] for p in (PA, PB))
def has11(caps):
    return any(advertises_base(u, '1.1') for u in caps if u)
def has_base(caps):
    return any(advertises_base(u, v) for u in caps if u for v in ('1.0', '1.1'))
def esc(s):
    return s.replace('&', '&amp;').replace('<', '&lt;').replace('>', '&gt;')

# ------------------------------------------------------------------ the server hello of a case: exactly case['size'] octets
def hello_doc(caps, sid):
    return ('<hello xmlns="%s"><capabilities>%s</capabilities><session-id>%d</session-id></hello>'
            % (BASE_NS, ''.join('<capability>%s</capability>' % esc(u) for u in caps), sid)).encode()

def server_caps_of(case):
    """case['server_base'] first, then YANG module capabilities, then one filler so that len(hello + delimiter) == case['size']"""
    caps = list(case['server_base'])
    size = max(case['size'], len(hello_doc(caps, case['sid'])) + 6 + 60)
    k = 0
    while True:
        k += 1
        u = 'http://example.com/yang/mod-%d?module=mod-%d&revision=20%02d-0%d-1%d' % (k, k, k % 30, 1 + k % 9, k % 9)
        if len(hello_doc(caps + [u], case['sid'])) + 6 + 60 > size: break
        caps.append(u)
    rest = size - 6 - len(hello_doc(caps + ['urn:x:pad:'], case['sid']))
    caps.append('urn:x:pad:' + 'p' * rest)
    return caps

def server_hello(case):
    data = hello_doc(server_caps_of(case), case['sid']) + EOM
    return data

WS_OCTETS = b' \t\r\n'
def ws_of(case):
    """the white space the server puts after a delimiter: at most 3 octets of blank / tab / CR / LF"""
    w = case.get('ws', '').encode()
    assert len(w) <= 3 and all(o in WS_OCTETS for o in w), w
    return w

def pieces_of(case, data):
    """the sends of the server: hello + delimiter cut at case['cuts']; the white space after the delimiter goes with its last octet"""
    cuts = sorted(set(c % (len(data) + 1) for c in case.get('cuts', [])))
    out, a = [], 0
    for c in cuts + [len(data)]:
        if c > a: out.append(data[a:c]); a = c
    if case.get('ws_gap_ms', 0) and ws_of(case): out.append(ws_of(case))
    else: out[-1] += ws_of(case)
    return out

def reply_doc(k):
    return ('<rpc-reply xmlns="%s" message-id="%d"><data>r\u00e9ponse %d &lt;ok&gt;</data></rpc-reply>' % (BASE_NS, k, k)).encode()
def reply_text(k):
    return 'r\u00e9ponse %d <ok>' % k

def reply_frame(case, k, chunked):
    """reply k as the server frames it: RFC 6242 chunks (cut at octet granularity, also inside a character) or end-of-message"""
    doc = reply_doc(k)
    if not chunked: return doc + EOM + ws_of(case)
    n = max(1, min(case.get('reply_chunks', 1), len(doc)))
    cuts = [len(doc) * i // n for i in range(1, n)]
    if n > 1: cuts[0] = doc.index('\u00e9'.encode()) + 1            # between the two octets of a character
    cuts = sorted(set(c for c in cuts if 0 < c < len(doc)))
    out, a = b'', 0
    for c in cuts + [len(doc)]:
        out += b'\n#%d\n' % (c - a) + doc[a:c]; a = c
    return out + b'\n##\n'

class Peer(HD.Script):
    """sends the pieces of its hello (one sendall each, `gap` s apart), then records what the client sends"""
    def __init__(self, pieces, gap_ms, answer=None, last_gap_ms=0):
        """answer: None, or (the server advertised base:1.1?, how many requests to answer, frame(k, chunked) -> octets)"""
        HD.Script.__init__(self, 'hello', 0, 0)
        self.pieces, self.gap, self.last_gap = pieces, gap_ms / 1000.0, last_gap_ms / 1000.0
        self.buf = b''
        self.lock = threading.Lock()
        self.answer, self.answered, self.replies = answer, 0, []
    def _run(self):
        try: self.chan.settimeout(5.0)
        except Exception: pass
        for i, p in enumerate(self.pieces):
            if i and self.gap and self.stop.wait(self.gap): return
            if i and i == len(self.pieces) - 1 and self.last_gap and self.stop.wait(self.last_gap): return
            self.chan.sendall(p)
        self.sent_at = now()
        try: self.chan.settimeout(0.05)
        except Exception: pass
        while not self.stop.is_set():
            try:
                d = self.chan.recv(65536)
            except (socket.timeout, ssl.SSLWantReadError, BlockingIOError):
                continue
            except Exception:
                return
            if not d: return
            with self.lock: self.buf += d
            if self.answer: self._answer()
    def _answer(self):
        """every request received completely, in the framing the two hellos negotiate, gets its reply at once"""
        s11, n, frame = self.answer
        first, rest = split_wire(self.buf)
        if first is None: return
        listed = hello_caps_of(first)
        chunked = bool(s11 and listed is not None and has11(listed))
        have = rest.count(b'\n##\n') if chunked else rest.count(EOM)
        while self.answered < min(have, n):
            self.answered += 1
            f = frame(self.answered, chunked)
            try: self.chan.settimeout(5.0)
            except Exception: pass
            self.chan.sendall(f)
            try: self.chan.settimeout(0.05)
            except Exception: pass
            self.replies.append(f)
    def seen(self):
        with self.lock: return self.buf
    def frames_after_hello(self):
        b = self.seen()
        k = b.find(EOM)
        if k < 0: return -1
        r = b[k + 6:]
        return r.count(EOM) + r.count(b'\n##\n')

# ------------------------------------------------------------------ one case
def apply_history(lst, edits):
    """what a list of capability URIs is after add/remove calls, as the documentation of Capabilities states them"""
    out = list(lst)
    for op, uri in edits:
        if op == 'add':
            if uri not in out: out.append(uri)
        elif op == 'remove':
            if uri in out: out.remove(uri)
    return out

def run_case(case):
    from ncclient import manager, transport
    from ncclient.transport.session import SessionListener
    data = server_hello(case)
    n_later = case.get('n_later', 1)
    answer = (has11(server_caps_of(case)), n_later, lambda k, chunked: reply_frame(case, k, chunked)) if case.get('answer') else None
    peer = Peer(pieces_of(case, data), case.get('gap_ms', 0), answer, case.get('ws_gap_ms', 0) if ws_of(case) else 0)
    class Rec(SessionListener):
        def __init__(self): self.got, self.errs = [], []
        def callback(self, root, raw): self.got.append((out.get('started', 0), root[0], dict(root[1]).get('message-id'), raw))
        def errback(self, ex): self.errs.append('%s: %s' % (type(ex).__name__, str(ex)[:80]))
    rec = Rec()
    srv = HD.SRV[case['transport']](peer)
    args, kw = srv.call_args()
    kw['timeout'] = TIMEOUT
    out = {}
    def body():
        out['t0'] = now()
        try:
            dparams = {'name': case['profile']}
            ncp = {'capabilities': list(case.get('extra', []))}
            if case['api'] == 'manager':
                m = getattr(manager, FUN[case['transport']])(*args, device_params=dparams, nc_params=ncp, **kw)
                sess = m._session
            else:
                dh = manager.make_device_handler(dparams)
                dh.add_additional_netconf_params(ncp)
                sess = getattr(transport, CLS[case['transport']])(dh)
                out['sess'] = sess
                out['before'] = list(sess.client_capabilities)
                for op, uri in case.get('edits', []):
                    getattr(sess.client_capabilities, op)(uri)
                out['edited'] = list(sess.client_capabilities)
                sess.connect(*args, **kw)
                m = manager.Manager(sess, dh)
            out['sess'] = sess
            out['result'] = 'ok'
            out['sid'] = m.session_id
            out['server_caps'] = list(m.server_capabilities)
            out['client_reported'] = list(m.client_capabilities)
            sent = out['later'] = []
            if answer: sess.add_listener(rec)
            for msg in LATER[:n_later]:
                out['started'] = len(sent) + 1
                sess.send(msg); sent.append(msg)
                t = now()
                while answer and len(rec.got) < len(sent) and not rec.errs and sess.connected and now() - t < SETTLE:      # reply k before request k+1
                    time.sleep(0.002)
        except BaseException as e:
            out['result'] = type(e).__name__; out['message'] = str(e)[:100]
        out['t1'] = now()
    th = threading.Thread(target=body, daemon=True, name='c05-real-connect')
    th.start()
    th.join(TIMEOUT + 12.0)
    hung = th.is_alive()
    if not hung and out.get('result') == 'ok':
        t1 = now()
        while peer.frames_after_hello() < len(out['later']) and now() - t1 < SETTLE and (out['sess'].connected or now() - t1 < 0.3):
            time.sleep(0.005)
    obs = dict(hung=hung, up=peer.up_at is not None, peer_err=peer.err, result=out.get('result', 'hung'), message=out.get('message'),
               hello_sent=peer.sent_at is not None, hello_octets=len(data), n_pieces=len(peer.pieces),
               elapsed=round(out.get('t1', now()) - out.get('t0', now()), 3),
               sid=out.get('sid'), server_caps=out.get('server_caps'), client_reported=out.get('client_reported'),
               before=out.get('before'), edited=out.get('edited'), later=list(out.get('later', [])), wire=peer.seen(),
               answered=peer.answered, delivered=[list(g) for g in rec.got], errors=list(rec.errs),
               connected=bool(getattr(out.get('sess'), 'connected', False)))
    s = out.get('sess')
    if s is not None:
        try: s.close()
        except Exception: pass
    srv.stop()
    return obs

# ------------------------------------------------------------------ the property on the observables
def split_wire(wire):
    k = wire.find(EOM)
    if k < 0: return None, wire
    return wire[:k], wire[k + 6:]

def hello_caps_of(xml_bytes):
    try:
        root = ET.fromstring(xml_bytes)
    except ET.ParseError:
        return None
    if root.tag != '{%s}hello' % BASE_NS: return None
    caps = root.find('{%s}capabilities' % BASE_NS)
    if caps is None: return None
    if any(c.tag != '{%s}capability' % BASE_NS for c in caps): return None
    return [c.text for c in caps]

def how_sent(case, obs):
    return ('%d octets, %s, over %s' % (obs['hello_octets'], 'one send' + (' (one TLS record)' if case['transport'] == 'tls' and obs['hello_octets'] <= 16384 else '')
            if obs['n_pieces'] == 1 else '%d sends' % obs['n_pieces'], case['transport']))

def framing_of(rest, later):
    from props.c02 import strict_decode11, strict_decode10
    want = [m.encode() for m in later]
    if not want and not rest: return 'nothing'
    if strict_decode11(rest) == want: return 'chunked'
    if strict_decode10(rest) == want: return 'end-of-message'
    return 'garbled'

def judge(case, obs):
    """[(what, expected, actual)]"""
    if not obs['up']:
        return [('the peer never saw the connection come up (harness)', 'connection up', obs.get('peer_err') or obs['result'])]
    if obs['hung']:
        return [('connect hangs although the server sent its hello (%s)' % how_sent(case, obs), 'ok', 'still blocked after %.1fs' % obs['elapsed'])]
    if obs['result'] != 'ok' and obs.get('sid') is not None:
        return [('connect succeeded, then request %d was refused (%s: %s)%s; %s' % (len(obs['later']) + 1, obs['result'], obs['message'],
                 ' after the session reported %s' % obs['errors'][0][:90] if obs.get('errors') else '', describe_after(case)),
                 'request sent', obs['result'])]
    if obs['result'] != 'ok':
        return [('connect failed (%s: %s) although the server sent a well-formed <hello> completely and at once (%s)'
                 % (obs['result'], obs['message'], how_sent(case, obs)), 'ok', obs['result'])]
    out = []
    sent_caps = server_caps_of(case)
    if str(obs['sid']) != str(case['sid']):
        out.append(('session id reported is not the one of the server hello', str(case['sid']), str(obs['sid'])))
    if sorted(obs['server_caps']) != sorted(set(sent_caps)):
        missing = sorted(set(sent_caps) - set(obs['server_caps'])); extra = sorted(set(obs['server_caps']) - set(sent_caps))
        out.append(('server capabilities reported are not those of the server hello (%s)' % how_sent(case, obs),
                    '%d capabilities' % len(set(sent_caps)), '%d reported; missing %r..., not sent %r...' % (len(obs['server_caps']), missing[:2], extra[:2])))
    first, rest = split_wire(obs['wire'])
    listed = None if first is None else hello_caps_of(first)
    if listed is None:
        out.append(('first frame on the wire is not an end-of-message framed <hello>', '<hello>...]]>]]>', obs['wire'][:60].decode('latin1')))
        return out
    if sorted(listed) != sorted(obs['client_reported']):
        out.append(('the <hello> on the wire does not list exactly the client capabilities the manager reports',
                    sorted(obs['client_reported']), sorted(listed)))
    if case['api'] == 'transport':
        exp = apply_history(obs['before'], case.get('edits', []))
        if sorted(listed) != sorted(exp):
            out.append(('the <hello> on the wire does not list the client capabilities as the application left them before connect '
                        '(history %r)' % (case.get('edits', []),), sorted(exp), sorted(listed)))
    elif case['profile'] == 'default':
        miss = [u for u in case.get('extra', []) if u not in listed]
        if miss: out.append(('user-supplied capabilities are not in the <hello>', case['extra'], listed))
    # (an application that itself withdrew every base URI of a vendor list is not the property's business)
    if not has_base(listed) and (case['api'] != 'transport' or has_base(apply_history(obs['before'], case.get('edits', [])))):
        out.append(('no base URI in the client <hello>', 'a base URI', listed))
    c11, s11 = has11(listed), has11(sent_caps)
    want = 'chunked' if (c11 and s11) else 'end-of-message'
    got = framing_of(rest, obs['later'])
    if got != want:
        out.append(('framing after the hello is %s, but the client <hello> on the wire %s base:1.1 and the server <hello> %s it'
                    % (got, 'advertised' if c11 else 'did not advertise', 'advertised' if s11 else 'did not advertise'),
                    want + ' x%d' % len(obs['later']), got + ': ' + rest[:50].decode('latin1')))
    elif case.get('answer'):
        out += judge_replies(case, obs, want)
    return out

def describe_after(case):
    w = ws_of(case)
    return 'the server <hello> was followed by %s' % ('%r %s' % (w.decode(), 'in the same send as its delimiter' if not case.get('ws_gap_ms', 0)
                                                            else 'sent %d ms after its delimiter' % case['ws_gap_ms']) if w else 'nothing')

def judge_replies(case, obs, framing):
    """the requests left correctly framed and the server answered each in the negotiated framing: every reply is delivered to the
    listeners once, after its request and before the next, with its message-id and text; no error; the session stays up"""
    n = len(obs['later'])
    how = '%s replies, %s' % (framing, describe_after(case))
    if obs['answered'] < n:
        return [('the peer could not answer %d correctly framed request(s) (harness)' % n, n, obs['answered'])]
    out = []
    if obs['errors']:
        out.append(('the session reported an error to its listeners while reading correctly framed %s' % how, 'no error', obs['errors'][0]))
    if not obs['connected']:
        out.append(('the session is down after reading correctly framed %s' % how, 'connected', 'not connected'))
    exp = [[k, '{%s}rpc-reply' % BASE_NS, str(k), reply_text(k)] for k in range(1, n + 1)]
    act = []
    for after, tag, mid, raw in obs['delivered']:
        try: text = ET.fromstring(raw.encode() if isinstance(raw, str) else raw).findtext('{%s}data' % BASE_NS)
        except ET.ParseError: text = 'unreadable: %r' % raw[:40]
        act.append([after, tag, mid, text])
    if act != exp:
        out.append(('the replies delivered are not the replies the server sent, each after its request (%s)' % how,
                    ['request %d -> message-id %s, %r' % (e[0], e[2], e[3]) for e in exp],
                    ['after request %d: message-id %s, %r' % (a[0], a[2], a[3]) for a in act]))
    return out

# ------------------------------------------------------------------ the open finding of this family
READ_MIN = 4096          # ncclient's documented BUF_SIZE: no transport read is smaller once that much is available
SIG_WS_LATER = 'ws_after_hello_in_later_read_base11'
def sig_of(case, obs, what):
    """SIG_WS_LATER iff chunked framing was negotiated, white space follows the server hello's delimiter and it CAN reach the client
    in a later read than the delimiter (sent on its own, or hello + white space exceed the smallest read), and the failure is the
    session dying of a framing error on that stream.  A hello that fits one read with its white space in the same send is never waived."""
    w = ws_of(case)
    if not w or not has11(server_caps_of(case)): return None
    if not (case.get('ws_gap_ms', 0) or case['size'] + len(w) > READ_MIN): return None
    first, rest = split_wire(obs.get('wire', b''))
    listed = hello_caps_of(first) if first is not None else None
    if listed is None or not has11(listed): return None
    died = any('NetconfFramingError' in e for e in obs.get('errors', [])) or (obs['result'] == 'TransportError' and obs.get('sid') is not None)
    symptom = what.startswith(('the session reported an error', 'the session is down', 'the replies delivered are not', 'connect succeeded, then request'))
    # ... or it died of it before the listener was there: requests accepted by send() were never written
    unwritten = (what.startswith('framing after the hello is garbled') and not obs.get('connected') and not obs.get('delivered')
                 and rest.count(b'\n##\n') < len(obs.get('later', [])))
    return SIG_WS_LATER if (died and symptom) or unwritten else None

# ------------------------------------------------------------------ model side: Negotiate.run (fn 4) on the client list SENT
def model_call(case, obs):
    from props import c05 as P
    first, rest = split_wire(obs['wire'])
    listed = hello_caps_of(first) if first is not None else None
    if obs['result'] != 'ok' or listed is None: return None
    T = [0, 1]
    tree = P.tree_of_case(dict(server_caps=server_caps_of(case), sid=case['sid'], qualified=True))
    n = len(obs['later'])
    labels = [T, [1, P.tree_val(tree)], [4]] + [[5, i + 1] for i in range(n)] + [T] * n
    return [4, 1, [u.encode() for u in listed], labels]

def impl_out(case, obs):
    first, rest = split_wire(obs['wire'])
    fr = framing_of(rest, obs['later'])
    frames = [0] + ([1] * len(obs['later']) if fr == 'chunked' else [0] * len(obs['later']) if fr == 'end-of-message' else [] if fr == 'nothing' else ['garbled'])
    return [frames, 'ok', str(obs['sid']), sorted(obs['server_caps'])]

def model_out(v):
    from props import c05 as P
    o = P.model_connect_out(v)
    if len(o) == 4 and o[3] is not None: o[3] = sorted(set(o[3]))
    return o

# ------------------------------------------------------------------ generation
EDGES = (4096, 8192, 12288, 16384)
SERVER_BASES = [[B10, B11], [B10, B11], [B10, B11], [B11X, B10X], [B10], [B10X], [B11], [B10, B11 + '?x=y']]
HISTORIES = [
    [['remove', B11]],
    [['remove', B11], ['add', B11]],
    [['remove', B11], ['add', 'urn:x:1']],
    [['remove', B11], ['add', B11X]],
    [['remove', B10]],
    [['add', B11X], ['remove', B11]],
    [['add', B11X], ['remove', B11], ['remove', B11X]],
    [['remove', B11], ['remove', B11]],
    [['add', 'urn:x:1'], ['remove', 'urn:x:1']],
    [['remove', 'urn:ietf:params:netconf:capability:candidate:1.0'], ['remove', B11], ['add', 'urn:ietf:params:netconf:capability:candidate:1.0']],
    [['add', B11]],
    [['remove', B10], ['remove', B11], ['add', B11]],
    [['remove', B10], ['remove', B11], ['add', B10]],
    [],
]
URIS = [B10, B11, B10X, B11X, 'urn:x:1', 'urn:ietf:params:netconf:capability:candidate:1.0', B11 + '?x=y']

def gen_history(rng):
    if rng.random() < 0.6: return [list(e) for e in rng.choice(HISTORIES)]
    return [[rng.choice(['add', 'remove', 'remove']), rng.choice(URIS)] for _ in range(rng.randint(1, 5))]

def keep_a_base(case, initial):
    """the property speaks of lists with a base URI: a history that withdraws every base URI gets base:1.0 back at the end"""
    if not has_base(apply_history(initial, case['edits'])):
        case['edits'].append(['add', B10])

def gen_size(rng, big_ok=True):
    r = rng.random()
    if r < 0.6: return rng.choice(EDGES) + rng.choice([-7, -6, -2, -1, 0, 0, 1, 2, 5, 6, 7, rng.randint(-40, 40)])
    if r < 0.75 or not big_ok: return rng.randint(MIN_SIZE, 16384)
    return rng.randint(16385, 65536)

def gen_cuts(rng, size):
    r = rng.random()
    if r < 0.5: return []
    if r < 0.7: return [rng.randint(1, size - 1)]
    if r < 0.85: return [size - 6 + rng.randint(-2, 5)]                 # around / inside the delimiter
    return sorted(rng.randint(1, size - 1) for _ in range(rng.randint(2, 6)))

WS = ['\n', '\r\n', ' ', '\n\n', ' \n', '\t', '\r\n ', '\n \n', '   ', '\r']
def gen_ws(rng):
    r = rng.random()
    if r < 0.35: return ''
    if r < 0.6: return '\n'
    if r < 0.9: return rng.choice(WS)
    return ''.join(rng.choice(' \t\r\n') for _ in range(rng.randint(1, 3)))

def gen_cases(rng, tier, default_initial):
    """default_initial: the documented default client list (for keep_a_base only)"""
    quick = tier == 'quick'
    cases = []
    def mk(transport, size, cuts=(), api='manager', profile='default', **k):
        c = dict(kind='realhello', transport=transport, api=api, profile=profile, extra=[], edits=[], size=size, cuts=list(cuts),
                 gap_ms=rng.choice([0, 2, 8]) if cuts else 0, server_base=rng.choice(SERVER_BASES[:4]), sid=rng.randrange(1, 4294967295),
                 n_later=rng.choice([1, 2]), ws=gen_ws(rng), ws_gap_ms=0, answer=rng.random() < 0.8, reply_chunks=rng.choice([1, 1, 2, 3, 5]))
        c.update(k); return c
    # (a) size x segmentation. TLS: every record-size edge, one record, +-1, and beyond a record; SSH / Unix: a sample
    for e in EDGES:
        for d in ((-1, 0, 1) if quick else (-7, -6, -5, -1, 0, 1, 2, 6, 7)):
            cases.append(mk('tls', e + d))
    for _ in range(4 if quick else 40): cases.append(mk('tls', rng.randint(16385, 65536)))
    for _ in range(6 if quick else 60):
        s = gen_size(rng); cases.append(mk('tls', s, gen_cuts(rng, s)))
    for tr in ('ssh', 'unix'):
        for _ in range(7 if quick else 50):
            s = gen_size(rng); cases.append(mk(tr, s, gen_cuts(rng, s)))
        cases.append(mk(tr, rng.randint(50000, 65536)))
    # (b) histories of the client list before the connect (transport API), against servers with and without base:1.1
    n_hist = len(HISTORIES) + (10 if quick else 150)
    for i in range(n_hist):
        tr = 'unix' if (quick and i % 8) or (not quick and i % 3) else rng.choice(['tls', 'ssh'])
        c = mk(tr, rng.randint(MIN_SIZE, 3000), api='transport', server_base=rng.choice(SERVER_BASES))
        c['edits'] = [list(e) for e in HISTORIES[i]] if i < len(HISTORIES) else gen_history(rng)
        if i < len(HISTORIES): c['server_base'] = [B10, B11]
        c['extra'] = rng.choice([[], [], ['urn:x:1'], [B11X]])
        if rng.random() < 0.15: c['profile'] = rng.choice(['junos', 'nexus', 'iosxr', 'huaweiyang', 'sros', 'alu'])
        keep_a_base(c, default_initial + c['extra'])
        cases.append(c)
    # (d) what follows the server hello: white space after its delimiter x framing negotiated x transport, every request answered
    for tr in ('unix', 'tls', 'ssh'):
        for sb in ([B10, B11], [B10], [B11X, B10X]):
            for ws in ((['\n', '\r\n', rng.choice(WS)] if sb != [B10] else ['\n', rng.choice(WS)]) if quick else [''] + WS + [gen_ws(rng) for _ in range(4)]):
                cases.append(mk(tr, rng.randint(MIN_SIZE, 3000), server_base=sb, ws=ws, answer=True, n_later=2,
                                api=rng.choice(['manager', 'manager', 'transport'])))
        for _ in range(2 if quick else 20):
            s = gen_size(rng, big_ok=False); cases.append(mk(tr, s, gen_cuts(rng, s), ws=rng.choice(WS), answer=True, n_later=2))
        # white space in a send of its own: to a 1.0-only server, and (one case: the open finding) to a 1.1 server
        for sb in ([[B10]] * (2 if quick else 8) + [[B10, B11]] * (1 if quick else 3)):
            cases.append(mk(tr, rng.randint(MIN_SIZE, 3000), server_base=sb, ws=rng.choice(WS), ws_gap_ms=rng.choice([1, 5, 20]), answer=True, n_later=2))
    # (c) nc_params through the manager functions
    for tr in ('unix', 'tls', 'ssh'):
        for extra in ([[B11X], ['urn:x:1', B10]] if quick else [[B11X], ['urn:x:1', B10], [B11], ['http://example.com/cap?x=1&y=2']]):
            cases.append(mk(tr, rng.randint(MIN_SIZE, 3000), extra=extra, server_base=rng.choice(SERVER_BASES)))
    return cases

def run_batch(cases, width=16):
    res = [None] * len(cases)
    def one(i):
        try:
            res[i] = run_case(cases[i])
        except Exception as e:
            res[i] = dict(hung=False, up=False, peer_err='harness:%s:%s' % (type(e).__name__, e), result='harness-error', message=None,
                          hello_sent=False, hello_octets=0, n_pieces=0, elapsed=0, later=[], wire=b'', answered=0, delivered=[], errors=[], connected=False)
    for k in range(0, len(cases), width):
        ths = [threading.Thread(target=one, args=(i,), daemon=True) for i in range(k, min(k + width, len(cases)))]
        for t in ths: t.start()
        for t in ths: t.join()
    return res

def check_cases(cases, confirm=2, width=16, max_report=3):
    """-> [(case, obs, problems)]; a case with problems is re-run alone and reported only when the problem shows every time;
    after `max_report` confirmed cases the remaining suspicious ones are not re-run (a failing connect costs its whole timeout)
    and are returned with problems=[] and obs['unconfirmed']=True"""
    obs = run_batch(cases, width)
    out = []
    reported = 0
    for c, o in zip(cases, obs):
        probs = judge(c, o)
        if probs and reported >= max_report:
            o['unconfirmed'] = True; out.append((c, o, [])); continue
        n = 1 if probs and all(sig_of(c, o, p[0]) for p in probs) else 0        # the open finding: one confirmation
        while probs and n < confirm:
            n += 1
            o = run_batch([c], 1)[0]
            probs = judge(c, o)
        if probs and not all(sig_of(c, o, p[0]) for p in probs): reported += 1
        out.append((c, o, probs))
    return out
