"""A THREADED in-memory NETCONF session for RPC-level properties whose histories contain ASYNCHRONOUS requests (C13).

`fakesession_rpc` answers inside `send()`, in the caller's thread, while the caller's frame still holds the RPC object: a
request that was fired asynchronously and dropped, and whose reply comes in LATER, cannot be expressed there.  Here the
library's own `Session.run` loop runs in its own thread over the in-memory transport of `fakesession_wire` (real queue, real
parser, real `_dispatch_message`, real listeners, and the loop's own `except Exception: _dispatch_error(e); close()` - so a
listener that raises ends the session exactly as it does over SSH).  Nothing of ncclient is edited or patched beyond what
`fakesession_wire.install()` rebinds (the selector shim and TICK of `ncclient.transport.session`).

The scripted peer `server(request_text) -> [reply_text]` is called (in the session thread) when a complete request has
been written.  It is an IN-ORDER server (RFC 6241 pipelining): replies leave in the order of the requests.
  * a request announced with `hold()` (an asynchronous one) has its reply HELD BACK in `pending`;
  * any other request (a synchronous one, the caller is waiting) is answered at once - behind all the held replies;
  * `pump(k)` - called by the compiled program after an asynchronous request - first waits until the server has received
    everything the client queued (so that the server-side request log is in program order), garbage-collects
    (`gc.collect()`: whatever the library holds only weakly is gone now), releases the first k held replies (None = all)
    and waits until the session thread has read and dispatched them and sits in its selector again (or has ended),
    then garbage-collects again.  Quiescence is observed on the transport only (inbound empty at a selector entry), never
    by looking into ncclient objects.
The delivery schedule (the k of every pump) is part of the case, so a run is deterministic although two threads run."""
import gc
from harness import fakesession_wire as W
from harness.fakesession_rpc import DEFAULT_CAPS

DELIM = b']]>]]>'
WAIT = 3.0            # upper bound of every harness wait; reaching it is reported (`stuck`)


def _waking_queue(transport):
    class WakingQueue(W.RecordingQueue):
        """Session._q whose put wakes the selector of the in-memory transport (a real selector returns on its TICK; waking
        it early only saves the harness up to one TICK per request)."""
        def _put(self, item):
            W.RecordingQueue._put(self, item)
            with transport.cv:
                transport.cv.notify_all()
    return WakingQueue()


class AsyncEnv:
    def __init__(self, device_handler, server, caps=None, coalesce=False):
        from ncclient.capabilities import Capabilities
        s = W.make_session(device_handler)
        s._server_capabilities = Capabilities(caps if caps is not None else DEFAULT_CAPS)
        s._id = '4711'
        self.session, self.t, self.dh = s, s.t, device_handler
        s._q = _waking_queue(s.t)
        self.server = server
        self.coalesce = coalesce
        self.pos = 0                  # octets of t.wire already split into requests
        self.received = 0             # requests the server has seen
        self.hold_next = False
        self.pending = []             # held replies, oldest first
        self.feed_gen = 0
        self.idle_gen = 0
        self.stuck = []
        self.kept = []                # RPC objects of asynchronous requests the program keeps
        self.schedule = []
        self.pumps = 0
        self.fault = None             # 'eof-on-next': the server answers the next request by closing the connection
        self.lost = False             # the program lost the connection on purpose (`drop`)
        self.rec = W.ErrRecorder.make()
        s.add_listener(self.rec)
        s.t.on_write = self._on_write
        s.t.on_select = self._on_select
        s.start()

    # ---- session thread
    def _on_write(self, t):
        buf = bytes(t.wire[self.pos:])
        while True:
            i = buf.find(DELIM)
            if i < 0: break
            msg, buf = buf[:i], buf[i + len(DELIM):]
            self.pos += i + len(DELIM)
            replies = self.server(msg.decode('utf-8'))
            if self.fault == 'eof-on-next':          # the peer got the request and hangs up instead of answering
                with t.cv:
                    self.received += 1
                    self.hold_next = False
                    self.pending = []
                    t.cv.notify_all()
                t.feed_eof()
                continue
            with t.cv:
                self.received += 1
                hold, self.hold_next = self.hold_next, False
                if hold:
                    self.pending.extend(replies)
                    out = []
                else:
                    out, self.pending = self.pending + list(replies), []
                t.cv.notify_all()
            self._feed(out)

    def _on_select(self, t):
        with t.cv:
            if not t.inbound and self.idle_gen != self.feed_gen:
                self.idle_gen = self.feed_gen
                t.cv.notify_all()

    def _feed(self, replies):
        if not replies: return self.feed_gen
        segs = [r.encode('utf-8') + DELIM for r in replies]
        if self.coalesce: segs = [b''.join(segs)]
        with self.t.cv:
            for sg in segs: self.t.feed(sg)
            self.feed_gen += 1
            return self.feed_gen

    # ---- program thread
    def dead(self):
        return self.t.locally_closed or not self.session.is_alive()

    def _wait(self, pred, what):
        with self.t.cv:
            if not self.t.cv.wait_for(lambda: pred() or self.dead(), WAIT):
                self.stuck.append(what)

    def hold(self):
        self.hold_next = True

    def unhold(self):
        self.hold_next = False

    def pump(self, k=None):
        self._wait(lambda: self.received >= len(self.session._q.put_log), 'a queued request was never written')
        self.hold_next = False
        gc.collect()
        n = len(self.pending) if k is None else min(k, len(self.pending))
        if n:
            out = self.pending[:n]
            del self.pending[:n]
            g = self._feed(out)
            self._wait(lambda: self.idle_gen >= g, 'the session thread did not take the replies fed to it')
            gc.collect()

    def drop(self, how):
        """The connection is lost INSIDE the program (a statement of a with-body):
        'eof'          the peer closes; returns when the session thread has noticed and ended (`connected` is False)
        'close'        the application closes the session itself (session.close()), the thread has ended
        'eof-on-next'  the peer is still there but answers the NEXT request it receives by closing the connection
        'wr-oserr'     the next write on the transport raises OSError (EPIPE)"""
        self.lost = True
        self._wait(lambda: self.received >= len(self.session._q.put_log), 'a queued request was never written')
        if how == 'eof':
            self.pending = []
            self.t.feed_eof()
            self.session.join(WAIT)
        elif how == 'close':
            self.pending = []
            self.session.close()
            self.session.join(WAIT)
        elif how == 'eof-on-next':
            self.fault = 'eof-on-next'
        elif how == 'wr-oserr':
            self.t.answers.append(('raise', BrokenPipeError(32, 'Broken pipe')))
        else:
            raise ValueError('drop: %r' % (how,))
        if how in ('eof', 'close') and self.session.is_alive():
            self.stuck.append('the session thread did not end after the connection was lost (%s)' % how)

    def pump_next(self):
        """the pump after the i-th asynchronous request: k from the case's delivery schedule (0 when exhausted)"""
        i = self.pumps; self.pumps += 1
        k = self.schedule[i] if i < len(self.schedule) else 0
        self.pump(None if k == 'all' else k)

    def finish(self):
        """End of the program: every reply still held is delivered; -> what an application would see of the session."""
        self.pump(None)
        kept_unanswered = sum(1 for r in self.kept if not (r.event.is_set() and r.reply is not None and r.error is None))
        out = dict(connected=bool(self.session.connected), errback=[type(e).__name__ + ': ' + str(e)[:120] for e in self.rec.errors],
                   stuck=list(self.stuck), kept=len(self.kept), kept_unanswered=kept_unanswered, lost=self.lost)
        self.kept = []
        if not self.session.stop(WAIT): out['stuck'].append('the session thread did not end after close()')
        return out
