"""C14, session level on the real transport: histories "hostile / malformed message, then later requests".
A UnixSocketSession (real worker thread, real socketpair) of ANY device profile goes through several phases; in each
phase the application makes new requests (asynchronous ones, and synchronous ones in threads of their own), the scripted
server answers some of them, sends notifications, and then payloads that are not XML: hostile texts (tools/harness/lts.py
HOSTILE: an error report inside garbage, a correct-looking reply to an outstanding request behind garbage, ...) and
messages with a VALID root start tag (<rpc-reply message-id=...>, <notification>) whose body is not well-formed
(BADBODY).  At the end the application takes the notifications with Manager.take_notification().

Oracle (from the property text; lxml is not consulted - the independent reader is expat):
  * what a caller gets as data is the exact payload of a correctly framed, well-formed message: a request holds its own
    reply text or nothing; a synchronous call never RETURNS a reply that is not well-formed, an asynchronous caller cannot
    parse one; take_notification returns exactly the well-formed notifications sent, in order, each with a usable
    notification_ele, and never a payload that is not well-formed (such a message is dropped or ends the session);
  * a hostile message is dropped, or fails the requests outstanding at that moment, or ends the session with an error; in the
    first two cases it decides nothing about later requests: every request made in a later phase whose (valid) reply is sent
    holds that reply, the session is connected, the worker alive;
  * only a payload that is not XML may end the session here (the scripts contain nothing else that may), and if one does:
    every request still outstanding has an error, the session is disconnected, the worker has stopped, and everything the
    server had sent BEFORE that payload (the valid replies of that phase, the notifications) was delivered."""
import time, threading
from . import framing as F
from .lts import HOSTILE, BADBODY, NOTIF, wellformed

PROFILES = ['default', 'junos', 'csr', 'nexus', 'iosxr', 'iosxe', 'huawei', 'huaweiyang', 'alu', 'h3c', 'hpcomware', 'sros', 'ericsson', 'ciena']


class HistRig(F.SessionRig):
    def __init__(self, base, profile):
        from ncclient.manager import make_device_handler
        from ncclient.transport.session import NotificationHandler
        F.SessionRig.__init__(self, base)
        # SessionRig built the session with the default profile; the profile under test replaces it before any octet is sent
        self.dh = make_device_handler({'name': profile})
        self.s._device_handler = self.dh
        self.s.add_listener(NotificationHandler(self.s._notification_q))      # what _post_connect does


def notif_text(n):
    return '<notification xmlns="%s"><eventTime>2026-01-01T00:00:0%dZ</eventTime><ev>n%d</ev><t>é %d</t></notification>' % (NOTIF, n % 10, n, n)

def notif_bad_text(n, v):
    return '<notification xmlns="%s"><eventTime>2026-01-01T00:00:0%dZ</eventTime><ev>n%d</ev>' % (NOTIF, n % 10, n) + BADBODY[v % len(BADBODY)].replace('{root}', 'notification')

def reply_bad_text(mid, v):
    return '<rpc-reply xmlns="%s" message-id="%s"><data>' % (F.NS, mid) + BADBODY[v % len(BADBODY)].replace('{root}', 'rpc-reply')


def make_script(rng, base, profile, quick=True):
    """phases: [{'reqs': [sync?...], 'items': [...]}]; items: ['reply', i] ['reply_bad', i, v] ['notif', n] ['hostile', v, i|None]
    ['frame', hex] ['notif_bad', n, v]; request numbers i are global.  In a phase the replies come first, the hostile payloads
    after them (a profile may fail the outstanding requests on such a payload: their replies would then be replies to unknown
    ids); requests of a phase that are not answered stay outstanding for ever."""
    phases, nreq, nn = [], 0, 0
    nph = 2 if quick else rng.choice([2, 2, 3])
    bad_notif_at = (nph - 1 if rng.random() < 0.7 else rng.randrange(nph)) if rng.random() < 0.4 else None    # dropped or fatal: later phases see which
    for ph in range(nph):
        k = rng.randint(1, 2)
        ids = list(range(nreq, nreq + k)); nreq += k
        answered = [i for i in ids if rng.random() < 0.8] or ids[:1]
        reqs = [(i in answered and rng.random() < 0.5) for i in ids]       # a synchronous call (own thread) only where an answer comes
        items = []
        rng.shuffle(answered)
        for i in answered:
            if rng.random() < 0.35:
                nn += 1; items.append(['notif', nn])
            if rng.random() < 0.2:
                items.append(['reply_bad', i, rng.randrange(len(BADBODY))])
            else:
                items.append(['reply', i])
        outstanding = [i for i in ids if i not in answered]
        for _ in range(rng.choice([0, 1, 1, 2])):
            r = rng.random()
            if r < 0.7:
                items.append(['hostile', rng.randrange(len(HOSTILE)), (rng.choice(outstanding) if outstanding else None)])
            else:
                items.append(['frame', rng.choice([b'not xml', b'', b'&', b'{}', b'</x>', b'<<<']).hex()])
            if rng.random() < 0.3:
                nn += 1; items.append(['notif', nn])
        if bad_notif_at == ph:
            items.append(['notif_bad', 50 + ph, rng.randrange(len(BADBODY))])
        phases.append({'reqs': reqs, 'items': items})
    return {'level': 'session', 'scenario': 'h', 'base': base, 'profile': profile, 'phases': phases,
            'cut_fracs': sorted(round(rng.random(), 4) for _ in range(rng.choice([0, 0, 1, 3]))), 'settle': rng.random() < 0.6}


def run_script(case):
    """-> (ok, what, sig, observation)"""
    from ncclient.operations.rpc import RPC
    from ncclient.xml_ import new_ele
    from ncclient.manager import Manager
    class Get(RPC):
        def request(self):
            return self._request(new_ele('get'))
    base = case['base']
    rig = HistRig(base, case['profile'])
    obs = {}
    try:
        s = rig.s
        rpcs, sync_res, texts, badtexts, issued_at, phase_of = [], {}, {}, {}, {}, {}
        sent_notifs = []
        dead_phase = None                     # the phase during which the session ended
        for pi, ph in enumerate(case['phases']):
            alive_before = s.connected and s.is_alive()
            if not alive_before and dead_phase is None:
                dead_phase = pi - 1
            first = len(rpcs)
            threads = []
            for sync in ph['reqs']:
                i = len(rpcs)
                r = Get(s, rig.dh, async_mode=not sync, timeout=4)
                rpcs.append(r); issued_at[i] = len(rig.events); phase_of[i] = pi
                if sync:
                    def call(i=i, r=r):
                        try:
                            r.request(); sync_res[i] = ('returned', r.reply._raw if r.reply is not None else None)
                        except Exception as e:
                            sync_res[i] = ('raised', type(e).__name__)
                    t = threading.Thread(target=call, daemon=True); t.start(); threads.append(t)
                else:
                    try:
                        r.request()
                    except Exception as e:
                        sync_res[i] = ('raised', type(e).__name__)
            n_new = len(rpcs) - first
            if alive_before:
                reqs = rig.drain_requests(n_new)
                ids = F.MSGID.findall(reqs.decode('utf-8', 'replace'))
                if sorted(ids) != sorted(r.id for r in rpcs[first:]) and s.connected:
                    return False, 'phase %d: the peer did not receive the %d framed requests of a connected session: %r' % (pi, n_new, reqs[:200]), 'requests_not_sent', {'requests': reqs.hex()}
            stream = b''
            for it in ph['items']:
                if it[0] == 'reply':
                    texts[it[1]] = F.reply(rpcs[it[1]].id, '<data>%d é</data>' % it[1]); p = texts[it[1]].encode('utf-8')
                elif it[0] == 'reply_bad':
                    badtexts[it[1]] = reply_bad_text(rpcs[it[1]].id, it[2]); p = badtexts[it[1]].encode('utf-8')
                elif it[0] == 'notif':
                    sent_notifs.append(notif_text(it[1])); p = sent_notifs[-1].encode('utf-8')
                elif it[0] == 'notif_bad':
                    p = notif_bad_text(it[1], it[2]).encode('utf-8')
                elif it[0] == 'hostile':
                    p = HOSTILE[it[1] % len(HOSTILE)].replace('{id}', rpcs[it[2]].id if it[2] is not None else 'urn:uuid:0').encode('utf-8')
                else:
                    p = bytes.fromhex(it[1])
                stream += F.frame(base, p)
            cuts = sorted(set(c for c in (int(fr * len(stream)) for fr in case['cut_fracs']) if 0 < c < len(stream)))
            for seg in F.segment(stream, cuts):
                if not rig.send(seg, settle=case['settle']): break
            want = [rpcs[it[1]] for it in ph['items'] if it[0] in ('reply', 'reply_bad')]
            rig.wait(lambda: all(r.event.is_set() for r in want) or not s.is_alive(), 4.0)
            rig.quiesce()
            for t in threads: t.join(0.5 if all(r.event.is_set() for r in want) else 4.5)
        # the application takes what is queued
        taken = []
        mgr = Manager(s, rig.dh, timeout=1)
        for _ in range(len(sent_notifs) + 3):
            n = mgr.take_notification(block=False)
            if n is None: break
            try:
                ele = n.notification_ele; view = str(ele.tag)
            except Exception as e:
                view = 'raises:' + type(e).__name__
            taken.append([n.notification_xml, view])
        if not s.connected:
            s.join(3)
        obs = {'rpcs': [{'reply': (r.reply._raw if r.reply is not None else None), 'error': (type(r.error).__name__ if r.error is not None else None),
                         'event_set': r.event.is_set(), 'sync': sync_res.get(i)} for i, r in enumerate(rpcs)],
               'connected': s.connected, 'worker_alive': s.is_alive(), 'taken': taken,
               'errbacks': [x for k, x in rig.events if k == 'err'], 'callbacks': len([1 for k, x in rig.events if k == 'cb'])}
        qtag = '{%s}notification' % NOTIF
        # --- data that reached callers
        for i, (r, o) in enumerate(zip(rpcs, obs['rpcs'])):
            if o['reply'] is not None:
                if o['reply'] not in (texts.get(i), badtexts.get(i)):
                    return False, 'request %d holds %r, which is not the reply sent for it' % (i, o['reply'][:80]), 'foreign_or_invented_reply', obs
                if not wellformed(o['reply']):
                    if o['sync'] and o['sync'][0] == 'returned':
                        return False, 'synchronous request %d RETURNED a reply that is not well-formed XML: %r' % (i, o['reply'][:80]), 'malformed_reply_as_data', obs
                    try:
                        r.reply.parse()
                        return False, 'the reply of request %d is not well-formed XML and parses: %r' % (i, o['reply'][:80]), 'malformed_reply_as_data', obs
                    except Exception:
                        pass
            if o['sync'] and o['sync'][0] == 'returned' and (o['sync'][1] != texts.get(i)):
                return False, 'synchronous request %d returned %r instead of its reply' % (i, (o['sync'][1] or '')[:80]), 'foreign_or_invented_reply', obs
        for xml, view in taken:
            if not wellformed(xml):
                return False, 'take_notification returned a payload that is not well-formed XML: %r' % xml[:100], 'malformed_notification_delivered', obs
            if view != qtag:
                return False, 'notification_ele of a delivered notification: %r' % view, 'notification_ele_unusable', obs
        got = [x for x, _ in taken]
        ended = not obs['connected']
        if ended and dead_phase is None:
            dead_phase = len(case['phases']) - 1
        # only a payload that is not XML may end the session in these scripts ("dropped or end the session with an error")
        may_end = ended and dead_phase >= 0 and any(it[0] in ('hostile', 'frame', 'notif_bad') for it in case['phases'][dead_phase]['items'])
        must = len(sent_notifs)
        if ended:              # what preceded, in the stream, the first payload that may have ended the session
            must = 0
            for pi, ph in enumerate(case['phases'][:dead_phase + 1]):
                for it in ph['items']:
                    if pi == dead_phase and it[0] in ('hostile', 'frame', 'notif_bad'): break
                    if it[0] == 'notif': must += 1
        if got != sent_notifs[:len(got)] or len(got) < must:
            return False, 'take_notification returned %d notifications %r..., sent %d, of which %d before anything that may end the session (order / duplicates / loss)' % (len(got), [g[:60] for g in got[:3]], len(sent_notifs), must), 'notifications_differ', obs
        # --- the session
        if ended and not may_end:
            return False, 'the session ended (errbacks %r) although the server sent only replies, notifications and payloads that are not XML' % obs['errbacks'], 'session_died_on_hostile_message', obs
        if ended:
            if obs['worker_alive']:
                return False, 'session disconnected but the worker thread is still alive 3 s later', 'worker_alive_after_error_close', obs
            for i, o in enumerate(obs['rpcs']):
                if o['reply'] is None and o['error'] is None and not (o['sync'] and o['sync'][0] == 'raised'):
                    return False, 'the session ended and request %d is still pending (no error delivered)' % i, 'pending_not_failed', obs
        # --- every valid reply sent while the session lived reaches its request; a reply never comes from nowhere
        first_dead = dead_phase if ended else None          # the replies of that phase precede, in the stream, whatever ended the session
        for i, o in enumerate(obs['rpcs']):
            sent_ok = i in texts and (first_dead is None or phase_of[i] <= first_dead)
            if sent_ok and o['reply'] != texts[i]:
                return False, ('request %d (phase %d) does not hold the valid reply sent for it (reply %r, error %r, sync %r): an earlier '
                               'hostile message decided the fate of a later request, or a reply was lost') % (i, phase_of[i], (o['reply'] or '')[:60], o['error'], o['sync']), 'valid_reply_not_delivered', obs
            if sent_ok and o['sync'] and o['sync'][0] != 'returned':
                return False, 'synchronous request %d: its valid reply was delivered but the call raised %s' % (i, o['sync'][1]), 'valid_reply_not_delivered', obs
            if i in badtexts and o['sync'] and o['sync'] != ('raised', 'XMLSyntaxError') and (first_dead is None or phase_of[i] <= first_dead):
                return False, 'synchronous request %d got a reply that is not well-formed: expected the call to raise a parse error, got %r' % (i, o['sync']), 'malformed_reply_outcome', obs
            if i not in texts and i not in badtexts and o['reply'] is not None:
                return False, 'request %d was never answered and holds a reply' % i, 'foreign_or_invented_reply', obs
        return True, '', None, obs
    finally:
        rig.close()
        if rig.alive():
            obs['worker_alive_after_close'] = True


# ---------------------------------------------------------------- scenario e: the END of a session with LEFTOVERS in the receive buffer
"""Scenario e ("whenever the worker stops for any reason the session is marked disconnected and pending requests are failed").
History: 1-3 requests are outstanding (asynchronous ones, and synchronous ones in threads of their own); the server answers some
of them and then sends the BEGINNING of a frame and nothing more - 1.0: text without ]]>]]> (or with the first octets of the
delimiter), 1.1: a chunk shorter than its header says / a complete chunk without end-of-chunks / the first octets of a header -
whose last octets are what any read boundary may leave behind: the first octet(s) of a multi-octet character, a stray 0xff / a stray
continuation octet, an overlong form (or, as controls, a complete character, ASCII, nothing at all).  Then the session ENDS:
  close          the application calls session.close()
  close_session  the application calls Manager.close_session() (synchronous: the <close-session> request can not be answered any
                 more and times out; asynchronous: it returns at once) - the transport is closed in both cases
  with_exit      the application leaves the Manager's with-block
  eof            the peer shuts its side down
  reset          the peer closes the socket with unread data (ECONNRESET where the platform reports one)
either after the worker has taken the leftover octets in, or racing with them.
Oracle (the property sentence, nothing of the implementation): a request whose complete valid reply preceded the leftover holds
exactly that reply; EVERY other request is failed with an error object within the bound (event set, .error an Exception; a
synchronous call raises) - never left waiting; nothing of the unfinished frame reaches a listener as a message; `connected` is False;
the session thread has ended; a local close returns within the bound; a request made afterwards is refused / failed at once."""
import socket as _socket

E_TAILS = {'lead_of_2': b'\xc3', 'lead_of_3': b'\xe2', 'two_of_3': b'\xe2\x82', 'three_of_4': b'\xf0\x9f\x98', 'lead_of_4': b'\xf0',
           'stray_ff': b'\xff', 'stray_cont': b'\x80', 'overlong': b'\xc0\x80', 'surrogate': b'\xed\xa0\x80',
           'bad_then_ascii': b'\xff</data>', 'lead_then_ascii': b'\xc3(more',
           'complete_char': 'café'.encode('utf-8'), 'ascii': b'plain', 'nothing': None}
E_UNDECODABLE = [k for k, v in E_TAILS.items() if v is not None and k not in ('complete_char', 'ascii')]
E_SHAPES = {10: ['no_delim', 'part_delim'], 11: ['short_chunk', 'chunk_no_end', 'second_chunk_short', 'part_header']}
E_ENDS = ['close', 'close_session', 'close_session_async', 'with_exit', 'eof', 'reset']


def make_end_script(rng, base, tail=None, end=None, profile=None):
    n_rpc = rng.randint(1, 3)
    order = list(range(n_rpc)); rng.shuffle(order)
    k = rng.randint(0, n_rpc - 1)                       # replies delivered before the leftover: at least one request stays outstanding
    if tail is None:
        tail = rng.choice(E_UNDECODABLE) if rng.random() < 0.8 else rng.choice(['complete_char', 'ascii', 'nothing'])
    return {'level': 'session', 'scenario': 'e', 'base': base, 'profile': profile or rng.choice(['default', 'default', 'junos', 'huawei', 'iosxe']),
            'reqs': [rng.random() < 0.35 for _ in range(n_rpc)],       # True = synchronous call in its own thread
            'answered': order[:k], 'tail': tail, 'shape': rng.choice(E_SHAPES[base]),
            'about': rng.choice(['reply', 'reply', 'notification', 'bare']),          # what the unfinished frame begins like
            'end': end or rng.choice(E_ENDS), 'settle': rng.random() < 0.75, 'cut_inside_leftover': rng.random() < 0.3}


def _leftover(case, mid):
    """the octets of the unfinished frame"""
    base, tail = case['base'], E_TAILS[case['tail']]
    if tail is None:
        return b''
    head = {'reply': '<rpc-reply xmlns="%s" message-id="%s"><data>Zürich ' % (F.NS, mid),
            'notification': '<notification xmlns="%s"><eventTime>2026-01-01T00:00:00Z</eventTime><ev>n9</ev><t>' % NOTIF,
            'bare': ''}[case['about']].encode('utf-8')
    body = head + tail
    sh = case['shape']
    if base == 10:
        return body + (b']]>]]' if sh == 'part_delim' else b'')
    if sh == 'short_chunk':
        return b'\n#%d\n' % (len(body) + 40) + body
    if sh == 'chunk_no_end':
        return b'\n#%d\n' % len(body) + body
    if sh == 'second_chunk_short':
        return (b'\n#%d\n' % len(head) + head if head else b'') + b'\n#%d\n' % (len(tail) + 7) + tail
    return b'\n#%d\n' % len(body) + body + b'\n#1'                 # part_header


def run_end_script(case, bound=3.0):
    """-> (ok, what, sig, observation)"""
    from ncclient.operations.rpc import RPC
    from ncclient.xml_ import new_ele
    from ncclient.manager import Manager
    class Get(RPC):
        def request(self):
            return self._request(new_ele('get'))
    base = case['base']
    rig = HistRig(base, case['profile'])
    obs = {}
    try:
        s = rig.s
        rpcs, sync_res, threads = [], {}, []
        for i, sync in enumerate(case['reqs']):
            r = Get(s, rig.dh, async_mode=not sync, timeout=8)
            rpcs.append(r)
            if sync:
                def call(i=i, r=r):
                    try:
                        r.request(); sync_res[i] = ['returned', r.reply._raw if r.reply is not None else None]
                    except BaseException as e:
                        sync_res[i] = ['raised', type(e).__name__]
                t = threading.Thread(target=call, daemon=True); t.start(); threads.append(t)
            else:
                r.request()
        reqs = rig.drain_requests(len(rpcs))
        ids = F.MSGID.findall(reqs.decode('utf-8', 'replace'))
        if sorted(ids) != sorted(r.id for r in rpcs):
            return False, 'the peer did not receive the %d framed requests: %r' % (len(rpcs), reqs[:200]), 'requests_not_sent', {'requests': reqs.hex()}
        texts = {i: F.reply(rpcs[i].id, '<data>%d é</data>' % i) for i in case['answered']}
        outstanding = [i for i in range(len(rpcs)) if i not in texts]
        stream = b''.join(F.frame(base, texts[i].encode('utf-8')) for i in case['answered'])
        left = _leftover(case, rpcs[outstanding[0]].id)
        cuts = [len(stream)] if stream and left else []
        if case['cut_inside_leftover'] and len(left) > 2: cuts.append(len(stream) + len(left) - 1)
        for seg in F.segment(stream + left, cuts):
            if seg and not rig.send(seg, settle=case['settle']): break
        if case['settle']:
            rig.wait(lambda: all(rpcs[i].event.is_set() for i in texts), 3.0)
            rig.quiesce()
        # ---- the end of the session
        end, end_res = case['end'], {}
        t_end = time.time()
        def local():
            try:
                if end == 'close':
                    s.close()
                elif end in ('close_session', 'close_session_async'):
                    m = Manager(s, rig.dh, timeout=0.3); m.async_mode = end.endswith('async')
                    m.close_session()
                else:
                    with Manager(s, rig.dh, timeout=0.3):
                        pass
                end_res['r'] = 'returned'
            except BaseException as e:
                end_res['r'] = 'raised:' + type(e).__name__
        closer = None
        if end == 'eof':
            try: rig.b.shutdown(_socket.SHUT_WR)
            except OSError: pass
        elif end == 'reset':
            try: rig.b.close()                  # unread requests of the client may still be queued: the platform may report a reset
            except OSError: pass
        else:
            closer = threading.Thread(target=local, daemon=True); closer.start()
            closer.join(bound + 1.0)
        pend = [rpcs[i] for i in outstanding]
        rig.wait(lambda: all(r.event.is_set() for r in pend) and not s.is_alive() and not s.connected, bound)
        waited = time.time() - t_end
        for t in threads: t.join(0.5)
        # a request made after the end
        late = Get(s, rig.dh, async_mode=True, timeout=2)
        try:
            late.request(); late_res = 'accepted'
            if late.event.wait(1.0): late_res = 'failed:' + type(late.error).__name__ if late.error is not None else 'completed'
        except Exception as e:
            late_res = 'refused:' + type(e).__name__
        obs = {'rpcs': [{'reply': (r.reply._raw if r.reply is not None else None), 'error': (type(r.error).__name__ if r.error is not None else None),
                         'error_is_exception': isinstance(r.error, Exception), 'event_set': r.event.is_set(), 'sync': sync_res.get(i)} for i, r in enumerate(rpcs)],
               'connected': s.connected, 'worker_alive': s.is_alive(), 'local_end': end_res.get('r') if closer is not None else None,
               'local_end_returned': (not closer.is_alive()) if closer is not None else None,
               'callbacks': [x for k, x in rig.events if k == 'cb'], 'errbacks': [x for k, x in rig.events if k == 'err'],
               'late_request': late_res, 'waited_s': round(waited, 2), 'leftover': left.hex()}
        tag = '%s after %s leftover (%s)' % (end, 'an undecodable' if case['tail'] in E_UNDECODABLE else ('a decodable' if left else 'no'), case['tail'])
        sent = [texts[i] for i in case['answered']]
        for cb in obs['callbacks']:
            if cb not in sent:
                return False, 'a listener received %r: not a message the server framed (%s)' % (cb[:80], tag), 'delivered_not_framed', obs
        if case['settle'] and obs['callbacks'] != sent:
            return False, 'callbacks %r differ from the messages framed before the unfinished frame (%s)' % (obs['callbacks'], tag), 'callbacks_differ', obs
        for i, o in enumerate(obs['rpcs']):
            if o['reply'] is not None and o['reply'] != texts.get(i):
                return False, 'request %d holds %r which is not its reply (%s)' % (i, o['reply'][:80], tag), 'foreign_or_invented_reply', obs
            if o['sync'] and o['sync'][0] == 'returned' and o['sync'][1] != texts.get(i):
                return False, 'synchronous request %d returned %r (%s)' % (i, o['sync'][1], tag), 'foreign_or_invented_reply', obs
            if i in texts:
                if case['settle'] and o['reply'] is None:
                    return False, 'request %d: its complete reply preceded the unfinished frame and was taken in before the end, but was not delivered (%s)' % (i, tag), 'reply_before_end_lost', obs
                if o['reply'] is not None: continue
            if not o['event_set'] or o['error'] is None:
                return False, ('request %d is still waiting %.1f s after the session ended (event set: %r, error: %r, worker alive: %r): a pending request was '
                               'never failed - %s') % (i, waited, o['event_set'], o['error'], obs['worker_alive'], tag), 'pending_not_failed_at_end', obs
            if not o['error_is_exception']:
                return False, 'request %d failed with %r which is not an error object (%s)' % (i, o['error'], tag), 'pending_not_failed_at_end', obs
            if case['reqs'][i] and (not o['sync'] or o['sync'][0] != 'raised'):
                return False, 'synchronous request %d: the call did not raise although the session ended (%r) - %s' % (i, o['sync'], tag), 'pending_not_failed_at_end', obs
        if obs['connected']:
            return False, 'the session still reports connected after %s' % tag, 'still_connected_after_end', obs
        if obs['worker_alive']:
            s.join(bound)
            if s.is_alive():
                return False, 'the session thread is alive %.0f s after %s' % (bound + waited, tag), 'worker_alive_after_end', obs
        if closer is not None and not obs['local_end_returned']:
            return False, 'the local close did not return within %.0f s (%s)' % (bound + 1, tag), 'close_does_not_return', obs
        if not obs['errbacks']:
            return False, 'requests were outstanding when the session ended and no error was broadcast to the listeners (%s)' % tag, 'no_error_broadcast_at_end', obs
        if late_res in ('accepted', 'completed'):
            return False, 'a request made after the session ended was %s (%s)' % (late_res, tag), 'request_after_end_waits', obs
        return True, '', None, obs
    finally:
        rig.close()
        if rig.alive():
            obs['worker_alive_after_close'] = True


def end_scripts(rng, quick=True, seed=0):
    """quick: every undecodable leftover x both framings once, the way the session ends rotating (local ends twice as often as peer
    ends), plus the controls; thorough: every leftover x framing x end"""
    cases = []
    if quick:
        ends = ['close', 'close_session', 'eof', 'with_exit', 'close', 'close_session_async', 'reset', 'close']
        j = seed
        for tail in E_UNDECODABLE:
            for base in (10, 11):
                cases.append(make_end_script(rng, base, tail, ends[j % len(ends)])); j += 1
        for tail in ('complete_char', 'ascii', 'nothing'):
            cases.append(make_end_script(rng, 10 if (j % 2) else 11, tail, ends[j % len(ends)])); j += 1
    else:
        for tail in E_TAILS:
            for base in (10, 11):
                for end in E_ENDS:
                    cases.append(make_end_script(rng, base, tail, end))
        for _ in range(60):
            cases.append(make_end_script(rng, rng.choice([10, 11])))
    return cases


# ---------------------------------------------------------------- scenario l: who receives what AFTER the hello - listeners that were removed
"""Scenario l ("whatever bytes a server sends AFTER THE HELLO ... every message delivered to listeners ... none invented").
The session is established by a REAL `UnixSocketSession.connect(path)` against a listening Unix socket: the scripted server accepts,
sends its <hello> (session-id, capabilities; base:1.1 or not), the capability exchange runs (`_post_connect`, HelloHandler).  Then a
history of steps, strictly one after the other:
  hello2 v   the server sends ANOTHER <hello> in the negotiated framing - other session-id, other capabilities (v: more / fewer / none /
             no session-id) - to an established session (hostile input after the hello)
  add k / remove k   the application registers / unregisters its listener k (`Session.add_listener` / `remove_listener`)
  msg n      the server sends a well-formed message <m n="..."/>
  frame hex  the server sends a correctly framed payload that is not XML (default profile: dropped)
  req sync   the application makes a request (the FIRST one registers the reply listener), the server sends its valid reply
and finally a sentinel (a fresh listener is added, one more message is sent and awaited: everything before it was dispatched), after
which the session may be ended by the peer (eof).
Oracle (property text only): the identity of the session - `session.id`, `session.server_capabilities`, the framing base - is what the
hello of the capability exchange said, whatever arrives later; listener k received EXACTLY the well-formed messages the server sent
while k was registered, in order, nothing before `add`, nothing after `remove` (a removed listener is not a listener: a message handed
to it is delivered to nobody the application knows about); a payload that is not XML reaches no listener; every request holds its own
reply (profiles whose reply listener takes every message as a reply - `perform_qualify_check()` False - make no request here); the session stays connected; at the end every registered listener gets the error exactly once, a removed one nothing."""
import os as _os, tempfile as _tempfile, shutil as _shutil

L_CAPS1 = ['urn:ietf:params:netconf:base:1.0', 'urn:ietf:params:netconf:capability:candidate:1.0', 'urn:ietf:params:netconf:capability:validate:1.1']
L_HELLO2 = ['more_caps', 'fewer_caps', 'no_caps', 'no_session_id', 'same_caps_other_id']


def hello_text(sid, caps):
    return '<hello xmlns="%s"><capabilities>%s</capabilities>%s</hello>' % (
        F.NS, ''.join('<capability>%s</capability>' % c for c in caps), '<session-id>%s</session-id>' % sid if sid is not None else '')


def hello2_text(v, base):
    b11 = ['urn:ietf:params:netconf:base:1.1']
    if v == 'more_caps':
        return hello_text('999', L_CAPS1 + b11 + ['urn:ietf:params:netconf:capability:writable-running:1.0', 'urn:ietf:params:netconf:capability:startup:1.0'])
    if v == 'fewer_caps':
        return hello_text('31337', ['urn:ietf:params:netconf:base:1.0'] if base == 11 else ['urn:ietf:params:netconf:base:1.0'] + b11)
    if v == 'no_caps':
        return hello_text('4', [])
    if v == 'no_session_id':
        return hello_text(None, ['urn:ietf:params:netconf:base:1.0', 'urn:evil:cap'])
    return hello_text('2', L_CAPS1 + (b11 if base == 11 else []))


def make_listener_script(rng, base, profile='default', fixed=None):
    """fixed = a hello2 variant: the plain history connect -> second hello -> request; otherwise a random add / remove history"""
    if fixed is not None:
        steps = [['hello2', fixed]]
        if rng.random() < 0.5: steps.append(['hello2', rng.choice(L_HELLO2)])
        steps += [['req', rng.random() < 0.5], ['hello2', fixed], ['req', False]]
        if rng.random() < 0.5: steps.insert(0, ['msg', 0])
    else:
        steps, reg, known, n = [], [], 0, 0
        for _ in range(rng.randint(5, 11)):
            r = rng.random()
            if r < 0.22 and known < 4:
                steps.append(['add', known]); reg.append(known); known += 1
            elif r < 0.42 and reg:
                k = rng.choice(reg); reg.remove(k); steps.append(['remove', k])
            elif r < 0.50 and known:
                k = rng.randrange(known)                       # re-add a removed one / add twice / remove twice: set semantics
                if rng.random() < 0.5:
                    steps.append(['add', k]); reg.append(k) if k not in reg else None
                else:
                    steps.append(['remove', k]); reg.remove(k) if k in reg else None
            elif r < 0.62:
                steps.append(['hello2', rng.choice(L_HELLO2)])
            elif r < 0.72:
                steps.append(['req', rng.random() < 0.4])
            elif r < 0.78 and profile == 'default':
                steps.append(['frame', rng.choice([b'not xml', b'&', b'{}', b'</x>']).hex()])
            else:
                n += 1; steps.append(['msg', n])
        if not any(s[0] == 'remove' for s in steps):
            steps = [['add', 0], ['msg', 90], ['remove', 0], ['msg', 91]] + [s for s in steps if s[0] not in ('add', 'remove')]
    return {'level': 'session', 'scenario': 'l', 'base': base, 'profile': profile, 'steps': steps, 'sid': str(rng.randint(5, 60)),
            'end': rng.choice([None, 'eof']), 'settle': rng.random() < 0.5}


def listener_scripts(rng, quick=True, seed=0):
    cases = []
    profs = ['default', 'junos', 'default', 'iosxe', 'huawei', 'default', 'nexus', 'sros']
    j = seed
    for v in L_HELLO2:
        for base in ((10, 11) if not quick or v in ('more_caps', 'fewer_caps') else ((10,) if (j % 2) else (11,))):
            cases.append(make_listener_script(rng, base, profs[j % len(profs)], fixed=v)); j += 1
    for i in range(10 if quick else 80):
        cases.append(make_listener_script(rng, 10 if (i + seed) % 2 else 11, profs[(i + j) % len(profs)]))
    return cases


def run_listener_script(case, bound=3.0):
    """-> (ok, what, sig, observation)"""
    from ncclient.manager import make_device_handler
    from ncclient.transport.unixSocket import UnixSocketSession
    from ncclient.transport.session import SessionListener, NetconfBase
    from ncclient.operations.rpc import RPC
    from ncclient.xml_ import new_ele
    class Get(RPC):
        def request(self):
            return self._request(new_ele('get'))
    class Rec(SessionListener):
        def __init__(self): self.got = []; self.errs = []
        def callback(self, root, raw): self.got.append(raw)
        def errback(self, ex): self.errs.append(type(ex).__name__)
    base = case['base']
    caps1 = L_CAPS1 + (['urn:ietf:params:netconf:base:1.1'] if base == 11 else [])
    d = _tempfile.mkdtemp(prefix='c14l')
    path = _os.path.join(d, 's')
    srv = _socket.socket(_socket.AF_UNIX, _socket.SOCK_STREAM)
    srv.bind(path); srv.listen(1)
    conn = {}
    def server():
        try:
            srv.settimeout(5)
            c, _ = srv.accept(); conn['c'] = c
            c.sendall(hello_text(case['sid'], caps1).encode('utf-8') + F.DELIM10)
        except Exception as e:
            conn['err'] = repr(e)
    th = threading.Thread(target=server, daemon=True); th.start()
    dh = make_device_handler({'name': case['profile']})
    s = UnixSocketSession(dh)
    obs = {}
    def wait(pred, b=bound):
        t = time.time() + b
        while time.time() < t:
            if pred(): return True
            time.sleep(0.001)
        return pred()
    try:
        try:
            s.connect(path=path, timeout=5)
        except Exception as e:
            return False, 'connect() to a server that sent a valid <hello> raised %s: %s' % (type(e).__name__, e), 'connect_failed', {'server': conn.get('err')}
        th.join(2)
        c = conn['c']
        id0, caps0, base0 = s.id, sorted(s.server_capabilities), s._base
        if id0 != case['sid'] or caps0 != sorted(caps1) or (base0 == NetconfBase.BASE_11) != (base == 11):
            return False, 'after connect(): id %r capabilities %r base %r, the hello said id %r capabilities %r' % (id0, caps0, base0, case['sid'], sorted(caps1)), 'hello_not_taken', {}
        inbuf = [b'']
        def drain(n_terms):
            c.settimeout(0.05)
            term = F.END11 if base == 11 else F.DELIM10
            t = time.time() + bound
            while time.time() < t and inbuf[0].count(term) < n_terms:
                try:
                    x = c.recv(65536)
                except _socket.timeout:
                    continue
                except OSError:
                    break
                if not x: break
                inbuf[0] += x
            c.settimeout(None)
        nterm = [1 if base == 10 else 0]                      # the client's hello leaves in 1.0 framing
        recs, registered, expect = {}, [], {}
        sent, rpcs, sync_res, texts = [], [], {}, {}
        identity = []                                          # [step index, id, capabilities, base] wherever it differs from the hello's
        def unread_zero():
            return s._socket is None or s._socket.fileno() < 0 or F._unread(s._socket) == 0
        def server_sends(text_bytes, wf_text):
            c.sendall(F.frame(base, text_bytes))
            if wf_text is not None:
                sent.append(wf_text)
                for k in registered: expect[k].append(wf_text)
            live = [k for k in registered if wf_text is not None]
            if live:
                wait(lambda: all(len(recs[k].got) >= len(expect[k]) for k in live))
            else:
                wait(unread_zero); time.sleep(0.03 if case['settle'] else 0.01)
        def look(i):
            now = [s.id, sorted(s.server_capabilities), s._base]
            if now != [id0, caps0, base0]:
                identity.append([i, now[0], now[1], str(now[2])])
        for i, st in enumerate(case['steps']):
            if st[0] == 'add':
                k = st[1]
                if k not in recs: recs[k] = Rec(); expect[k] = []
                s.add_listener(recs[k])
                if k not in registered: registered.append(k)
            elif st[0] == 'remove':
                k = st[1]
                if k in recs:
                    s.remove_listener(recs[k])
                    if k in registered: registered.remove(k)
            elif st[0] == 'msg':
                t = '<m xmlns="urn:c14:l" n="%d">é%d</m>' % (st[1], st[1])
                server_sends(t.encode('utf-8'), t)
            elif st[0] == 'frame':
                server_sends(bytes.fromhex(st[1]), None)
            elif st[0] == 'hello2':
                t = hello2_text(st[1], base)
                server_sends(t.encode('utf-8'), t)
                look(i)
            elif st[0] == 'req':
                if not dh.perform_qualify_check():
                    # such a profile (junos, ...) hands EVERY message to the reply listener, which ends the session on one without a
                    # message-id ("an error, not a delivery"): with these profiles the history stays one of listeners and hellos
                    continue
                j = len(rpcs); sync = st[1]
                r = Get(s, dh, async_mode=not sync, timeout=4); rpcs.append(r)
                thr = None
                if sync:
                    def call(j=j, r=r):
                        try:
                            r.request(); sync_res[j] = ['returned', r.reply._raw if r.reply is not None else None]
                        except Exception as e:
                            sync_res[j] = ['raised', type(e).__name__]
                    thr = threading.Thread(target=call, daemon=True); thr.start()
                else:
                    try:
                        r.request()
                    except Exception as e:
                        sync_res[j] = ['raised', type(e).__name__]
                nterm[0] += 1; drain(nterm[0])
                ids = F.MSGID.findall(inbuf[0].decode('utf-8', 'replace'))
                if not wait(lambda: r.id is not None, 1.0) or r.id not in ids:
                    return False, 'step %d: the peer did not receive the framed request of a connected session (ids seen %r)' % (i, ids), 'requests_not_sent', {'received': inbuf[0][-300:].hex()}
                texts[j] = F.reply(r.id, '<data>%d é</data>' % j)
                server_sends(texts[j].encode('utf-8'), texts[j])
                wait(lambda: r.event.is_set())
                if thr: thr.join(bound)
                look(i)
        # sentinel: whatever was sent before it has been dispatched once it arrives
        senti = Rec(); s.add_listener(senti)
        t = '<sentinel xmlns="urn:c14:l"/>'
        c.sendall(F.frame(base, t.encode('utf-8')))
        for k in registered: expect[k].append(t)
        arrived = wait(lambda: senti.got == [t] and all(len(recs[k].got) >= len(expect[k]) for k in registered))
        look(len(case['steps']))
        connected_before_end, alive_before_end = s.connected, s.is_alive()
        if case['end'] == 'eof':
            try: c.shutdown(_socket.SHUT_RDWR)
            except OSError: pass
            c.close()
            wait(lambda: not s.is_alive() and not s.connected)
        obs = {'id': s.id, 'server_capabilities': sorted(s.server_capabilities), 'id_of_hello': id0, 'capabilities_of_hello': caps0,
               'identity_changes': identity, 'listeners': {str(k): {'got': recs[k].got, 'expected': expect[k], 'errbacks': recs[k].errs, 'registered_at_end': k in registered} for k in sorted(recs)},
               'sentinel_arrived': arrived, 'rpcs': [{'reply': (r.reply._raw if r.reply is not None else None), 'error': (type(r.error).__name__ if r.error is not None else None),
                                                     'sync': sync_res.get(j)} for j, r in enumerate(rpcs)],
               'connected_before_end': connected_before_end, 'worker_alive_before_end': alive_before_end, 'connected': s.connected, 'worker_alive': s.is_alive()}
        if identity:
            i, nid, ncaps, nb = identity[0]
            return False, ('a message the server sent AFTER the capability exchange changed the established session: id %r -> %r, capabilities %r -> %r, base %s -> %s '
                           '(first seen after step %d %r)' % (id0, nid, caps0, ncaps, base0, nb, i, case['steps'][i] if i < len(case['steps']) else 'sentinel')), 'session_identity_changed_after_hello', obs
        if not connected_before_end or not alive_before_end:
            return False, 'the session ended (connected=%r, worker alive=%r) on well-formed messages / dropped payloads' % (connected_before_end, alive_before_end), 'session_died_on_hostile_message', obs
        if not arrived:
            return False, 'a well-formed message sent to a live session did not reach the listeners registered for it within %g s' % bound, 'listener_missed_message', obs
        for k in sorted(recs):
            got, exp = recs[k].got, expect[k]
            if got != exp:
                extra = [g for g in got if g not in exp]
                if extra:
                    while_out = [g for g in extra if g in sent]
                    return False, ('listener %d received %r which the server sent while it was NOT registered (before add / after remove_listener)' % (k, while_out[0][:80]) if while_out
                                   else 'listener %d received %r which is not a message of the stream' % (k, extra[0][:80])), ('removed_listener_received' if while_out else 'delivered_not_framed'), obs
                return False, 'listener %d received %d messages, %d were sent while it was registered (order / duplicates / loss)' % (k, len(got), len(exp)), 'callbacks_differ', obs
        for j, r in enumerate(rpcs):
            o = obs['rpcs'][j]
            if o['reply'] != texts[j] or (o['sync'] and o['sync'] != ['returned', texts[j]]):
                return False, 'request %d does not hold the valid reply sent for it (reply %r, error %r, sync %r)' % (j, (o['reply'] or '')[:60], o['error'], o['sync']), 'valid_reply_not_delivered', obs
        if case['end'] == 'eof':
            if obs['connected'] or obs['worker_alive']:
                return False, 'peer closed: connected=%r worker alive=%r after %g s' % (obs['connected'], obs['worker_alive'], bound), 'still_connected_after_error', obs
            for k in sorted(recs):
                want = 1 if k in registered else 0
                if len(recs[k].errs) != want:
                    return False, 'listener %d (%s at the end) got %d error callbacks %r, expected %d' % (k, 'registered' if want else 'removed', len(recs[k].errs), recs[k].errs, want), \
                        ('removed_listener_errback' if not want else 'error_not_broadcast'), obs
        return True, '', None, obs
    finally:
        try: s.close()
        except Exception: pass
        for x in (conn.get('c'), srv):
            try:
                if x is not None: x.close()
            except Exception: pass
        try: s.join(3)
        except Exception: pass
        _shutil.rmtree(d, ignore_errors=True)
