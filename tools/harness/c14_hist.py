"""C14, session level on the real transport: histories "hostile / malformed message, then later requests".
A UnixSocketSession (real worker thread, real socketpair) of ANY device profile goes through several phases; in each
phase the application makes new requests (asynchronous ones, and synchronous ones in threads of their own), the scripted
server answers some of them, sends notifications, and then payloads that are not XML: hostile texts (tools/harness/lts.py
HOSTILE: an error report inside garbage, a correct-looking reply to an outstanding request behind garbage, ...) and
messages with a VALID root start tag (<rpc-reply message-id=...>, <notification>) whose body is not well-formed
(BADBODY).  At the end the application takes the notifications with Manager.take_notification().

Oracle (from the property text; lxml is not consulted - the independent reader is expat):
  * what a caller gets as data is the exact payload of a correctly framed, well-formed message: a request holds its own
    reply text or nothing; a synchronous call never RETURNS a reply that is not well-formed, an asynchronous caller cannot
    parse one; take_notification returns exactly the well-formed notifications sent, in order, each with a usable
    notification_ele, and never a payload that is not well-formed (such a message is dropped or ends the session);
  * a hostile message is dropped, or fails the requests outstanding at that moment, or ends the session with an error; in the
    first two cases it decides nothing about later requests: every request made in a later phase whose (valid) reply is sent
    holds that reply, the session is connected, the worker alive;
  * only a payload that is not XML may end the session here (the scripts contain nothing else that may), and if one does:
    every request still outstanding has an error, the session is disconnected, the worker has stopped, and everything the
    server had sent BEFORE that payload (the valid replies of that phase, the notifications) was delivered."""
import time, threading
from . import framing as F
from .lts import HOSTILE, BADBODY, NOTIF, wellformed

PROFILES = ['default', 'junos', 'csr', 'nexus', 'iosxr', 'iosxe', 'huawei', 'huaweiyang', 'alu', 'h3c', 'hpcomware', 'sros', 'ericsson', 'ciena']


class HistRig(F.SessionRig):
    def __init__(self, base, profile):
        from ncclient.manager import make_device_handler
        from ncclient.transport.session import NotificationHandler
        F.SessionRig.__init__(self, base)
        # SessionRig built the session with the default profile; the profile under test replaces it before any octet is sent
        self.dh = make_device_handler({'name': profile})
        self.s._device_handler = self.dh
        self.s.add_listener(NotificationHandler(self.s._notification_q))      # what _post_connect does


def notif_text(n):
    return '<notification xmlns="%s"><eventTime>2026-01-01T00:00:0%dZ</eventTime><ev>n%d</ev><t>é %d</t></notification>' % (NOTIF, n % 10, n, n)

def notif_bad_text(n, v):
    return '<notification xmlns="%s"><eventTime>2026-01-01T00:00:0%dZ</eventTime><ev>n%d</ev>' % (NOTIF, n % 10, n) + BADBODY[v % len(BADBODY)].replace('{root}', 'notification')

def reply_bad_text(mid, v):
    return '<rpc-reply xmlns="%s" message-id="%s"><data>' % (F.NS, mid) + BADBODY[v % len(BADBODY)].replace('{root}', 'rpc-reply')


def make_script(rng, base, profile, quick=True):
    """phases: [{'reqs': [sync?...], 'items': [...]}]; items: ['reply', i] ['reply_bad', i, v] ['notif', n] ['hostile', v, i|None]
    ['frame', hex] ['notif_bad', n, v]; request numbers i are global.  In a phase the replies come first, the hostile payloads
    after them (a profile may fail the outstanding requests on such a payload: their replies would then be replies to unknown
    ids); requests of a phase that are not answered stay outstanding for ever."""
    phases, nreq, nn = [], 0, 0
    nph = 2 if quick else rng.choice([2, 2, 3])
    bad_notif_at = (nph - 1 if rng.random() < 0.7 else rng.randrange(nph)) if rng.random() < 0.4 else None    # dropped or fatal: later phases see which
    for ph in range(nph):
        k = rng.randint(1, 2)
        ids = list(range(nreq, nreq + k)); nreq += k
        answered = [i for i in ids if rng.random() < 0.8] or ids[:1]
        reqs = [(i in answered and rng.random() < 0.5) for i in ids]       # a synchronous call (own thread) only where an answer comes
        items = []
        rng.shuffle(answered)
        for i in answered:
            if rng.random() < 0.35:
                nn += 1; items.append(['notif', nn])
            if rng.random() < 0.2:
                items.append(['reply_bad', i, rng.randrange(len(BADBODY))])
            else:
                items.append(['reply', i])
        outstanding = [i for i in ids if i not in answered]
        for _ in range(rng.choice([0, 1, 1, 2])):
            r = rng.random()
            if r < 0.7:
                items.append(['hostile', rng.randrange(len(HOSTILE)), (rng.choice(outstanding) if outstanding else None)])
            else:
                items.append(['frame', rng.choice([b'not xml', b'', b'&', b'{}', b'</x>', b'<<<']).hex()])
            if rng.random() < 0.3:
                nn += 1; items.append(['notif', nn])
        if bad_notif_at == ph:
            items.append(['notif_bad', 50 + ph, rng.randrange(len(BADBODY))])
        phases.append({'reqs': reqs, 'items': items})
    return {'level': 'session', 'scenario': 'h', 'base': base, 'profile': profile, 'phases': phases,
            'cut_fracs': sorted(round(rng.random(), 4) for _ in range(rng.choice([0, 0, 1, 3]))), 'settle': rng.random() < 0.6}


def run_script(case):
    """-> (ok, what, sig, observation)"""
    from ncclient.operations.rpc import RPC
    from ncclient.xml_ import new_ele
    from ncclient.manager import Manager
    class Get(RPC):
        def request(self):
            return self._request(new_ele('get'))
    base = case['base']
    rig = HistRig(base, case['profile'])
    obs = {}
    try:
        s = rig.s
        rpcs, sync_res, texts, badtexts, issued_at, phase_of = [], {}, {}, {}, {}, {}
        sent_notifs = []
        dead_phase = None                     # the phase during which the session ended
        for pi, ph in enumerate(case['phases']):
            alive_before = s.connected and s.is_alive()
            if not alive_before and dead_phase is None:
                dead_phase = pi - 1
            first = len(rpcs)
            threads = []
            for sync in ph['reqs']:
                i = len(rpcs)
                r = Get(s, rig.dh, async_mode=not sync, timeout=4)
                rpcs.append(r); issued_at[i] = len(rig.events); phase_of[i] = pi
                if sync:
                    def call(i=i, r=r):
                        try:
                            r.request(); sync_res[i] = ('returned', r.reply._raw if r.reply is not None else None)
                        except Exception as e:
                            sync_res[i] = ('raised', type(e).__name__)
                    t = threading.Thread(target=call, daemon=True); t.start(); threads.append(t)
                else:
                    try:
                        r.request()
                    except Exception as e:
                        sync_res[i] = ('raised', type(e).__name__)
            n_new = len(rpcs) - first
            if alive_before:
                reqs = rig.drain_requests(n_new)
                ids = F.MSGID.findall(reqs.decode('utf-8', 'replace'))
                if sorted(ids) != sorted(r.id for r in rpcs[first:]) and s.connected:
                    return False, 'phase %d: the peer did not receive the %d framed requests of a connected session: %r' % (pi, n_new, reqs[:200]), 'requests_not_sent', {'requests': reqs.hex()}
            stream = b''
            for it in ph['items']:
                if it[0] == 'reply':
                    texts[it[1]] = F.reply(rpcs[it[1]].id, '<data>%d é</data>' % it[1]); p = texts[it[1]].encode('utf-8')
                elif it[0] == 'reply_bad':
                    badtexts[it[1]] = reply_bad_text(rpcs[it[1]].id, it[2]); p = badtexts[it[1]].encode('utf-8')
                elif it[0] == 'notif':
                    sent_notifs.append(notif_text(it[1])); p = sent_notifs[-1].encode('utf-8')
                elif it[0] == 'notif_bad':
                    p = notif_bad_text(it[1], it[2]).encode('utf-8')
                elif it[0] == 'hostile':
                    p = HOSTILE[it[1] % len(HOSTILE)].replace('{id}', rpcs[it[2]].id if it[2] is not None else 'urn:uuid:0').encode('utf-8')
                else:
                    p = bytes.fromhex(it[1])
                stream += F.frame(base, p)
            cuts = sorted(set(c for c in (int(fr * len(stream)) for fr in case['cut_fracs']) if 0 < c < len(stream)))
            for seg in F.segment(stream, cuts):
                if not rig.send(seg, settle=case['settle']): break
            want = [rpcs[it[1]] for it in ph['items'] if it[0] in ('reply', 'reply_bad')]
            rig.wait(lambda: all(r.event.is_set() for r in want) or not s.is_alive(), 4.0)
            rig.quiesce()
            for t in threads: t.join(0.5 if all(r.event.is_set() for r in want) else 4.5)
        # the application takes what is queued
        taken = []
        mgr = Manager(s, rig.dh, timeout=1)
        for _ in range(len(sent_notifs) + 3):
            n = mgr.take_notification(block=False)
            if n is None: break
            try:
                ele = n.notification_ele; view = str(ele.tag)
            except Exception as e:
                view = 'raises:' + type(e).__name__
            taken.append([n.notification_xml, view])
        if not s.connected:
            s.join(3)
        obs = {'rpcs': [{'reply': (r.reply._raw if r.reply is not None else None), 'error': (type(r.error).__name__ if r.error is not None else None),
                         'event_set': r.event.is_set(), 'sync': sync_res.get(i)} for i, r in enumerate(rpcs)],
               'connected': s.connected, 'worker_alive': s.is_alive(), 'taken': taken,
               'errbacks': [x for k, x in rig.events if k == 'err'], 'callbacks': len([1 for k, x in rig.events if k == 'cb'])}
        qtag = '{%s}notification' % NOTIF
        # --- data that reached callers
        for i, (r, o) in enumerate(zip(rpcs, obs['rpcs'])):
            if o['reply'] is not None:
                if o['reply'] not in (texts.get(i), badtexts.get(i)):
                    return False, 'request %d holds %r, which is not the reply sent for it' % (i, o['reply'][:80]), 'foreign_or_invented_reply', obs
                if not wellformed(o['reply']):
                    if o['sync'] and o['sync'][0] == 'returned':
                        return False, 'synchronous request %d RETURNED a reply that is not well-formed XML: %r' % (i, o['reply'][:80]), 'malformed_reply_as_data', obs
                    try:
                        r.reply.parse()
                        return False, 'the reply of request %d is not well-formed XML and parses: %r' % (i, o['reply'][:80]), 'malformed_reply_as_data', obs
                    except Exception:
                        pass
            if o['sync'] and o['sync'][0] == 'returned' and (o['sync'][1] != texts.get(i)):
                return False, 'synchronous request %d returned %r instead of its reply' % (i, (o['sync'][1] or '')[:80]), 'foreign_or_invented_reply', obs
        for xml, view in taken:
            if not wellformed(xml):
                return False, 'take_notification returned a payload that is not well-formed XML: %r' % xml[:100], 'malformed_notification_delivered', obs
            if view != qtag:
                return False, 'notification_ele of a delivered notification: %r' % view, 'notification_ele_unusable', obs
        got = [x for x, _ in taken]
        ended = not obs['connected']
        if ended and dead_phase is None:
            dead_phase = len(case['phases']) - 1
        # only a payload that is not XML may end the session in these scripts ("dropped or end the session with an error")
        may_end = ended and dead_phase >= 0 and any(it[0] in ('hostile', 'frame', 'notif_bad') for it in case['phases'][dead_phase]['items'])
        must = len(sent_notifs)
        if ended:              # what preceded, in the stream, the first payload that may have ended the session
            must = 0
            for pi, ph in enumerate(case['phases'][:dead_phase + 1]):
                for it in ph['items']:
                    if pi == dead_phase and it[0] in ('hostile', 'frame', 'notif_bad'): break
                    if it[0] == 'notif': must += 1
        if got != sent_notifs[:len(got)] or len(got) < must:
            return False, 'take_notification returned %d notifications %r..., sent %d, of which %d before anything that may end the session (order / duplicates / loss)' % (len(got), [g[:60] for g in got[:3]], len(sent_notifs), must), 'notifications_differ', obs
        # --- the session
        if ended and not may_end:
            return False, 'the session ended (errbacks %r) although the server sent only replies, notifications and payloads that are not XML' % obs['errbacks'], 'session_died_on_hostile_message', obs
        if ended:
            if obs['worker_alive']:
                return False, 'session disconnected but the worker thread is still alive 3 s later', 'worker_alive_after_error_close', obs
            for i, o in enumerate(obs['rpcs']):
                if o['reply'] is None and o['error'] is None and not (o['sync'] and o['sync'][0] == 'raised'):
                    return False, 'the session ended and request %d is still pending (no error delivered)' % i, 'pending_not_failed', obs
        # --- every valid reply sent while the session lived reaches its request; a reply never comes from nowhere
        first_dead = dead_phase if ended else None          # the replies of that phase precede, in the stream, whatever ended the session
        for i, o in enumerate(obs['rpcs']):
            sent_ok = i in texts and (first_dead is None or phase_of[i] <= first_dead)
            if sent_ok and o['reply'] != texts[i]:
                return False, ('request %d (phase %d) does not hold the valid reply sent for it (reply %r, error %r, sync %r): an earlier '
                               'hostile message decided the fate of a later request, or a reply was lost') % (i, phase_of[i], (o['reply'] or '')[:60], o['error'], o['sync']), 'valid_reply_not_delivered', obs
            if sent_ok and o['sync'] and o['sync'][0] != 'returned':
                return False, 'synchronous request %d: its valid reply was delivered but the call raised %s' % (i, o['sync'][1]), 'valid_reply_not_delivered', obs
            if i in badtexts and o['sync'] and o['sync'] != ('raised', 'XMLSyntaxError') and (first_dead is None or phase_of[i] <= first_dead):
                return False, 'synchronous request %d got a reply that is not well-formed: expected the call to raise a parse error, got %r' % (i, o['sync']), 'malformed_reply_outcome', obs
            if i not in texts and i not in badtexts and o['reply'] is not None:
                return False, 'request %d was never answered and holds a reply' % i, 'foreign_or_invented_reply', obs
        return True, '', None, obs
    finally:
        rig.close()
        if rig.alive():
            obs['worker_alive_after_close'] = True


# ---------------------------------------------------------------- scenario e: the END of a session with LEFTOVERS in the receive buffer
"""Scenario e ("whenever the worker stops for any reason the session is marked disconnected and pending requests are failed").
History: 1-3 requests are outstanding (asynchronous ones, and synchronous ones in threads of their own); the server answers some
of them and then sends the BEGINNING of a frame and nothing more - 1.0: text without ]]>]]> (or with the first octets of the
delimiter), 1.1: a chunk shorter than its header says / a complete chunk without end-of-chunks / the first octets of a header -
whose last octets are what any read boundary may leave behind: the first octet(s) of a multi-octet character, a stray 0xff / a stray
continuation octet, an overlong form (or, as controls, a complete character, ASCII, nothing at all).  Then the session ENDS:
  close          the application calls session.close()
  close_session  the application calls Manager.close_session() (synchronous: the <close-session> request can not be answered any
                 more and times out; asynchronous: it returns at once) - the transport is closed in both cases
  with_exit      the application leaves the Manager's with-block
  eof            the peer shuts its side down
  reset          the peer closes the socket with unread data (ECONNRESET where the platform reports one)
either after the worker has taken the leftover octets in, or racing with them.
Oracle (the property sentence, nothing of the implementation): a request whose complete valid reply preceded the leftover holds
exactly that reply; EVERY other request is failed with an error object within the bound (event set, .error an Exception; a
synchronous call raises) - never left waiting; nothing of the unfinished frame reaches a listener as a message; `connected` is False;
the session thread has ended; a local close returns within the bound; a request made afterwards is refused / failed at once."""
import socket as _socket

E_TAILS = {'lead_of_2': b'\xc3', 'lead_of_3': b'\xe2', 'two_of_3': b'\xe2\x82', 'three_of_4': b'\xf0\x9f\x98', 'lead_of_4': b'\xf0',
           'stray_ff': b'\xff', 'stray_cont': b'\x80', 'overlong': b'\xc0\x80', 'surrogate': b'\xed\xa0\x80',
           'bad_then_ascii': b'\xff</data>', 'lead_then_ascii': b'\xc3(more',
           'complete_char': 'café'.encode('utf-8'), 'ascii': b'plain', 'nothing': None}
E_UNDECODABLE = [k for k, v in E_TAILS.items() if v is not None and k not in ('complete_char', 'ascii')]
E_SHAPES = {10: ['no_delim', 'part_delim'], 11: ['short_chunk', 'chunk_no_end', 'second_chunk_short', 'part_header']}
E_ENDS = ['close', 'close_session', 'close_session_async', 'with_exit', 'eof', 'reset']


def make_end_script(rng, base, tail=None, end=None, profile=None):
    n_rpc = rng.randint(1, 3)
    order = list(range(n_rpc)); rng.shuffle(order)
    k = rng.randint(0, n_rpc - 1)                       # replies delivered before the leftover: at least one request stays outstanding
    if tail is None:
        tail = rng.choice(E_UNDECODABLE) if rng.random() < 0.8 else rng.choice(['complete_char', 'ascii', 'nothing'])
    return {'level': 'session', 'scenario': 'e', 'base': base, 'profile': profile or rng.choice(['default', 'default', 'junos', 'huawei', 'iosxe']),
            'reqs': [rng.random() < 0.35 for _ in range(n_rpc)],       # True = synchronous call in its own thread
            'answered': order[:k], 'tail': tail, 'shape': rng.choice(E_SHAPES[base]),
            'about': rng.choice(['reply', 'reply', 'notification', 'bare']),          # what the unfinished frame begins like
            'end': end or rng.choice(E_ENDS), 'settle': rng.random() < 0.75, 'cut_inside_leftover': rng.random() < 0.3}


def _leftover(case, mid):
    """the octets of the unfinished frame"""
    base, tail = case['base'], E_TAILS[case['tail']]
    if tail is None:
        return b''
    head = {'reply': '<rpc-reply xmlns="%s" message-id="%s"><data>Zürich ' % (F.NS, mid),
            'notification': '<notification xmlns="%s"><eventTime>2026-01-01T00:00:00Z</eventTime><ev>n9</ev><t>' % NOTIF,
            'bare': ''}[case['about']].encode('utf-8')
    body = head + tail
    sh = case['shape']
    if base == 10:
        return body + (b']]>]]' if sh == 'part_delim' else b'')
    if sh == 'short_chunk':
        return b'\n#%d\n' % (len(body) + 40) + body
    if sh == 'chunk_no_end':
        return b'\n#%d\n' % len(body) + body
    if sh == 'second_chunk_short':
        return (b'\n#%d\n' % len(head) + head if head else b'') + b'\n#%d\n' % (len(tail) + 7) + tail
    return b'\n#%d\n' % len(body) + body + b'\n#1'                 # part_header


def run_end_script(case, bound=3.0):
    """-> (ok, what, sig, observation)"""
    from ncclient.operations.rpc import RPC
    from ncclient.xml_ import new_ele
    from ncclient.manager import Manager
    class Get(RPC):
        def request(self):
            return self._request(new_ele('get'))
    base = case['base']
    rig = HistRig(base, case['profile'])
    obs = {}
    try:
        s = rig.s
        rpcs, sync_res, threads = [], {}, []
        for i, sync in enumerate(case['reqs']):
            r = Get(s, rig.dh, async_mode=not sync, timeout=8)
            rpcs.append(r)
            if sync:
                def call(i=i, r=r):
                    try:
                        r.request(); sync_res[i] = ['returned', r.reply._raw if r.reply is not None else None]
                    except BaseException as e:
                        sync_res[i] = ['raised', type(e).__name__]
                t = threading.Thread(target=call, daemon=True); t.start(); threads.append(t)
            else:
                r.request()
        reqs = rig.drain_requests(len(rpcs))
        ids = F.MSGID.findall(reqs.decode('utf-8', 'replace'))
        if sorted(ids) != sorted(r.id for r in rpcs):
            return False, 'the peer did not receive the %d framed requests: %r' % (len(rpcs), reqs[:200]), 'requests_not_sent', {'requests': reqs.hex()}
        texts = {i: F.reply(rpcs[i].id, '<data>%d é</data>' % i) for i in case['answered']}
        outstanding = [i for i in range(len(rpcs)) if i not in texts]
        stream = b''.join(F.frame(base, texts[i].encode('utf-8')) for i in case['answered'])
        left = _leftover(case, rpcs[outstanding[0]].id)
        cuts = [len(stream)] if stream and left else []
        if case['cut_inside_leftover'] and len(left) > 2: cuts.append(len(stream) + len(left) - 1)
        for seg in F.segment(stream + left, cuts):
            if seg and not rig.send(seg, settle=case['settle']): break
        if case['settle']:
            rig.wait(lambda: all(rpcs[i].event.is_set() for i in texts), 3.0)
            rig.quiesce()
        # ---- the end of the session
        end, end_res = case['end'], {}
        t_end = time.time()
        def local():
            try:
                if end == 'close':
                    s.close()
                elif end in ('close_session', 'close_session_async'):
                    m = Manager(s, rig.dh, timeout=0.3); m.async_mode = end.endswith('async')
                    m.close_session()
                else:
                    with Manager(s, rig.dh, timeout=0.3):
                        pass
                end_res['r'] = 'returned'
            except BaseException as e:
                end_res['r'] = 'raised:' + type(e).__name__
        closer = None
        if end == 'eof':
            try: rig.b.shutdown(_socket.SHUT_WR)
            except OSError: pass
        elif end == 'reset':
            try: rig.b.close()                  # unread requests of the client may still be queued: the platform may report a reset
            except OSError: pass
        else:
            closer = threading.Thread(target=local, daemon=True); closer.start()
            closer.join(bound + 1.0)
        pend = [rpcs[i] for i in outstanding]
        rig.wait(lambda: all(r.event.is_set() for r in pend) and not s.is_alive() and not s.connected, bound)
        waited = time.time() - t_end
        for t in threads: t.join(0.5)
        # a request made after the end
        late = Get(s, rig.dh, async_mode=True, timeout=2)
        try:
            late.request(); late_res = 'accepted'
            if late.event.wait(1.0): late_res = 'failed:' + type(late.error).__name__ if late.error is not None else 'completed'
        except Exception as e:
            late_res = 'refused:' + type(e).__name__
        obs = {'rpcs': [{'reply': (r.reply._raw if r.reply is not None else None), 'error': (type(r.error).__name__ if r.error is not None else None),
                         'error_is_exception': isinstance(r.error, Exception), 'event_set': r.event.is_set(), 'sync': sync_res.get(i)} for i, r in enumerate(rpcs)],
               'connected': s.connected, 'worker_alive': s.is_alive(), 'local_end': end_res.get('r') if closer is not None else None,
               'local_end_returned': (not closer.is_alive()) if closer is not None else None,
               'callbacks': [x for k, x in rig.events if k == 'cb'], 'errbacks': [x for k, x in rig.events if k == 'err'],
               'late_request': late_res, 'waited_s': round(waited, 2), 'leftover': left.hex()}
        tag = '%s after %s leftover (%s)' % (end, 'an undecodable' if case['tail'] in E_UNDECODABLE else ('a decodable' if left else 'no'), case['tail'])
        sent = [texts[i] for i in case['answered']]
        for cb in obs['callbacks']:
            if cb not in sent:
                return False, 'a listener received %r: not a message the server framed (%s)' % (cb[:80], tag), 'delivered_not_framed', obs
        if case['settle'] and obs['callbacks'] != sent:
            return False, 'callbacks %r differ from the messages framed before the unfinished frame (%s)' % (obs['callbacks'], tag), 'callbacks_differ', obs
        for i, o in enumerate(obs['rpcs']):
            if o['reply'] is not None and o['reply'] != texts.get(i):
                return False, 'request %d holds %r which is not its reply (%s)' % (i, o['reply'][:80], tag), 'foreign_or_invented_reply', obs
            if o['sync'] and o['sync'][0] == 'returned' and o['sync'][1] != texts.get(i):
                return False, 'synchronous request %d returned %r (%s)' % (i, o['sync'][1], tag), 'foreign_or_invented_reply', obs
            if i in texts:
                if case['settle'] and o['reply'] is None:
                    return False, 'request %d: its complete reply preceded the unfinished frame and was taken in before the end, but was not delivered (%s)' % (i, tag), 'reply_before_end_lost', obs
                if o['reply'] is not None: continue
            if not o['event_set'] or o['error'] is None:
                return False, ('request %d is still waiting %.1f s after the session ended (event set: %r, error: %r, worker alive: %r): a pending request was '
                               'never failed - %s') % (i, waited, o['event_set'], o['error'], obs['worker_alive'], tag), 'pending_not_failed_at_end', obs
            if not o['error_is_exception']:
                return False, 'request %d failed with %r which is not an error object (%s)' % (i, o['error'], tag), 'pending_not_failed_at_end', obs
            if case['reqs'][i] and (not o['sync'] or o['sync'][0] != 'raised'):
                return False, 'synchronous request %d: the call did not raise although the session ended (%r) - %s' % (i, o['sync'], tag), 'pending_not_failed_at_end', obs
        if obs['connected']:
            return False, 'the session still reports connected after %s' % tag, 'still_connected_after_end', obs
        if obs['worker_alive']:
            s.join(bound)
            if s.is_alive():
                return False, 'the session thread is alive %.0f s after %s' % (bound + waited, tag), 'worker_alive_after_end', obs
        if closer is not None and not obs['local_end_returned']:
            return False, 'the local close did not return within %.0f s (%s)' % (bound + 1, tag), 'close_does_not_return', obs
        if not obs['errbacks']:
            return False, 'requests were outstanding when the session ended and no error was broadcast to the listeners (%s)' % tag, 'no_error_broadcast_at_end', obs
        if late_res in ('accepted', 'completed'):
            return False, 'a request made after the session ended was %s (%s)' % (late_res, tag), 'request_after_end_waits', obs
        return True, '', None, obs
    finally:
        rig.close()
        if rig.alive():
            obs['worker_alive_after_close'] = True


def end_scripts(rng, quick=True, seed=0):
    """quick: every undecodable leftover x both framings once, the way the session ends rotating (local ends twice as often as peer
    ends), plus the controls; thorough: every leftover x framing x end"""
    cases = []
    if quick:
        ends = ['close', 'close_session', 'eof', 'with_exit', 'close', 'close_session_async', 'reset', 'close']
        j = seed
        for tail in E_UNDECODABLE:
            for base in (10, 11):
                cases.append(make_end_script(rng, base, tail, ends[j % len(ends)])); j += 1
        for tail in ('complete_char', 'ascii', 'nothing'):
            cases.append(make_end_script(rng, 10 if (j % 2) else 11, tail, ends[j % len(ends)])); j += 1
    else:
        for tail in E_TAILS:
            for base in (10, 11):
                for end in E_ENDS:
                    cases.append(make_end_script(rng, base, tail, end))
        for _ in range(60):
            cases.append(make_end_script(rng, rng.choice([10, 11])))
    return cases
