"""Namespace bindings in scope at every element of a document, as an independent reader (expat, never lxml) sees them,
and the C07 statement about them: caller data reaches the wire unaltered INCLUDING the namespace bindings in scope at the
caller's elements (XML Infoset [in-scope namespaces]) - a prefix used only inside content (an XPath select with its prefix map,
a YANG identityref / instance-identifier value) means something only while its declaration is in scope.

Scoped tree:  ['E', ns, local, attrs, children, own, scope]   |   ['T', text]
  own   = sorted [[prefix, uri]] declared ON this element ('' = the default namespace)
  scope = {prefix: uri} in scope AT this element (own declarations included; an undeclared default namespace is absent)
[plain] drops the two extra fields and gives exactly harness.capture's canonical tree."""
import xml.parsers.expat

B = 'urn:ietf:params:xml:ns:netconf:base:1.0'
N = 'urn:ietf:params:xml:ns:netconf:notification:1.0'

def read_scoped(xml_text):
    """parse a document (str); raises on ill-formed input"""
    p = xml.parsers.expat.ParserCreate(namespace_separator='}')
    p.buffer_text = True
    p.ordered_attributes = True
    stack = [['E', '', '', [], [], [], {}]]          # virtual document node: nothing in scope
    pending = []
    def split(name):
        if '}' in name:
            ns, local = name.split('}', 1)
            return ns, local
        return '', name
    def start_ns(prefix, uri):
        pending.append([prefix or '', uri or ''])
    def start(name, attrs):
        ns, local = split(name)
        scope = dict(stack[-1][6])
        for pf, uri in pending:
            if pf == '' and uri == '': scope.pop('', None)       # xmlns="" un-declares the default namespace
            else: scope[pf] = uri
        node = ['E', ns, local, sorted(list(split(attrs[i])) + [attrs[i + 1]] for i in range(0, len(attrs), 2)), [], sorted(pending), scope]
        del pending[:]
        stack[-1][4].append(node)
        stack.append(node)
    def end(name):
        stack.pop()
    def chars(data):
        kids = stack[-1][4]
        if kids and kids[-1][0] == 'T': kids[-1][1] += data
        elif data: kids.append(['T', data])
    p.StartNamespaceDeclHandler = start_ns
    p.StartElementHandler = start
    p.EndElementHandler = end
    p.CharacterDataHandler = chars
    p.Parse(xml_text.encode('utf-8'), True)
    return stack[0][4][0]

def plain(t):
    """the canonical tree of harness.capture (names resolved, declarations dropped)"""
    if t[0] == 'T': return ['T', t[1]]
    return ['E', t[1], t[2], t[3], [plain(c) for c in t[4]]]

def elems(t): return [c for c in t[4] if c[0] == 'E']

def walk(t, parent=None):
    """(element, parent element) in document order"""
    yield t, parent
    for c in elems(t):
        yield from walk(c, t)

# ---------------- where is the caller's document on the wire ----------------
def same_shape(F, W, up, head=False, top=True):
    """W (whose parent's scope is [up]) is the caller's element F as the tree oracle accepts it: same names, attributes, text and
    order, where an un-namespaced caller element may be read in the default namespace it inherits on the wire (rule R3: lxml writes
    no xmlns=""), and the document's root, when it is one of the protocol's own wrappers (no namespace / base namespace), may have
    been re-qualified by the builder (iosxe <config>, RFC 5277 <filter>). With [head] F's children are the FIRST children of W (the
    caller's own command element, to which the builders append parameters)."""
    if F[0] != W[0]: return False
    if F[0] == 'T': return F[1] == W[1]
    if F[2] != W[2] or F[3] != W[3]: return False
    if F[1] != W[1]:
        inherited = F[1] == '' and W[1] == up.get('') and not any(pf == '' for pf, _ in W[5])
        if not (inherited or (top and F[1] in ('', B) and W[1] in (B, N))): return False
    wk = W[4][:len(F[4])] if head else W[4]
    return len(F[4]) == len(wk) and all(same_shape(a, b, W[6], top=False) for a, b in zip(F[4], wk))

def locate(wire, F, head=False):
    """[(W, parent of W)] - the wire elements that are the caller's document F, in document order"""
    return [(w, par) for w, par in walk(wire) if par is not None and same_shape(F, w, par[6], head)]

def pairs(F, W, path=()):
    """(caller element, wire element, path) for every element of the caller's document"""
    yield F, W, path
    for i, (a, b) in enumerate(zip(elems(F), elems(W))):
        yield from pairs(a, b, path + (i,))

# ---------------- the property on bindings ----------------
def visible(uri, scope):
    return any(u == uri for u in scope.values())

def lost_bindings(F, W, parent_scope):
    """bindings (prefix -> uri) in scope at an element of the caller's document F that are not in scope at the same element of
    the wire document W.  The default namespace bound to the base namespace is not demanded: the profile's envelope decides how
    the base namespace is written (prefix nc / default namespace) - which elements ARE in it is the tree oracle's business.
    Each entry: dict(path, prefix, uri, wire, redundant) - [redundant]: the uri is bound, under some prefix, in the scope of the
    wire element or of its parent (the caller's declaration repeated a namespace that was already in scope there)."""
    out, seen = [], set()
    up = {(): parent_scope}
    for f, w, path in pairs(F, W):
        for c_i, c in enumerate(elems(w)): up[path + (c_i,)] = w[6]
        for pf, uri in sorted(f[6].items()):
            if pf == '' and uri in (B, ''): continue
            if w[6].get(pf) == uri or (pf, uri) in seen: continue
            seen.add((pf, uri))
            out.append(dict(path=list(path), prefix=pf, uri=uri, wire=w[6].get(pf),
                            redundant=visible(uri, w[6]) or visible(uri, up[path])))
    return out

def xpath_element(nsmap, select):
    """what the caller of filter=("xpath", (nsmap, select)) hands over, as a scoped element: a <filter> (namespace left to the
    builder) carrying the select string, at which every entry of the prefix map is in scope ('' = the default namespace)"""
    own = sorted([pf, uri] for pf, uri in nsmap.items())
    return ['E', '', 'filter', sorted([['', 'select', select], ['', 'type', 'xpath']]), [], own, dict(nsmap)]

def caller_docs(case):
    """the XML documents and XPath prefix maps the caller supplies in a case (standard and vendor cases share the encoding):
    [dict(role, F, head)]; F = scoped tree; ill-formed documents are skipped (their local rejection is the tree oracle's business)"""
    out = []
    for k, v in sorted(case['args'].items()):
        if not isinstance(v, dict): continue
        if v.get('kind') == 'xpath-ns':
            if isinstance(v.get('select'), str): out.append(dict(role=k, F=xpath_element(v['nsmap'], v['select']), head=False))
            continue
        xs = v['xmls'] if v.get('kind') == 'list' else [v['xml']] if isinstance(v.get('xml'), str) else []
        for x in xs:
            try: F = read_scoped(x)
            except Exception: continue
            out.append(dict(role=k, F=F, head=k in ('rpc_command', 'rpc')))
    return out

def observe(case, sent_xml):
    """for every caller document: where it is in the request and which of its bindings are not in scope there.
    [dict(role, F, W, parent_scope, lost, candidates)] or dict(role, F, W=None) when the tree oracle's notion of 'the same document' finds it
    nowhere (the tree oracle reports that)"""
    wire = read_scoped(sent_xml)
    out = []
    for d in caller_docs(case):
        locs = locate(wire, d['F'], d['head'])
        if not locs:
            out.append(dict(role=d['role'], F=d['F'], W=None)); continue
        cands = [dict(W=w, parent_scope=par[6], lost=lost_bindings(d['F'], w, par[6])) for w, par in locs]
        best = min(cands, key=lambda c: len(c['lost']))
        out.append(dict(role=d['role'], F=d['F'], W=best['W'], parent_scope=best['parent_scope'], lost=best['lost'], candidates=cands))
    return out

# ---------------- model encoding (coq/Model/NsScope.v through Glue/C07_glue.v fn 8) ----------------
def enc_scope(scope):
    return [[pf.encode('utf-8'), uri.encode('utf-8')] for pf, uri in sorted(scope.items())]

def enc_dtree(F):
    """declaration skeleton of a caller document: [own declarations, element children]"""
    return [[[pf.encode('utf-8'), uri.encode('utf-8')] for pf, uri in F[5]], [enc_dtree(c) for c in elems(F)]]

def own_preorder(F, W):
    """own declarations of the wire elements matched with the caller's elements, in the caller's document order"""
    return [[[pf, uri] for pf, uri in w[5]] for f, w, path in pairs(F, W)]

def dec_decls(v):
    return [sorted([pf.decode('utf-8'), uri.decode('utf-8')] for pf, uri in d) for d in v]
