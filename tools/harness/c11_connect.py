"""C11 in the connect window: notifications the server sends RIGHT BEHIND its <hello> (same read, or while the connecting
thread has not yet woken up / `connect()` has not yet returned).

Family `real_connect`, two variants, both on the library's own `Session._post_connect` / `Session.run` / parser /
`NotificationHandler` / `Manager.take_notification`:

  sched   the deterministic scheduler of tools/harness/sched.py with the hello-exchange session of neg_sched.py (C05's
          harness: real `_post_connect` in managed thread M, real `Session.run` in managed worker W started by the library's
          own `start()`, scripted server S).  The server's octets = <hello> + k numbered notifications, cut into reads (one
          read for everything; one read per message; cuts inside the hello's terminator / inside a notification) that are
          readable before `_post_connect` begins, at any time, once the client's hello is on the wire, or once
          `_post_connect` returned.  After `_post_connect` returned M takes notifications through `Manager.take_notification`
          (blocking with a time limit in virtual time / non-blocking); what is still queued when nothing can move any more is
          taken non-blocking.  Schedules: run-to-completion, depth-first with a pre-emption bound, seeded random.
          The default schedule already is "the worker dispatches hello + notifications before the connecting thread wakes".
  free    (c11_real.run_live, case key `hello_with`) the free-running session thread of UnixSocketSession / SSHSession /
          TLSSession over a socketpair: the server writes its hello and the first j notifications in ONE write before
          `_post_connect` is called.

Oracle (the property sentence; nothing of the implementation): every notification the server sent behind its hello is
returned by take_notification exactly once, in the order sent, text intact; a blocking take with a time limit returns None
only when every notification sent has been returned before (virtual time: the limit passes only when nothing else can
move); the capability exchange succeeds; the session stays up.

Model: coq/Model/ConnectWindow.v (labels = the accesses to `_listeners`, `start()`, the worker's dispatches, the queue); every
scheduled run's effect log is mapped to those labels and replayed by `Glue/C11T_glue.v` (fn 2): the model must accept the
trace and end with the same queue / taken lists."""
import re, threading
from . import sched, neg_sched
from .sched import Sched, SEvent
from .c11_real import notif_text, DELIM, PROFILES, NOTIF_NS, BASE, _short

CAPS = ['urn:ietf:params:netconf:base:1.0', 'urn:ietf:params:netconf:capability:notification:1.0',
        'urn:ietf:params:netconf:capability:interleave:1.0']
WHENS = ('pre', 'free', 'after_hello', 'after_return')

def conn_layout(case):
    """-> (octets, [(kind, n, text, start, end)]): the server's hello (base:1.0 only: the framing behind it is known without the
    client's hello) followed by the notifications of the case"""
    h = neg_sched.hello_xml(CAPS, 11)
    out, stream, pos = [], [], 0
    for kind, n, text in [('hello', 0, h)] + [('notif', x[0], notif_text(x[0], x[1], bool(x[2]))) for x in case['notifs']]:
        fr = text.encode() + DELIM
        out.append((kind, n, text, pos, pos + len(fr))); stream.append(fr); pos += len(fr)
    return b''.join(stream), out

def classify(raw):
    """independent reading of a dispatched message: ('hello',) | ('notif', n) | ('other',)"""
    import xml.etree.ElementTree as ET
    try:
        root = ET.fromstring(raw.encode() if isinstance(raw, str) else raw)
    except Exception:
        return ('other',)
    if root.tag == '{%s}hello' % BASE: return ('hello',)
    if root.tag == '{%s}notification' % NOTIF_NS:
        m = re.search(r'<seq>n(\d+)</seq>', raw if isinstance(raw, str) else raw.decode('utf-8', 'replace'))
        return ('notif', int(m.group(1)) if m else 0)
    return ('other',)

def _num(x):
    m = re.search(r'<seq>n(\d+)</seq>', getattr(x, 'notification_xml', '') or '')
    return int(m.group(1)) if m else 0

class ConnRun(object):
    """case: profile, notifs [[n, size, uni]...], reads [lengths], when [one of WHENS per read], takes [[block 0|1]...],
    ready 'always' | 'after_dispatch' (the transport becomes writable only once the server's hello has been dispatched)"""
    def __init__(self, case, decisions=None, seed=0, rng_after=True):
        self.case, self.decisions, self.seed, self.rng_after = case, decisions, seed, rng_after
    def run(self, max_steps=4000):
        from ncclient.manager import make_device_handler, Manager
        case = self.case
        S = sched.S = Sched(decisions=self.decisions, seed=self.seed, rng_after=self.rng_after)
        S.release_points = True
        neg_sched.install()
        try:
            dh = make_device_handler({'name': case['profile']})
            sock = neg_sched.FakeSock()
            ses = neg_sched.make_session_class()(dh, sock, {'mode': case.get('ready', 'always'), 'polls': []})
            self.ses, self.sock = ses, sock
            stream, lay = conn_layout(case)
            self.stream, self.lay = stream, lay
            chunks, a = [], 0
            for n in case['reads']:
                if a >= len(stream): break
                chunks.append(stream[a:a + n]); a += n
            if a < len(stream): chunks.append(stream[a:])
            whens = list(case['when']) + [case['when'][-1]] * len(chunks)
            pending = []
            for c, w in zip(chunks, whens):
                if w == 'pre' and not pending: sock.inb.append(c)
                else: pending.append((c, w))
            self.undelivered = len(pending)
            def hello_out():
                return DELIM in bytes(sock.out)
            def server():
                for c, w in pending:
                    en = {'free': None, 'pre': None, 'after_hello': hello_out, 'after_return': (lambda: ses._returned)}[w]
                    S.point('srv', enabled=en)
                    if en is not None and not en(): return
                    sock.inb.append(c); self.undelivered -= 1; S.effect('srv', 'data')
            real_run = ses.run
            def wrun():
                try: real_run()
                finally: S.effect('exit')
            ses.run = S.wrap_run('W', wrun)
            out = self.outcome = {'takes': []}
            def main():
                try:
                    ses._post_connect(5); r = ('ok', None)
                except BaseException as e:
                    r = ('exc', type(e).__name__ + ': ' + str(e)[:80])
                out['result'] = r
                ses._returned = True
                S.effect('ret', r)
                if r[0] != 'ok': return
                m = Manager(ses, dh, timeout=5)
                for (blk,) in [tuple(t) for t in case.get('takes', [])]:
                    try:
                        x = m.take_notification(True, 5) if blk else m.take_notification(block=False)
                        out['takes'].append((bool(blk), None if x is None else x.notification_xml))
                    except Exception as e:
                        out['takes'].append((bool(blk), e))
            S.spawn('M', main)
            S.adopt('W'); S.threads['W']['enabled'] = lambda: ses._began
            orig_effect = S.effect
            def effect(*e):
                if e and e[0] in ('okcb', 'errcb'): ses._dispatched = True
                orig_effect(*e)
            S.effect = effect
            if pending: S.spawn('S', server)
            self.result = S.run(max_steps=max_steps)
            self.n_effects = len(S.effects)
            self.queued_at_end = [_num(x) for x in ses._notification_q.d]
            self.connected = bool(ses._connected)
            self.worker_done = bool(S.threads['W']['done'])
            self.unread = len(sock.inb)
            self._drain(S, ses, sock)
            # what is still queued: taken without blocking
            rest = []
            if out.get('result', ('?',))[0] == 'ok':
                m = Manager(ses, dh, timeout=5)
                while len(rest) <= len(case['notifs']) + 2:
                    x = m.take_notification(block=False)
                    if x is None: break
                    rest.append(x.notification_xml)
            self.rest = rest
            self.S = S
            self.decisions_used = [c[0] for c in S.choices]
            return self
        finally:
            neg_sched.uninstall()
    def _drain(self, S, ses, sock):
        ses._closing.flag = True; sock.closed = True
        def free_point(label, enabled=None, timeout_ok=False):
            return 'timeout' if timeout_ok else 'go'
        S.point = free_point
        S.effect = lambda *e: None
        S.draining = True
        for t in S.threads.values():
            if not t['done']:
                t['why'] = 'timeout' if t['timeout_ok'] else 'go'
                t['sem'].release()
        if ses._began: ses.join(2)
        for th in S.handles:
            th.join(2)

    # ---------------------------------------------------------------- effect log -> labels of Model/ConnectWindow.v
    def labels(self):
        out = []
        for e in self.S.effects[:self.n_effects]:
            th, k = e[0], e[1]
            if k == 'ladd':
                out.append(([1] if e[2] else [0]) if th == 'M' else [99])
            elif k == 'ldiscard':
                if e[2]: out.append([7] if th == 'M' else [99])
                else: out.append([99])                       # a listener other than the hello handler is removed
            elif k == 'start': out.append([2])
            elif k == 'dispatch':
                c = classify(e[2])
                out.append([3] if c[0] == 'hello' else ([4, c[1]] if c[0] == 'notif' else [10]))
            elif k == 'nq.put': out.append([5, _num(e[2])] if th == 'W' else [99])
            elif k == 'nq.get': out.append([9, 0, 0] if e[2] is None else [9, 1, _num(e[2])])
            elif k == 'waitres' and th == 'M': out.append([6] if e[3] else [11])
            elif k == 'ret': out.append([8])
            elif k == 'errbcast': out.append([12])
        return out

def oracle(sc):
    """-> None or (what, sig): the property sentence on the observables of one scheduled run"""
    case, out = sc.case, sc.outcome
    tag = '[%s, connect window] ' % case['profile']
    if sc.result == 'step-limit':
        return (tag + 'the scheduled run did not come to rest within the step limit', 'connect_harness_steps')
    sent = [(n, t) for kind, n, t, a, b in sc.lay if kind == 'notif']
    res = out.get('result')
    if res is None or res[0] != 'ok':
        return (tag + 'the server sent a well-formed <hello> and %d notification(s) behind it: the capability exchange ended with %r'
                % (len(sent), res), 'connect_failed')
    if sc.undelivered or sc.unread:
        return (tag + 'the run came to rest although %d read(s) of the server were never taken' % (sc.undelivered + sc.unread), 'connect_unread')
    got, texts = [], [t for n, t in sent]
    for blk, x in out['takes']:
        if isinstance(x, Exception):
            return (tag + 'take_notification raised %s' % type(x).__name__, 'connect_take_raised')
        if x is None:
            if blk and len(got) < len(sent):
                return (tag + 'the server sent notification n%d behind its <hello> (%d sent; reads %r, readable %r); take_notification(True, 5) after '
                        'connect returned None, taken before: %r - the notification was received and never queued'
                        % (sent[len(got)][0], len(sent), case['reads'], case['when'], [_short(g) for g in got]), 'connect_notif_missing')
        else:
            got.append(x)
    got += sc.rest
    if [g.strip() for g in got] != texts:
        if len(got) < len(texts) and [g.strip() for g in got] == texts[:len(got)] or all(g.strip() in texts for g in got) and len(set(got)) == len(got) and len(got) < len(texts):
            missing = [n for n, t in sent if t not in [g.strip() for g in got]]
            return (tag + 'the server sent notifications %r behind its <hello> (reads %r, readable %r); every read was taken by the session thread, '
                    'take_notification returned only %r: %r never came out' % ([n for n, t in sent], case['reads'], case['when'],
                    [_short(g) for g in got], ['n%d' % n for n in missing]), 'connect_notif_missing')
        return (tag + 'notifications taken %r, sent behind the <hello> %r' % ([_short(g) for g in got], ['n%d' % n for n, t in sent]), 'connect_notif_mismatch')
    if not sc.connected or sc.worker_done:
        return (tag + 'the session ended (connected=%s, session thread ended=%s) in a history of a hello and notifications only' % (sc.connected, sc.worker_done), 'connect_session_died')
    if any(e[1] == 'errbcast' for e in sc.S.effects[:sc.n_effects]):
        return (tag + 'an error was broadcast to the listeners in a history of a hello and notifications only', 'connect_errback')
    return None

def run_connect(case, keep=None):
    """replayable entry: case['decisions'] (exact schedule) or case['seed']"""
    if 'decisions' in case:
        sc = ConnRun(case, decisions=list(case['decisions']), rng_after=False).run()
    else:
        sc = ConnRun(case, decisions=None, seed=case.get('seed', 0)).run()
    if keep is not None: keep['sc'] = sc
    return oracle(sc)

def dfs(case, bound, cap):
    """depth-first enumeration of the schedules with at most `bound` departures from run-to-completion"""
    stack, n = [([], 0)], 0
    while stack and n < cap:
        prefix, pre = stack.pop()
        sc = ConnRun(case, decisions=list(prefix), rng_after=False).run()
        n += 1
        yield sc
        ch = sc.S.choices
        for j in range(len(prefix), len(ch)):
            i, nopts, default = ch[j]
            if pre + 1 > bound: break
            for alt in range(nopts):
                if alt != i:
                    stack.append(([c[0] for c in ch[:j]] + [alt], pre + 1))

def specs(rng, n_random):
    """deterministic shapes (profiles rotate) + generated ones"""
    out, pi = [], 0
    def mk(notifs, reads, when, takes, ready='always'):
        nonlocal pi
        c = dict(check='real_connect', profile=PROFILES[pi % len(PROFILES)], notifs=notifs, reads=reads, when=when, takes=takes, ready=ready)
        pi += 1
        out.append(c); return c
    for k in (1, 2, 3):
        notifs = [[i + 1, (0, 300, 0)[i % 3], i % 2] for i in range(k)]
        probe = dict(notifs=notifs)
        stream, lay = conn_layout(probe)
        total, hend = len(stream), lay[0][4]
        each = [b - a for kd, n, t, a, b in lay]
        blocking = [[1]] * k + [[0]]
        mixed = [[0]] + [[1]] * k + [[1]]
        for takes in (blocking, mixed):
            mk(notifs, [total], ['pre'], takes)                                        # hello + k notifications in one read
            mk(notifs, each, ['pre'], takes)                                            # one read per message, all readable at once
            mk(notifs, [hend - 3, 3 + (lay[1][4] - lay[1][3]) // 2], ['pre'], takes)    # cut inside the hello's terminator, then inside n1
        mk(notifs, [total], ['free'], blocking)                                        # the whole burst arrives whenever
        mk(notifs, [total], ['after_hello'], mixed)
        mk(notifs, [hend] + each[1:], ['pre', 'free'], blocking)
        mk(notifs, [hend] + each[1:], ['pre', 'after_hello'], mixed)
        mk(notifs, [hend] + each[1:], ['pre'] + ['free'] * (k - 1) + ['after_return'], blocking)
        mk(notifs, [hend + 10], ['pre', 'after_return'], blocking, ready='after_dispatch')
    for _ in range(n_random):
        k = rng.randint(1, 4)
        notifs = [[i + 1, rng.choice([0, 0, 300, 5000]), rng.randint(0, 1)] for i in range(k)]
        stream, lay = conn_layout(dict(notifs=notifs))
        cuts = sorted(rng.sample(range(1, len(stream)), rng.randint(0, min(4, len(stream) - 1))))
        reads = [b - a for a, b in zip([0] + cuts, cuts + [len(stream)])]
        w0 = rng.choice(['pre', 'pre', 'free', 'after_hello'])
        when = [w0] + [rng.choice(WHENS if w0 != 'pre' else WHENS) for _ in reads[1:]]
        # the server cannot hold back the rest of its <hello> until connect() returned
        if 'after_return' in when:
            a = 0
            for j, n in enumerate(reads):
                if when[j] == 'after_return' and a < lay[0][4]:
                    when[j] = 'free'
                a += n
        takes = [[rng.randint(0, 1)] for _ in range(rng.randint(0, k + 1))]
        # a server that waits for the client's hello before sending its own needs a transport that is writable at once
        a, hello_waits = 0, False
        for j, n in enumerate(reads):
            if a < lay[0][4] and when[j] == 'after_hello': hello_waits = True
            a += n
        out.append(dict(check='real_connect', profile=rng.choice(PROFILES), notifs=notifs, reads=reads, when=when, takes=takes,
                        ready='always' if hello_waits else rng.choice(['always', 'always', 'after_dispatch'])))
    return out

def check(ctx, tmodel, record):
    """all scheduled runs of the tier; oracle -> ctx.fail (through `record`), model comparison -> ctx.disagree"""
    q = ctx.tier == 'quick'
    runs, first_bad = [], {}
    for case in specs(ctx.rng, 24 if q else 150):
        scs = list(dfs(case, 1 if q else 2, 8 if q else 40))
        for _ in range(2 if q else 6):
            scs.append(ConnRun(case, decisions=None, seed=ctx.rng.randrange(1 << 30)).run())
        for sc in scs:
            full = dict(case, decisions=list(sc.decisions_used))
            f = oracle(sc)
            if f and f[1] == 'connect_harness_steps':
                ctx.note('real_connect: ' + f[0]); f = None
            record(full, f)
            ctx.hist('connect_delivery', '%d read(s), %s' % (len(case['reads']) if sum(case['reads']) >= len(sc.stream) else len(case['reads']) + 1, '/'.join(sorted(set(case['when'])))))
            ctx.hist('connect_notifs', len(case['notifs']))
            runs.append((full, sc, f))
    if tmodel is None:
        return
    outs = tmodel.batch([[2, sc.labels()] for full, sc, f in runs])
    for (full, sc, f), mo in zip(runs, outs):
        ctx.traces += 1
        d = model_agrees(sc, mo)
        if d:
            ctx.disagree(full, 'Model/ConnectWindow.v accepts the trace and ends with the same queue', d,
                         'connect window: effect log of the scheduled run against ConnectWindow.crun', theorem='C11_connect_*')

def model_agrees(sc, mo):
    if isinstance(mo, str) or (mo and mo[0] == 999):
        return 'model runner rejected the call: %r' % (mo,)
    labs = sc.labels()
    if mo[0] == 0:
        i = mo[1]
        return 'label %d %r is not accepted by ConnectWindow.cstep after %r' % (i, labs[i] if i < len(labs) else None, labs[max(0, i - 6):i])
    _, nq, taken, lost, disp = mo
    got = [int(re.search(r'<seq>n(\d+)</seq>', x).group(1)) for b, x in sc.outcome['takes'] if isinstance(x, str)]
    if list(nq) != sc.queued_at_end:
        return 'queue at rest: model %r, implementation %r' % (list(nq), sc.queued_at_end)
    if list(taken) != got:
        return 'taken: model %r, implementation %r' % (list(taken), got)
    if lost:
        return 'model: notifications %r dispatched to no listener' % (list(lost),)
    return None
