"""Session.send callers racing Session.run (C02) under the deterministic scheduler of tools/harness/sched.py.

Real `Session.send` calls run in managed threads 'T0', 'T1', ...; the real `Session.run` in the managed worker 'W'
(started by the library's own `start()`); an optional thread 'C' assigns `session._base` the way `_post_connect`
does after the hello exchange.  Nothing in ncclient is edited: the module-level names `Lock/Event/Queue/selectors`
of ncclient.transport.session are rebound (sched.py is used unchanged), and a Session subclass supplies the
transport extension points (scripted write answers, readiness answers) plus logging properties for the shared
fields `_base`, `_hello_pending`, `connected`.  Every access to shared state is a schedule point and an entry of the
global effect log, which `labels()` maps one-to-one to the labels of coq/Model/WriterSched.v (`wstep`)."""
import io, sys, ast, re, threading
from . import sched
from .sched import Sched, SLock, SEvent, SQueue

class WQueue(SQueue):
    """SQueue whose empty() is logged too, and which remembers the value of `_base` at each put (for the oracle)."""
    owner = None
    def __init__(self, maxsize=0, name='q'):
        SQueue.__init__(self, maxsize, name)
        self.tags = []
    def empty(self):
        r = SQueue.empty(self)
        self.S.effect(self.qname + '.empty', r)
        return r
    def put(self, x, block=True, timeout=None):
        SQueue.put(self, x, block, timeout)
        o = self.owner
        self.tags.append(None if o is None else o.__dict__.get('_x_base'))
    def get(self, block=True, timeout=None):
        x = SQueue.get(self, block, timeout)
        if self.owner is not None: self.owner._holding = True
        return x

class _Selector:
    def __init__(self):
        self.ses = None
    def register(self, s, ev):
        self.ses = s
    def select(self, timeout=None):
        ses = self.ses
        ses._S.point('select', enabled=lambda: bool(ses._q.d) or ses._closing.flag or ses._ticks > 0)
        if not ses._q.d and ses._ticks > 0: ses._ticks -= 1
        ses._S.effect('select')
        return []
    def close(self):
        pass

class _SelMod:
    EVENT_READ = 1
    DefaultSelector = _Selector

_installed = {}
def install():
    import ncclient.transport.session as ses
    if not _installed:
        _installed['ses'] = (ses.Lock, ses.Event, ses.Queue, ses.selectors)
    ses.Lock, ses.Event, ses.Queue, ses.selectors = SLock, SEvent, WQueue, _SelMod

def uninstall():
    import ncclient.transport.session as ses
    if _installed:
        ses.Lock, ses.Event, ses.Queue, ses.selectors = _installed['ses']

def _field(name, store):
    """a shared field: reads made by Session.run are schedule points; every read and write is logged"""
    def getter(self):
        S = self._S
        if S.name() is None:
            return self.__dict__.get(store)
        caller = sys._getframe(1).f_code.co_name
        if caller == 'run':
            S.point(name + '.get')
        v = self.__dict__.get(store)
        S.effect(name + '.get', v, caller)
        return v
    def setter(self, v):
        S = self._S
        if S.name() is None:
            self.__dict__[store] = v; return
        self.__dict__[store] = v
        S.effect(name + '.set', v)
    return property(getter, setter)

class ScriptedFailure(OSError):
    pass

def make_session_class():
    from ncclient.transport.session import Session
    from ncclient.capabilities import Capabilities
    class WrSession(Session):
        _base = _field('base', '_x_base')
        _hello_pending = _field('pend', '_x_pend')
        def __init__(self, answers, readys, ticks):
            self._S = sched.S
            Session.__init__(self, Capabilities([]))
            self._buffer = io.BytesIO(); self._message_list = []
            self._closing = SEvent()
            self._connected = True
            self._q.qname = 'q'; self._q.owner = self
            self._answers = list(answers); self._readys = list(readys); self._ticks = ticks
            self._holding = False              # a message was dequeued and its frame has not been offered yet
            self.out = bytearray()             # octets the transport accepted
            self.writes = []                   # (offered, answer) per _transport_write call
            self.errors = []                   # what _dispatch_error was given
        @property
        def connected(self):
            self._S.point('chk'); v = self._connected; self._S.effect('chk', v); return v
        def close(self):
            self._S.point('close')
            self._closing.flag = True; self._connected = False
            self._S.effect('close')
        def _transport_register(self, sel, ev):
            sel.register(self, ev)
        def _send_ready(self):
            self._S.point('ready')
            v = bool(self._readys.pop(0)) if self._readys else True
            self._S.effect('ready', v)
            return v
        def _transport_write(self, data):
            self._S.point('write')
            if getattr(self._S, 'draining', False):
                raise OSError('scenario over')
            self._holding = False
            data = bytes(data)
            a = tuple(self._answers.pop(0)) if self._answers else ('a', len(data))
            self.writes.append((data, a))
            self._S.effect('write', data, a)
            if a[0] == 'a':                     # accepts a[1] >= 1 octets (everything when a[1] exceeds what is offered)
                self.out += data[:a[1]]
                return a[1]
            if a[0] == 'r':                     # returns 0 or a negative number: closed; or None: no count at all
                return a[1]
            raise ScriptedFailure('scripted transport failure')
        def _transport_read(self):
            raise AssertionError('nothing is readable in these scenarios')
        def _dispatch_error(self, err):
            self._S.point('disp')
            self.errors.append(err)
            self._S.effect('errbcast', err)
            return Session._dispatch_error(self, err)
    return WrSession

def err_unsent(err, writes):
    """(kind, unsent octets) of what the worker dispatched: 0 SessionCloseError(out_buf) | 1 the transport's own exception
    | 2 the TypeError of `n <= 0` on a write call answered with None (unsent = what that call had offered) | 3 anything else"""
    from ncclient.transport.errors import SessionCloseError
    if isinstance(err, SessionCloseError):
        m = re.match(r'^Unexpected session close OUT_BUFFER: `(.*)`$', str(err), re.S)
        if m:
            try: return 0, ast.literal_eval(m.group(1))
            except Exception: pass
        return 0, None
    if isinstance(err, ScriptedFailure):
        return 1, (writes[-1][0] if writes else b'')
    if isinstance(err, TypeError) and writes and tuple(writes[-1][1]) == ('r', None):
        return 2, writes[-1][0]
    return 3, None

class Run:
    """spec = dict(base=0|1, pending=0|1, progs=[[text,...],...], readys=[0|1,...], answers=[['a',n]|['r',n]|['x'],...],
                   setbase=None|0|1, ticks=n)"""
    def __init__(self, spec, decisions=None, seed=0, rng_after=True):
        self.spec, self.decisions, self.seed, self.rng_after = spec, decisions, seed, rng_after
    def run(self, max_steps=3000):
        from ncclient.transport.session import NetconfBase
        from ncclient.transport.errors import TransportError
        spec = self.spec
        S = sched.S = Sched(decisions=self.decisions, seed=self.seed, rng_after=self.rng_after)
        install()
        ses = make_session_class()(spec.get('answers', []), spec.get('readys', []), spec.get('ticks', 0))
        ses._base = NetconfBase.BASE_11 if spec['base'] == 1 else NetconfBase.BASE_10
        ses._hello_pending = bool(spec.get('pending', 0))
        self.ses = ses
        real_run = ses.run
        def wrun():
            try:
                real_run()
            finally:
                S.effect('exit')
        ses.run = S.wrap_run('W', wrun)
        S.adopt('W')
        ses.start()
        def submitter(i, prog):
            def body():
                for m in prog:
                    S.effect('call', m)
                    try:
                        ses.send(m)
                    except TransportError:
                        S.effect('refused', m)
                        return
                    S.effect('returned', m)
            return body
        for i, prog in enumerate(spec['progs']):
            S.spawn('T%d' % i, submitter(i, list(prog)))
        if spec.get('setbase') is not None:
            v = NetconfBase.BASE_11 if spec['setbase'] == 1 else NetconfBase.BASE_10
            def setter():
                # _post_connect assigns _base before the application can submit: no request queued or dequeued-and-unframed
                S.point('setbase', enabled=lambda: not ses._q.d and not ses._holding)
                ses._base = v
            S.spawn('C', setter)
        res = S.run(max_steps=max_steps)
        self.result = res
        self.blocked_at = {n: t['label'] for n, t in S.threads.items() if not t['done']}
        self.n_effects = len(S.effects)
        self.wire = bytes(ses.out)
        self.writes = list(ses.writes)
        self.errors = list(ses.errors)
        self.final = dict(base=ses.__dict__.get('_x_base'), pend=bool(ses.__dict__.get('_x_pend')), connected=ses._connected,
                          worker_done=S.threads['W']['done'], q=list(ses._q.d), tags=list(ses._q.tags))
        self._drain(S, ses)
        self.S = S
        self.decisions_used = [c[0] for c in S.choices]
        return self
    def _drain(self, S, ses):
        ses._closing.flag = True
        def free_point(label, enabled=None, timeout_ok=False):
            return 'timeout' if timeout_ok else 'go'
        S.point = free_point
        S.effect = lambda *e: None
        S.draining = True
        ses._connected = False
        for t in S.threads.values():
            if not t['done']:
                t['why'] = 'go'
                t['sem'].release()
        ses.join(2)
        for th in S.handles:
            th.join(2)

    # ---------------------------------------------------------------- effect log -> labels of WriterSched.wstep
    def effects(self):
        return self.S.effects[:self.n_effects]
    def labels(self):
        """label numbers as in Glue/C02_glue.v (fn 6); an effect on shared state the mapping has no label for becomes [99, text],
        which the model rejects"""
        out = []
        for e in self.effects():
            th, k = e[0], e[1]
            if th.startswith('T'):
                t = int(th[1:])
                if k == 'chk': out.append([0, t, 1 if e[2] else 0])
                elif k == 'q.put': out.append([1, t, e[2].encode()])
                elif k in ('call', 'refused', 'returned'): pass
                else: out.append([99, '%s %s' % (th, k)])
            elif th == 'C':
                if k == 'base.set': out.append([2, 1 if e[2] == 2 else 0])
                else: out.append([99, 'C ' + k])
            elif th == 'W':
                if k == 'q.empty': out.append([3, 1 if e[2] else 0])
                elif k == 'ready': out.append([4, 1 if e[2] else 0])
                elif k == 'q.get': out.append([5, e[2].encode()] if isinstance(e[2], str) else [99, 'W q.get %r' % (e[2],)])
                elif k == 'pend.get': out.append([6, 1 if e[2] else 0])
                elif k == 'pend.set': out.append([7] if e[2] is False else [99, 'W pend.set %r' % (e[2],)])
                elif k == 'base.get': out.append([8, 1 if e[2] == 2 else 0])
                elif k == 'write':
                    a = e[3]
                    out.append([9, e[2], [0, a[1]] if a[0] == 'a' or (a[0] == 'r' and a[1] == 0) else (([3] if a[1] is None else [1]) if a[0] == 'r' else [2])])
                elif k == 'select': out.append([10])
                elif k == 'errbcast':
                    kind, unsent = err_unsent(e[2], self.writes)
                    out.append([11, kind, unsent] if unsent is not None and kind < 3 else [99, 'W dispatches %r' % (e[2],)])
                elif k == 'close': out.append([12])
                elif k == 'exit': pass
                else: out.append([99, 'W ' + k])
        return out
