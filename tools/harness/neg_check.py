"""C05 under the scheduler: scenarios, schedule enumeration, trace validation against coq/Model/NegotiateSched.v
(`fstep`, through fn 6 of Glue/C05_glue.v) and the property's own oracle on the observables of each run."""
import re
import xml.etree.ElementTree as ET
from .neg_sched import Run, B10, B11, B10X, B11X, BASE_NS, EOM, LATER, CUTS, hello_xml

PROFILES = ['alu', 'ciena', 'csr', 'default', 'ericsson', 'h3c', 'hpcomware', 'huawei', 'huaweiyang', 'iosxe', 'iosxr', 'junos', 'nexus', 'sros']
ERR_NAME = {0: 'SessionError', 1: 'SessionCloseError', 2: 'AttributeError', 3: 'TypeError', 4: 'other'}
def err_class(name):
    return name if name in ('SessionError', 'SessionCloseError', 'AttributeError', 'TypeError') else 'other'

def describe(spec, decisions):
    return {'kind': 'sched', 'spec': spec, 'decisions': list(decisions)}

def run_case(spec, decisions=None, seed=0, rng_after=True):
    return Run(spec, decisions=decisions, seed=seed, rng_after=rng_after).run()

def dfs_schedules(spec, bound, cap):
    """Depth-first enumeration of the schedules with at most `bound` departures from run-to-completion."""
    stack = [([], 0)]
    n = 0
    while stack and n < cap:
        prefix, pre = stack.pop()
        sc = run_case(spec, decisions=list(prefix), rng_after=False)
        n += 1
        yield sc
        ch = sc.S.choices
        for j in range(len(prefix), len(ch)):
            i, nopts, default = ch[j]
            if pre + 1 > bound:
                break
            for alt in range(nopts):
                if alt != i:
                    stack.append(([c[0] for c in ch[:j]] + [alt], pre + 1))

# ---------------------------------------------------------------- model side
def model_call(sc):
    return [6, [u.encode() for u in sc.client_list], sc.labels()]

def decode_frames(wire):
    """independent reading of the octets on the wire: list of (framing 0|1, payload) or None when they are not a
    sequence of complete frames; a trailing incomplete frame is reported as ('partial', octets)"""
    out, i = [], 0
    while i < len(wire):
        if wire.startswith(b'\n#', i):
            m = re.compile(rb'\n#([1-9][0-9]*)\n').match(wire, i)
            if not m: return out + [('bad', wire[i:i + 20])]
            n = int(m.group(1)); body = wire[m.end():m.end() + n]
            rest = wire[m.end() + n:]
            # one chunk per message is what Session.run writes
            if len(body) < n or not rest.startswith(b'\n##\n'):
                return out + [('partial', wire[i:])]
            out.append((1, body)); i = m.end() + n + 4
        else:
            k = wire.find(EOM, i)
            if k < 0: return out + [('partial', wire[i:])]
            out.append((0, wire[i:k])); i = k + len(EOM)
    return out

def observed(sc):
    fr = decode_frames(sc.wire)
    frames = []
    for f in fr:
        if f[0] in (0, 1):
            p = f[1]
            if p.lstrip().startswith(b'<?xml') and b'hello' in p[:120]: frames.append([f[0], 0])
            else:
                txt = p.decode('utf-8', 'replace')
                frames.append([f[0], LATER.index(txt) + 1 if txt in LATER else 98])
    res = sc.outcome.get('result')
    fin = sc.final
    sid = fin['sid']
    caps = fin['caps']
    return dict(frames=frames, result=None if res is None else (res[0] if res[0] == 'ok' else err_class(res[1])),
                sid='unset' if sid is None or (sid == 0 and not isinstance(sid, str)) else sid,
                caps=None if caps is None else list(caps), base=0 if fin['base'] == 1 else 1,
                pending=bool(fin['pend']), lis=bool(fin['listener']), conn=bool(fin['connected']), wdone=bool(fin['worker_done']),
                q=len(fin['q']))

def model_view(mo):
    if mo[0] == 0:
        return None
    _, frames, mpc, sid, caps, base, pending, lis, ev, conn, wpc, err, q = mo
    if mpc[0] == 10: res = 'ok' if mpc[1] == [] else ERR_NAME[mpc[1][0]]
    else: res = None
    sid = 'unset' if sid == [] else (None if sid[0] == [] else sid[0][0].decode())
    return dict(frames=[[f[0], f[1]] for f in frames], result=res, sid=sid, caps=None if caps == [] else [c.decode() for c in caps[0]],
                base=base, pending=bool(pending), lis=bool(lis), conn=bool(conn), wdone=(wpc == 13), q=len(q))

def compare(sc, mo):
    """None, or a description of the first difference between what the model accepts/predicts and the run"""
    if mo[0] == 0:
        labs = sc.labels()
        i = mo[1]
        return 'label %d %r is not accepted by NegotiateSched.fstep after %r' % (i, _short(labs[i]) if i < len(labs) else None, [_short(l) for l in labs[max(0, i - 6):i]])
    mv, ob = model_view(mo), observed(sc)
    if sc.wire and decode_frames(sc.wire) and decode_frames(sc.wire)[-1][0] in ('partial', 'bad') and not sc.spec.get('wfail'):
        return 'octets on the wire are not whole frames: %r' % (decode_frames(sc.wire)[-1],)
    for k in ('frames', 'result', 'sid', 'caps', 'base', 'pending', 'lis', 'conn', 'wdone', 'q'):
        if mv[k] != ob[k]:
            return '%s: model %r, implementation %r' % (k, mv[k], ob[k])
    return None

def _short(l):
    return l if not (isinstance(l, list) and len(l) == 2 and isinstance(l[1], list)) else [l[0], '<tree>']

# ---------------------------------------------------------------- the property on the observables (independent of the model)
PA = ['urn', 'ietf', 'params', 'netconf']
PB = ['urn', 'ietf', 'params', 'xml', 'ns', 'netconf']
def advertises(uri, version):
    segs = uri.split('?')[0].split(':')
    return any(segs[:len(p)] == p and segs[len(p):len(p) + 2] == ['base', version] for p in (PA, PB))
def has11(caps):
    return any(advertises(u, '1.1') for u in caps if u is not None)
def dedup(l):
    out = []
    for x in l:
        if x not in out: out.append(x)
    return out

def hello_caps(xml_bytes):
    try:
        root = ET.fromstring(xml_bytes)
    except ET.ParseError:
        return None
    if root.tag != '{%s}hello' % BASE_NS: return None
    caps = root.find('{%s}capabilities' % BASE_NS)
    if caps is None or len(root) != 1: return None
    if any(c.tag != '{%s}capability' % BASE_NS for c in caps): return None
    return [c.text for c in caps]

def good_hellos(spec):
    """server hellos of the script that are complete and well-formed (in script order)"""
    out = []
    spoiled = False                    # octets without a delimiter run into the next message: that one is not a document
    for a in spec['server']:
        if a[0] == 'raw': spoiled = True
        elif a[0] == 'msg':
            if not spoiled and a[1][0] == 'hello' and all(u is not None for u in a[1][1]):
                out.append(a[1])
            spoiled = False
    return out

def script_kind(spec):
    """what the server script amounts to, independent of the schedule"""
    acts = [a[0] if a[0] != 'msg' else a[1][0] for a in spec['server']]
    return acts

def oracle(sc):
    """Returns None or (what, expected, actual).  Clauses of C05 on one scheduled run."""
    spec, ob = sc.spec, observed(sc)
    res = sc.outcome.get('result')
    if sc.result == 'step-limit':
        return ('the run does not end (scheduler step limit)', 'termination', sc.blocked_at)
    if res is None:
        return ('connect hangs: _post_connect neither returned nor raised although its wait has a timeout', 'a result', sc.blocked_at)
    client = sc.final['client_caps']
    fr = decode_frames(sc.wire)
    whole = [f for f in fr if f[0] in (0, 1)]
    # (a) whatever is on the wire begins with the <hello>, end-of-message framed, listing exactly the client capabilities
    if sc.wire:
        first = fr[0]
        if first[0] == 'partial' and (spec.get('wfail') or first[1].lstrip().startswith(b'<?xml') and not first[1].startswith(b'\n#')):
            pass                                        # a hello cut by a write fault / still being written
        else:
            caps = hello_caps(first[1]) if first[0] == 0 else None
            if caps is None:
                return ('first frame on the wire is not an end-of-message framed <hello>', 'hello]]>]]>', sc.wire[:60])
            if caps != client:
                return ('hello does not list exactly the client capabilities', client, caps)
    # (b) no request frame before the decision: at the moment _post_connect returned, at most the hello was out
    at = sc.outcome.get('at_return') or {}
    at_frames = [f for f in decode_frames(sc.wire[:at.get('wire', 0)])]
    if len([f for f in at_frames if f[0] in (0, 1)]) > 1:
        return ('a frame other than the hello was written before _post_connect returned', '<= 1 frame', len(at_frames))
    goods = good_hellos(spec)
    kinds = script_kind(spec)
    if res[0] == 'ok':
        # (c) success needs a well-formed server hello, and what is reported is that hello's
        if not goods:
            return ('connect succeeded without a well-formed server hello', 'an exception', 'ok')
        cands = [(('unset' if g[2] is None else str(g[2])), dedup(g[1])) for g in goods]
        rep = (('unset' if at.get('sid') is None or (at.get('sid') == 0 and not isinstance(at.get('sid'), str)) else at.get('sid')),
               None if at.get('caps') is None else list(at.get('caps')))
        if rep[0] not in [c[0] for c in cands] or rep[1] not in [c[1] for c in cands] or (len(goods) == 1 and rep != cands[0]):
            return ('session id / server capabilities at the return of _post_connect are not those of a server hello', cands, rep)
        if len(goods) == 1 and (ob['sid'], ob['caps']) != cands[0]:
            return ('session id / server capabilities reported are not those of the server hello', cands[0], (ob['sid'], ob['caps']))
        # (d) framing after the hello: chunked iff both advertised base:1.1 (decided on the reported server list)
        chunked = has11(rep[1]) and has11(client)
        if len(goods) > 1:            # a server that sends several hellos: the decision may have read any of them
            options = {has11(g[1]) and has11(client) for g in goods}
            chunked = (at.get('base') == 2) if (at.get('base') == 2) in options else chunked
        if (at.get('base') == 2) != chunked:
            return ('framing version after the hello exchange is not "1.1 iff both peers advertise base:1.1"', '1.1' if chunked else '1.0', at.get('base'))
        later = whole[1:]
        sent = [s for s in sc.outcome.get('sent', []) if s[0] == 'sent']
        for f in later:
            if f[0] != (1 if chunked else 0):
                return ('frames after the hello are not %s-framed' % ('chunked' if chunked else 'end-of-message'),
                        'chunked' if chunked else 'eom', 'eom' if chunked else 'chunked')
        if fr and fr[-1][0] == 'bad':
            return ('octets after the hello are not frames', 'frames', fr[-1][1])
        texts = [f[1].decode('utf-8', 'replace') for f in later]
        if texts != LATER[:len(texts)]:
            return ('requests on the wire are not the requests sent, in order', LATER[:len(texts)], texts)
        if sc.result == 'blocked' and ob['conn'] and not spec.get('wfail') and sc.final['q'] == [] and len(texts) != len(sent):
            return ('a request accepted by send() was not written', len(sent), len(texts))
    else:
        # (e) failure: the right exception, nothing but the hello written, no base switch
        name = res[1]
        allowed = set()
        if 'eof' in kinds or spec.get('wfail') is not None: allowed.add('SessionCloseError')
        if 'err' in kinds: allowed.add('OSError')
        if 'nonxml' in kinds or 'raw' in kinds: allowed.add('XMLSyntaxError')      # some profiles re-parse what they could not repair
        if any(a[0] == 'msg' and a[1][0] == 'hello' and any(u is None for u in a[1][1]) for a in spec['server']): allowed.add('AttributeError')
        if spec.get('eager') or not goods or spec.get('never_ready_hello'): allowed.add('SessionError')
        if not goods and not allowed - {'SessionError'}: allowed = {'SessionError'}
        if name not in allowed:
            if not allowed:
                return ('connect failed (%s) although the server sent a well-formed hello and nothing else went wrong' % name, 'ok', name)
            return ('connect failed with the wrong exception', sorted(allowed), name)
        if name == 'SessionError' and goods and not spec.get('eager'):
            return ('connect timed out although the server hello arrived', 'ok', name)
        if len(whole) > 1:
            return ('a request was written on a session whose connect failed', '<= 1 frame', len(whole))
        if at.get('base') == 2:
            return ('framing switched to 1.1 although connect failed', '1.0', '1.1')
        for s in sc.outcome.get('sent', []):
            if s[0] == 'accepted-after-failure':
                return ('a session whose connect failed because it died accepts a request', 'TransportError', 'accepted')
    return None

# ---------------------------------------------------------------- scenarios
H_BOTH = ('hello', [B10, B11], 4, True)
H_XMLNS = ('hello', [B10X, B11X], 17, False)
H_10 = ('hello', [B10, 'urn:ietf:params:netconf:capability:candidate:1.0'], 5, True)
H_NOTEXT = ('hello', [B10, None], 6, True)
H_NOSID = ('hello', [B11, B11 + '?x=y', B10], None, True)

def S(server, profile='default', **kw):
    d = dict(profile=profile, extra=[], server=server, ready={'mode': 'always'}, later=1, eager=False)
    d.update(kw)
    return d

def small_specs():
    """scenarios enumerated depth-first (every schedule within the pre-emption bound)"""
    return [
        S([('msg', H_BOTH, 'whole', 'pre')]),                                                      # server hello first
        S([('msg', H_BOTH, 'whole', 'free')]),                                                     # any arrival time
        S([('msg', H_BOTH, 'whole', 'pre')], ready={'mode': 'after_return'}, later=2),             # the F15 order
        S([('msg', H_XMLNS, 'in_delim', 'free')], ready={'mode': 'after_dispatch'}),
        S([('msg', H_NOSID, 'after_delim', 'after_hello')], later=2),
        S([('msg', H_10, 'whole', 'pre')], ready={'mode': 'polls', 'polls': [0, 0]}),
        S([('msg', H_BOTH, 'whole', 'pre')], profile='alu'),
        S([('eof', 'free')]),                                                                      # the session dies first
        S([('err', 'free')]),
        S([('msg', H_BOTH, 'whole', 'pre'), ('eof', 'free')], probe_after_failure=True),           # dies around the hello
        S([('msg', H_NOTEXT, 'whole', 'free')]),                                                   # malformed hello
        S([('msg', ('other',), 'whole', 'pre'), ('msg', H_BOTH, 'before_delim', 'free')]),
        S([('msg', H_BOTH, 'whole', 'free')], eager=True),                                         # the deadline may pass at any moment
        S([], eager=False),                                                                        # nothing until the timeout
        S([('msg', H_BOTH, 'whole', 'pre')], wfail=(0, 0)),                                        # write refused
        S([('msg', H_BOTH, 'whole', 'pre')], wfail=(0, 7), probe_after_failure=True),              # short write, then refused
        S([('msg', H_BOTH, 'whole', 'pre'), ('msg', H_10, 'whole', 'free')], later=1),             # two hellos
        S([('msg', H_BOTH, 'bytewise_delim', 'free')], ready={'mode': 'after_dispatch'}),          # delimiter arriving octet by octet
        S([('msg', H_BOTH, 'whole', 'pre')], ready={'mode': 'after_return'}, eager=True),          # F15 order with the deadline racing
        S([('msg', ('foreign',), 'whole', 'pre'), ('msg', ('nonxml',), 'whole', 'free'), ('msg', H_XMLNS, 'in_xml', 'free')], profile='nexus'),
        S([('raw', b'garbage without delimiter '.hex(), 'pre'), ('msg', H_BOTH, 'whole', 'free')]), # the hello runs into the garbage: timeout
    ]

def gen_spec(rng):
    profile = rng.choice(PROFILES)
    extra = rng.choice([[], [], ['urn:x:1'], [B11X], [B11]])
    def hello():
        r = rng.random()
        if r < 0.7:
            caps = []
            if rng.random() < 0.8: caps.append(rng.choice([B10, B10X]))
            if rng.random() < 0.6: caps.append(rng.choice([B11, B11X, B11 + '?x=y', B11X + ':extra']))
            for _ in range(rng.choice([0, 1, 2])):
                caps.append(rng.choice(['urn:ietf:params:netconf:capability:candidate:1.0', 'urn:ietf:params:netconf:base:1.10', 'urn:x:base:1.1',
                                        'http://example.com/yang?module=x&revision=2020-01-01', 'urn:ietf:params:netconf:base:1.1x']))
            rng.shuffle(caps)
            if caps and rng.random() < 0.2: caps.append(rng.choice(caps))
            return ('hello', caps, rng.choice([4, 17, 4294967295, None, 'abc']), rng.random() < 0.8)
        if r < 0.78: return ('hello', [B10, None], 3, True)
        if r < 0.87: return ('other',)
        if r < 0.94: return ('foreign',)
        return ('nonxml',)
    when = lambda: rng.choice(['pre', 'free', 'free', 'after_hello'])
    server = []
    for _ in range(rng.choice([0, 1, 1, 1, 2, 3])):
        server.append(('msg', hello(), rng.choice(list(CUTS) + [rng.randint(0, 300)]), when()))
    r = rng.random()
    if r < 0.15: server.insert(rng.randint(0, len(server)), ('eof', when()))
    elif r < 0.25: server.insert(rng.randint(0, len(server)), ('err', when()))
    elif r < 0.3: server.insert(rng.randint(0, len(server)), ('raw', b'garbage without delimiter '.hex(), when()))
    # 'pre' only makes sense as a prefix of the script
    seen_later = False
    fixed = []
    for a in server:
        w = a[-1]
        if w != 'pre': seen_later = True
        elif seen_later: a = a[:-1] + ('free',)
        fixed.append(a)
    mode = rng.choice(['always', 'always', 'after_return', 'after_dispatch', 'polls'])
    if mode in ('after_return', 'after_dispatch'):      # the server does not wait for a client hello that waits for the server
        fixed = [a[:-1] + ('free',) if a[-1] == 'after_hello' else a for a in fixed]
    ready = {'mode': mode}
    if mode == 'polls': ready['polls'] = [int(rng.random() < 0.4) for _ in range(rng.randint(1, 4))]
    spec = dict(profile=profile, extra=extra, server=fixed, ready=ready, later=rng.choice([0, 1, 2]), eager=rng.random() < 0.25)
    r = rng.random()
    if r < 0.08: spec['wfail'] = (rng.choice([0, 0, 1]), rng.choice([0, 5]))
    elif r < 0.2: spec['short'] = rng.choice([64, 300, 700])
    if mode in ('after_return', 'after_dispatch') and not good_hellos(spec):
        spec['never_ready_hello'] = True
    if any(a[0] in ('eof', 'err') for a in fixed) or spec.get('wfail') is not None:
        spec['probe_after_failure'] = rng.random() < 0.5
    return spec

def normalise(spec):
    """a spec read back from JSON"""
    spec = dict(spec)
    srv = []
    for a in spec['server']:
        a = list(a)
        if a[0] == 'msg':
            m = list(a[1])
            a[1] = tuple([m[0]] + [list(m[1])] + m[2:]) if m[0] == 'hello' else tuple(m)
        srv.append(tuple(a))
    spec['server'] = srv
    if spec.get('wfail') is not None: spec['wfail'] = tuple(spec['wfail'])
    return spec

# ---------------------------------------------------------------- driver used by tools/props/c05.py
def check(ctx, n_random, dfs_bound, dfs_cap, corpus=()):
    from . import neg_sched
    runs = []
    try:
        for doc in corpus:
            runs.append(run_case(normalise(doc['spec']), decisions=list(doc['decisions']), rng_after=False))
        for spec in small_specs():
            for sc in dfs_schedules(spec, dfs_bound, dfs_cap):
                runs.append(sc)
        for i in range(n_random):
            spec = gen_spec(ctx.rng)
            runs.append(run_case(spec, seed=ctx.rng.randrange(1 << 30)))
    finally:
        neg_sched.uninstall()
    calls = [model_call(sc) for sc in runs]
    outs = ctx.model.batch(calls) if ctx.model else [None] * len(runs)
    bad = 0
    for sc, mo in zip(runs, outs):
        case = describe(sc.spec, sc.decisions_used)
        ob = observed(sc)
        ctx.count(case, nontrivial=bool(sc.spec['server']) or bool(sc.spec.get('wfail')), key=['sched', sc.spec, sc.decisions_used])
        ctx.traces += 1
        ctx.hist('sched_result', str(ob['result'])); ctx.hist('sched_end', sc.result)
        ctx.hist('sched_ready', sc.spec['ready']['mode']); ctx.hist('sched_frames', ''.join(str(f[0]) for f in ob['frames']) or '-')
        if ctx.evaluations % 397 == 1:
            ctx.sample({'case': case, 'result': ob['result'], 'frames': ob['frames'], 'labels': len(sc.labels())})
        if bad >= 12:
            continue
        if mo is not None:
            d = compare(sc, mo)
            if d:
                bad += 1
                ctx.disagree(case, 'NegotiateSched accepts the trace and predicts the observables', d,
                             'trace validation against Model/NegotiateSched.v', theorem='C05_sched_*')
        f = oracle(sc)
        if f:
            bad += 1
            ctx.fail(case, f[0], sig=None, expected=f[1], actual=f[2])
    return len(runs)

def search(ctx, seeds, n=600):
    from . import neg_sched
    try:
        for c in seeds:
            if c.get('kind') != 'sched': continue
            spec = normalise(c['spec'])
            for extra in range(30):
                sc = run_case(spec, decisions=list(c['decisions']) if extra == 0 else None, seed=extra, rng_after=(extra != 0))
                f = oracle(sc)
                if f:
                    return dict(case=describe(sc.spec, sc.decisions_used), what=f[0], sig=None, expected=f[1], actual=f[2])
        for spec in small_specs():
            for sc in dfs_schedules(spec, 3, 1500):
                f = oracle(sc)
                if f:
                    return dict(case=describe(sc.spec, sc.decisions_used), what=f[0], sig=None, expected=f[1], actual=f[2])
        for i in range(n):
            spec = gen_spec(ctx.rng)
            sc = run_case(spec, seed=i)
            f = oracle(sc)
            if f:
                return dict(case=describe(sc.spec, sc.decisions_used), what=f[0], sig=None, expected=f[1], actual=f[2])
    finally:
        neg_sched.uninstall()
    return None

def replay(doc):
    from . import neg_sched
    c = doc['case']
    spec = normalise(c['spec'])
    try:
        sc = run_case(spec, decisions=list(c['decisions']), rng_after=False)
    finally:
        neg_sched.uninstall()
    f = oracle(sc)
    ob = observed(sc)
    print('case      :', {'spec': spec, 'decisions': c['decisions']})
    print('schedule  :', ' '.join('%s:%s' % (e[0], e[1]) for e in sc.S.effects[:sc.n_effects] if e[1] not in ('chk', 'ready', 'read', 'dispatch'))[:900])
    print('observed  : result=%s session-id=%r base=%s frames=%r end=%s' % (ob['result'], ob['sid'], ob['base'], ob['frames'], sc.result))
    if f:
        print('FAILS     :', f[0]); print('expected  :', f[1]); print('actual    :', f[2])
    else:
        print('holds')
    return f is None
