"""Generators, serialiser, the class predicate (Python mirror of Spec/Projection.v wf_reply) and the independent
projection oracle (xml.etree) for C18.  Documents are tuples: ('E', name, [(k, v)...], [kids]) | ('T', text, how)
with how in 'plain' | 'cdata' | 'ref' (how the text is written: varies the Chars events expat produces).
Filters are (tag, [kids])."""
import xml.etree.ElementTree as ET

REPLY = ('rpc-reply', 'nc:rpc-reply')
BASE_NS = 'urn:ietf:params:xml:ns:netconf:base:1.0'
JUNOS_NS = 'http://xml.juniper.net/junos/12.1X46/junos'
KW = ('content', 'format_str', 'self')
WS = ' \t\n\r'

# ------------------------------------------------------------------ serialiser
def esc_text(t, how):
    if how == 'cdata' and ']]>' not in t and '\r' not in t and t:
        return '<![CDATA[' + t + ']]>'
    out = []
    for ch in t:
        if ch == '&': out.append('&amp;')
        elif ch == '<': out.append('&lt;')
        elif ch == '>': out.append('&gt;')
        elif ch == '\r': out.append('&#13;')
        elif how == 'ref' and ch in 'aeiou': out.append('&#%d;' % ord(ch))
        else: out.append(ch)
    return ''.join(out)

def esc_attr(v):
    return (v.replace('&', '&amp;').replace('<', '&lt;').replace('"', '&quot;').replace('\n', '&#10;')
             .replace('\t', '&#9;').replace('\r', '&#13;'))

def ser(t, pretty=None, depth=0):
    if t[0] == 'T':
        return esc_text(t[1], t[2])
    _, n, a, ks = t
    s = '<' + n + ''.join(' %s="%s"' % (k, esc_attr(v)) for k, v in a)
    if not ks and pretty is not None and pretty.random() < 0.5:
        return s + '/>'
    s += '>'
    for k in ks: s += ser(k, pretty, depth + 1)
    return s + '</' + n + '>'

def filter_str(f):
    tag, ks = f
    return '<%s>%s</%s>' % (tag, ''.join(filter_str(k) for k in ks), tag) if ks else '<%s/>' % tag

# ------------------------------------------------------------------ class predicate (mirror of wf_reply)
def is_blank(s): return all(c in WS for c in s)
def bad_kw(a): return any(k in KW for k, _ in a)
def find_f(m, fs):
    for f in fs:
        if f[0] == m: return f
    return None

def names_avoid(bad, t):
    if t[0] == 'T': return True
    return t[1] not in bad and all(names_avoid(bad, k) for k in t[3])

def _prefixed(m, fkids, R):
    """a prefixed element: the handler cannot match it (foreign prefix) or matches it through the nc namespace only;
    the property (names read as local names) wants it kept iff the filter names it"""
    if ':' in m and find_f(m.split(':', 1)[1], fkids) is not None: R.add('prefix')

def _kid_reasons(D, f, m, R):
    _prefixed(m, f[1], R)
    if f[0] == m or m in D or m in REPLY: R.add('clash')

def _wfks(D, f, ks, R):
    seen = False
    for k in ks:
        if k[0] == 'T':
            if seen and not is_blank(k[1]): R.add('mixed')
            continue
        _, m, a, kk = k
        _kid_reasons(D, f, m, R)
        f2 = find_f(m, f[1])
        if f2 is not None:
            _wfks(D, f2, kk, R)
        else:
            bad = [m, f[0]] + list(REPLY) + D
            if not all(names_avoid(bad, x) for x in kk): R.add('clash')
        seen = True

def reasons(doc, f):
    """Why (doc, filter) is outside the class of Spec/Projection.v wf_reply; empty set = inside.
    'wrapper' alone = outside the proved class but the oracle still applies (one-level wrapper)."""
    R = set()
    _, top, a, ks = doc
    r = f[0]
    if top not in REPLY or ':' in r or r in REPLY:
        R.add('odd'); return R
    if find_f('rpc-reply', f[1]) or find_f('{%s}rpc-reply' % BASE_NS, f[1]): R.add('clash')
    D = [top, r]
    first = True
    wrapper = None
    for k in ks:
        if k[0] == 'T':
            if not is_blank(k[1]): R.add('mixed')
            continue
        _, m, a2, kk = k
        if m == r and wrapper is None:
            _wfks(D, f, kk, R)
        elif first:
            # one-level wrapper: its children are matched against [filter root]
            R.add('wrapper'); wrapper = m
            if ':' in m: R.add('prefix')
            if m in REPLY: R.add('clash')
            D = [top, m, r]
            seenw = False
            for x in kk:
                if x[0] == 'T':
                    if not is_blank(x[1]): R.add('mixed')
                    continue
                _prefixed(x[1], [f], R)
                if x[1] == m or x[1] in REPLY: R.add('clash')
                if x[1] == r:
                    _wfks(D, f, x[3], R)
                elif not all(names_avoid([x[1], m, r] + list(REPLY) + D, y) for y in x[3]): R.add('clash')
        else:
            if wrapper is not None:
                # siblings of the wrapper: the handler looks them up in the wrapper (keeps a later root, skips a later wrapper)
                if m == r or m == wrapper: R.add('clash')
                _prefixed(m, [f], R)
                if not all(names_avoid([m, wrapper, r] + list(REPLY) + D, y) for y in kk): R.add('clash')
            else:
                _kid_reasons(D, f, m, R)
                if find_f(m, f[1]) is not None: R.add('clash')
                bad = [m, r] + list(REPLY) + D
                if not all(names_avoid(bad, x) for x in kk): R.add('clash')
        first = False
    return R

def has_cr(t):
    if t[0] == 'T': return '\r' in t[1]
    return any(has_cr(k) for k in t[3])

SIGS = [('prefix', 'sax_prefixed_element_named_by_filter'), ('clash', 'sax_element_name_clash'),
        ('mixed', 'sax_mixed_content_text_dropped')]

def sig_of(doc, f):
    """The open-finding signature a failing (doc, filter) falls under, or None (then a failure is a violation)."""
    R = reasons(doc, f)
    for key, sig in SIGS:
        if key in R: return sig
    return None

# ------------------------------------------------------------------ independent projection (xml.etree only)
def _local(t): return t.rsplit('}', 1)[-1]

def _canon(e, kids):
    """text of an element that keeps no child element: its leading text verbatim (unless blank) and whatever non-blank
    text follows dropped children, stripped; otherwise the non-blank pieces, stripped (modulo blank text)."""
    tails = [x.strip() for x in [(k.tail or '') for k in e] if x.strip()]
    if not kids:
        texts = ([e.text] if e.text and e.text.strip() else []) + tails
    else:
        texts = ([e.text.strip()] if e.text and e.text.strip() else []) + tails
    return [e.tag, sorted(e.attrib.items()), texts, kids]

def canon(e):
    return _canon(e, [canon(k) for k in e])

def et_project(doc_xml, filter_xml):
    """Canonical tree of the sub-document of doc on the filter's paths (names compared as local names; the reply
    element stands for a node whose only child is the filter root; allowance: when the first child element of the
    reply is not the filter root it is kept as a bare wrapper (no attributes) and stands for a node whose only
    child is the filter root)."""
    d = ET.fromstring(doc_xml); f = ET.fromstring(filter_xml)
    def proj(e, fnode_kids, bare=False):
        kids = []
        for k in e:
            m = next((c for c in fnode_kids if _local(c.tag) == _local(k.tag)), None)
            if m is not None: kids.append(proj(k, list(m)))
        c = _canon(e, kids)
        if bare: c[1] = []
        return c
    els = list(d)
    if els and _local(els[0].tag) != _local(f.tag):
        w = els[0]
        c = _canon(d, [proj(w, [f], bare=True)])
        return c
    return proj(d, [f])

def canon_xml(xml):
    return canon(ET.fromstring(xml))

# ------------------------------------------------------------------ generators
TEXTS = ['x', 'tests', '12.3R6.6', 'a&b', '1<2', 'q>p', 'he said "hi"', "it's", 'é€ü', ' padded ', 'two words', 'line1\nline2',
         '', 'JUNOS Base OS boot [12.3R6.6]', ']]', 'a]]>b', '0x52', 'tab\there', '&&&', 'aeiou']
ATTRV = ['1', 'a"b', "x'y", 'a"b\'c', 'l\nm', 'p&q<r>', 'é', '', 't\tu', '17812']

def gen_text(rng, cr=False):
    t = rng.choice(TEXTS)
    if cr and rng.random() < 0.5: t = t + '\rz'
    return ('T', t, rng.choice(['plain', 'plain', 'plain', 'cdata', 'ref']))

def gen_attrs(rng, junos_ok=True, kw=False):
    a = []
    for _ in range(rng.choice([0, 0, 0, 1, 1, 2])):
        k = rng.choice(['id', 'style', 'junos:seconds', 'format', 'xmlns', 'n-1'] if junos_ok else ['id', 'style', 'format'])
        if k == 'xmlns':
            v = rng.choice(['http://xml.juniper.net/junos/12.1X46/junos-routing', 'urn:x'])
        else:
            v = rng.choice(ATTRV)
        if k not in [x for x, _ in a]: a.append((k, v))
    if kw: a.append((rng.choice(KW), 'v'))
    return a

def gen_ws(rng):
    return ('T', rng.choice(['\n', '\n  ', ' ', '\n\n    ', '\t']), 'plain')

def gen_el(rng, name, depth, opts, path_names):
    """An element named `name`; children's names are drawn per depth so that nesting clashes are rare unless asked for."""
    a = gen_attrs(rng, kw=(opts.get('kw') and rng.random() < 0.15))
    if depth >= opts['maxdepth'] or rng.random() < 0.35:
        ks = [] if rng.random() < 0.2 else [gen_text(rng, opts.get('cr'))]
        if ks and rng.random() < 0.2: ks.append(gen_text(rng))          # two character chunks
        return ('E', name, a, ks)
    ks = []
    pretty = rng.random() < 0.5
    if pretty: ks.append(gen_ws(rng))
    elif rng.random() < 0.1: ks.append(gen_text(rng))                   # leading text in a container (kept by the handler)
    n = rng.choice([1, 2, 2, 3, 4])
    pool = ['a', 'b', 'c', 'd', 'item', 're-name', 'sw.info', 'name', 'x_1']
    for i in range(n):
        if opts.get('clash') and rng.random() < 0.25:
            m = rng.choice(path_names + ['rpc-reply'])
        elif opts.get('prefix') and rng.random() < 0.2:
            m = rng.choice(['junos:comment', 'nc:ok', 'junos:' + rng.choice(pool)])
        else:
            m = rng.choice(pool) + ('%d' % depth if rng.random() < 0.85 else '')
        ks.append(gen_el(rng, m, depth + 1, opts, path_names + [m]))
        if opts.get('mixed') and rng.random() < 0.3: ks.append(gen_text(rng))
        elif pretty: ks.append(gen_ws(rng))
    return ('E', name, a, ks)

def gen_doc(rng, mid, flavour='inclass'):
    """flavour: inclass | wrapper | clash | mixed | prefix | kw | cr   (what the generator is allowed to do; the class
    predicate decides afterwards what the case is)."""
    opts = {'maxdepth': rng.choice([1, 2, 2, 3, 4]), flavour: True}
    top = 'nc:rpc-reply' if rng.random() < 0.3 else 'rpc-reply'
    a = []
    if top == 'nc:rpc-reply': a.append(('xmlns:nc', BASE_NS))
    elif rng.random() < 0.5: a.append(('xmlns', BASE_NS))
    a.append(('xmlns:junos', JUNOS_NS))
    if top == 'rpc-reply' and rng.random() < 0.3: a.append(('xmlns:nc', BASE_NS))
    a.insert(rng.randrange(len(a) + 1), ('message-id', mid))
    if rng.random() < 0.2: a.append(('dummy', 'tests"s'))
    if flavour == 'kw' and rng.random() < 0.3: a.append(('content', 'c'))
    r = rng.choice(['r', 'results', 'configuration', 'multi-routing-engine-results'])
    ks = []
    pretty = rng.random() < 0.6
    def sep():
        if pretty: ks.append(gen_ws(rng))
    sep()
    if flavour == 'wrapper':
        w = rng.choice(['data', 'w', 'output'])
        inner = []
        for i in range(rng.choice([1, 1, 2])):
            if rng.random() < 0.3: inner.append(gen_el(rng, 'other0', 1, opts, [w]))
            inner.append(gen_el(rng, r, 1, opts, [w, r]))
            if pretty: inner.append(gen_ws(rng))
        ks.append(('E', w, gen_attrs(rng, junos_ok=False) if rng.random() < 0.3 else [], inner)); sep()
        if rng.random() < 0.2: ks.append(gen_el(rng, 'cli', 1, opts, ['cli'])); sep()
    else:
        for i in range(rng.choice([1, 1, 1, 2])):
            ks.append(gen_el(rng, r, 1, opts, [r])); sep()
            if rng.random() < 0.35:
                m = rng.choice(['cli', 'ok', 'other'] + (['a1', 'b1'] if flavour == 'clash' else []))
                ks.append(gen_el(rng, m, 1, opts, [m])); sep()
    if flavour == 'mixed' and rng.random() < 0.2: ks.append(gen_text(rng))
    return ('E', top, a, ks), r

def first_named(t, name):
    if t[0] == 'E':
        if t[1] == name: return t
        for k in t[3]:
            x = first_named(k, name)
            if x is not None: return x
    return None

def gen_filter(rng, doc, r):
    """A filter drawn from the document's own paths below the first element named r."""
    el = first_named(doc, r)
    def sub(e, depth):
        names = []
        for k in e[3]:
            if k[0] == 'E' and k[1] not in names and ':' not in k[1]: names.append(k[1])
        ks = []
        for m in names:
            if rng.random() < 0.6:
                child = next(k for k in e[3] if k[0] == 'E' and k[1] == m)
                ks.append(sub(child, depth + 1) if rng.random() < 0.7 else (m, []))
        if rng.random() < 0.15: ks.insert(rng.randrange(len(ks) + 1), ('zz%d' % depth, []))
        if ks and rng.random() < 0.08: ks.append((ks[0][0], []))          # duplicate name: only the first is reachable
        return (e[1], ks)
    return sub(el, 0) if el is not None else (r, [])
