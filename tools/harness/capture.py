"""Capturing session shared by C07/C09: a real Manager drives real operation classes over a
Session subclass whose `send` records the message instead of writing to a transport.
Nothing in ncclient is patched; ncclient is imported lazily (after vlib.paths.use_repo())."""
import re

PROFILES = ['default', 'alu', 'ciena', 'csr', 'ericsson', 'h3c', 'hpcomware', 'huawei', 'huaweiyang',
            'iosxe', 'iosxr', 'junos', 'nexus', 'sros']

BASE = 'urn:ietf:params:xml:ns:netconf:base:1.0'

_cls = {}

def _classes():
    """Build the Session/Capabilities subclasses once ncclient can be imported."""
    if _cls: return _cls
    from ncclient.transport.session import Session
    from ncclient.capabilities import Capabilities

    class RecordingCaps(Capabilities):
        """Records the keys of the top-level `in` tests and `[]` lookups done by the code under test."""
        def __init__(self, uris):
            Capabilities.__init__(self, uris)
            self.log = []
            self._depth = 0
        def __contains__(self, key):
            if self._depth == 0: self.log.append(('assert', key))
            self._depth += 1
            try: return Capabilities.__contains__(self, key)
            finally: self._depth -= 1
        def __getitem__(self, key):
            if self._depth == 0: self.log.append(('lookup', key))
            self._depth += 1
            try: return Capabilities.__getitem__(self, key)
            finally: self._depth -= 1

    class CaptureSession(Session):
        """`send` records; `connected` is True; server capabilities are given at construction."""
        def __init__(self, server_uris, device_handler, no_caps_attr=False, auto_reply=False):
            Session.__init__(self, Capabilities([]))
            self._device_handler = device_handler
            self._server_capabilities = RecordingCaps(server_uris)
            self._connected = True
            self._id = '1'
            self.sent = []
            self.closed = 0
            self._no_caps_attr = no_caps_attr
            self._auto_reply = auto_reply
        @property
        def server_capabilities(self):
            if self._no_caps_attr:
                raise AttributeError('server_capabilities')
            return self._server_capabilities
        def send(self, message):
            from ncclient.transport.errors import TransportError
            if not self.connected:
                raise TransportError('Not connected to NETCONF server')
            self.sent.append(message)
            if self._auto_reply:
                m = re.search(r'message-id="([^"]*)"', message)
                if m:
                    mid = m.group(1)
                    raw = '<rpc-reply xmlns="%s" message-id="%s"><ok/></rpc-reply>' % (BASE, mid)
                    for l in list(self._listeners):
                        l.callback(('{%s}rpc-reply' % BASE, {'message-id': mid}), raw)
        def close(self):
            self.closed += 1
            self._connected = False
        def run(self):            # never started
            pass
        def registered(self):
            """message-ids currently registered with the RPCReplyListener of this session"""
            from ncclient.operations.rpc import RPCReplyListener
            l = self.get_listener_instance(RPCReplyListener)
            return 0 if l is None else len(l._id2rpc)
    _cls.update(RecordingCaps=RecordingCaps, CaptureSession=CaptureSession)
    return _cls

def make_manager(profile='default', server_uris=(), no_caps_attr=False, async_mode=True, auto_reply=False):
    """A real Manager with the profile's real device handler on a CaptureSession."""
    from ncclient import manager
    dh = manager.make_device_handler({'name': profile})
    sess = _classes()['CaptureSession'](list(server_uris), dh, no_caps_attr=no_caps_attr, auto_reply=auto_reply)
    m = manager.Manager(sess, dh, timeout=2)
    if async_mode:
        m.async_mode = True
    return m, sess

def exc_name(e):
    """Canonical name of an exception raised by a Manager call."""
    return type(e).__name__

def call(m, sess, method, args=(), kwargs=None):
    """Perform one Manager call; returns dict(exc, sent, asserts, lookups, registered_delta)."""
    kwargs = kwargs or {}
    caps = sess._server_capabilities
    n0, l0, r0 = len(sess.sent), len(caps.log), sess.registered()
    exc = None; ret = None
    try:
        ret = getattr(m, method)(*args, **kwargs)
    except Exception as e:          # noqa: the class is the observable
        exc = exc_name(e)
    return dict(exc=exc, sent=sess.sent[n0:], log=caps.log[l0:], registered=sess.registered() - r0,
                msgid=getattr(ret, '_id', None))


# ---------------- independent reader (expat via xml.etree; never lxml) ----------------
def _split(tag):
    if tag.startswith('{'):
        ns, local = tag[1:].split('}', 1)
        return ns, local
    return '', tag

def _canon_children(items):
    out = []
    for it in items:
        if it[0] == 'T':
            if it[1] == '': continue
            if out and out[-1][0] == 'T': out[-1] = ['T', out[-1][1] + it[1]]
            else: out.append(['T', it[1]])
        else:
            out.append(it)
    return out

def et_tree(e):
    """canonical tree of an xml.etree element: ['E', ns, local, sorted [[ans, alocal, value]], children] | ['T', text]"""
    ns, local = _split(e.tag)
    attrs = sorted([list(_split(k)) + [v] for k, v in e.attrib.items()])
    kids = [['T', e.text or '']]
    for c in e:
        kids.append(et_tree(c))
        kids.append(['T', c.tail or ''])
    return ['E', ns, local, attrs, _canon_children(kids)]

def read_independent(xml_text):
    """parse a document (str) with the independent reader; raises on ill-formed input"""
    import xml.etree.ElementTree as ET
    return et_tree(ET.fromstring(xml_text.encode('utf-8')))

def model_tree(v):
    """canonical tree of a model value (see coq/Glue/C07_glue.v)"""
    if v[0] == 1: return ['T', v[1].decode('utf-8')]
    attrs = sorted([[a[0].decode('utf-8'), a[1].decode('utf-8'), a[2].decode('utf-8')] for a in v[3]])
    return ['E', v[1].decode('utf-8'), v[2].decode('utf-8'), attrs, _canon_children([model_tree(c) for c in v[4]])]

def enc_tree(t):
    """canonical tree -> model value"""
    if t[0] == 'T': return [1, t[1].encode('utf-8')]
    return [0, t[1].encode('utf-8'), t[2].encode('utf-8'),
            [[a[0].encode('utf-8'), a[1].encode('utf-8'), a[2].encode('utf-8')] for a in t[3]], [enc_tree(c) for c in t[4]]]
