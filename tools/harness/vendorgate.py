"""C09, vendor part: capability gating of the operation classes under ncclient/operations/third_party
(other than the Junos / SR OS Commit, which props/c09.py already drives).
Model: coq/Model/VendorGating.v (runner fn 3); spec: coq/Spec/VendorGatingSpec.v; theorems C09_vendor_* in coq/Props/C09.v.
A case is a c09 case whose call is ['v:<profile>:<method>', {argument catalogue ids}]: one real Manager call made with the
vendor's device profile on the capturing session.  props/c09.py delegates `build` for such calls to this module and appends
`gen_cases` to its own; comparison with the model and the property oracle are c09's (needs / wellformed computed HERE,
independently of the model, from the documented dependency: a datastore argument that is a URL needs :url)."""
import itertools

def c09():
    import importlib
    return importlib.import_module('props.c09')

def _ele(s):
    from lxml import etree
    return etree.fromstring(s)

# plain classes: (profile, method) -> index of VendorGating.plainclass (constructor order) and (kwargs, exception) variants
H3C_TOP = '<top xmlns="http://www.h3c.com/netconf/action:1.0"><a/></top>'
PLAIN = {
    ('junos', 'command'): (0, [(dict(command='show version', format='text'), None), (dict(command='bad\x00'), 'ValueError')]),
    ('junos', 'get_configuration'): (1, [(dict(format='xml', filter=('ele', '<configuration><system/></configuration>')), None),
                                         (dict(filter='<configuration/>'), 'TypeError')]),
    ('junos', 'load_configuration'): (2, [(dict(format='text', config='system { }'), None), (dict(format='bogus', config='x'), 'OperationError'),
                                          (dict(config=('ele', '<configuration><a/></configuration>')), None)]),
    ('junos', 'compare_configuration'): (3, [(dict(rollback=1), None), (dict(rollback='a\x00'), 'ValueError')]),
    ('junos', 'rpc'): (4, [(dict(rpc='<get-software-information/>'), None), (dict(rpc='<a'), 'XMLSyntaxError')]),
    ('junos', 'reboot'): (5, [(dict(), None)]),
    ('junos', 'halt'): (6, [(dict(), None)]),
    ('junos', 'rollback'): (7, [(dict(rollback=2), None)]),
    ('sros', 'md_cli_raw_command'): (8, [(dict(command='show version'), None), (dict(command='bad\x00'), 'ValueError')]),
    ('alu', 'show_cli'): (9, [(dict(command='show version'), None), (dict(command='bad\x00'), 'ValueError')]),
    ('h3c', 'cli'): (11, [(dict(command='<Execution>display version</Execution>'), None), (dict(command='<a'), 'XMLSyntaxError')]),
    ('h3c', 'action'): (12, [(dict(action=H3C_TOP), None), (dict(action='<a'), 'XMLSyntaxError')]),
    ('h3c', 'save'): (13, [(dict(file='a.cfg'), None), (dict(file='bad\x00'), 'ValueError')]),
    ('h3c', 'load'): (14, [(dict(file='a.cfg'), None)]),
    ('h3c', 'rollback'): (15, [(dict(file='a.cfg'), None)]),
    ('hpcomware', 'cli_display'): (16, [(dict(cmds=['display version', 'display vlan']), None), (dict(cmds='bad\x00'), 'ValueError')]),
    ('hpcomware', 'cli_config'): (17, [(dict(cmds=['vlan 1']), None)]),
    ('hpcomware', 'action'): (18, [(dict(action=H3C_TOP), None), (dict(action='<a'), 'XMLSyntaxError')]),
    ('hpcomware', 'save'): (19, [(dict(filename='f'), None)]),
    ('hpcomware', 'rollback'): (20, [(dict(filename='f'), None), (dict(filename='bad\x00'), 'ValueError')]),
    ('huawei', 'cli'): (21, [(dict(command='<cmd><id>1</id><cmdline>display version</cmdline></cmd>'), None), (dict(command='<a'), 'XMLSyntaxError')]),
    ('huawei', 'action'): (22, [(dict(action='<ethernet xmlns="http://www.huawei.com/netconf/vrp"><a/></ethernet>'), None)]),
    ('iosxe', 'save_config'): (23, [(dict(), None)]),
    ('nexus', 'exec_command'): (24, [(dict(cmds=['show version', 'a<b']), None), (dict(cmds=['bad\x00']), 'ValueError')]),
}
PLAIN_GET_BULK = 10

# alu load_configuration(config=): id -> python value; verdict per format
ALU_CFG = {'ele': ('ele', '<configure xmlns="urn:alu"><system/></configure>'), 'str': 'configure <x>', 'str-ctl': 'bad\x00'}
ALU_CFG_VERDICT = {('xml', 'ele'): None, ('xml', 'str'): 'TypeError', ('xml', 'str-ctl'): 'TypeError',
                   ('cli', 'ele'): 'TypeError', ('cli', 'str'): None, ('cli', 'str-ctl'): 'ValueError'}
ALU_DOP = {'nodop': (None, None), 'merge': ('merge', None), 'free': ('get', None), 'dop-ctl': ('bad\x00', 'ValueError'), 'dop-int': (5, 'TypeError')}
# alu get_configuration: id -> (kwargs, exception)
ALU_GET = {'plain': (dict(), None), 'xml-ele': (dict(content='xml', filter=('ele', '<configure xmlns="urn:alu"><system/></configure>')), None),
           'xml-str': (dict(content='xml', filter='<configure xmlns="urn:alu"/>'), None), 'xml-syntax': (dict(content='xml', filter='<a'), 'XMLSyntaxError'),
           'cli-items': (dict(content='cli', filter=['port 1/1/11', 'system'], detail=True), None),
           'cli-ctl': (dict(content='cli', filter=['bad\x00']), 'ValueError'), 'other': (dict(content='json', filter=['system']), None)}

def _py(v):
    if isinstance(v, tuple) and len(v) == 2 and v[0] == 'ele': return _ele(v[1])
    return v

def build(spec):
    """['v:<profile>:<method>', {…}] -> dict(method, kwargs, model, needs, wf, wd, fn) (see props/c09.build)"""
    C = c09()
    op, a = spec
    _, prof, meth = op.split(':')
    if (prof, meth) == ('alu', 'load_configuration'):
        fmt = a['format']; cfg = a['config']; dop, dv = ALU_DOP[a['dop']]
        kw = dict(format=fmt, target=C.DS[a['target']][0], default_operation=dop, config=None if cfg is None else _py(ALU_CFG[cfg]))
        builds_target = cfg is not None and fmt in ('xml', 'cli')
        cv = ALU_CFG_VERDICT[(fmt, cfg)] if builds_target else None
        model = [0, fmt.encode(), C.enc_ds(a['target']), [] if cfg is None else [C.optexn(cv)], C.optexn(dv)]
        needs = C.ds_need(a['target']) if builds_target else []
        wf = dv is None and (not builds_target or (C.ds_ok(a['target']) and cv is None))
    elif (prof, meth) == ('alu', 'get_configuration'):
        kw0, ex = ALU_GET[a['variant']]
        kw = {k: _py(v) for k, v in kw0.items()}
        model = [1, C.optexn(ex)]; needs = []; wf = ex is None
    elif (prof, meth) == ('h3c', 'get_bulk_config'):
        f, fv = C.FILTER[a['filter']]
        kw = dict(source=C.DS[a['source']][0], filter=f)
        model = [2, C.enc_ds(a['source']), C.optexn(fv)]
        needs = C.ds_need(a['source']); wf = C.ds_ok(a['source']) and fv is None
    elif (prof, meth) == ('h3c', 'get_bulk'):
        f, fv = C.FILTER[a['filter']]
        kw = dict(filter=f); model = [3, PLAIN_GET_BULK, C.optexn(fv)]; needs = []; wf = fv is None
    else:
        k, variants = PLAIN[(prof, meth)]
        kw0, ex = variants[a['variant']]
        kw = {n: _py(v) for n, v in kw0.items()}
        model = [3, k, C.optexn(ex)]; needs = []; wf = ex is None
    return dict(method=meth, kwargs=kw, model=model, needs=needs, wf=wf, wd=None, fn=3)

def core_calls():
    """the vendor calls with a dependency, every combination of the arguments that decide it"""
    c = []
    for tgt in ('running', 'candidate', 'url-http', 'url-file'):
        for fmt, cfg in (('xml', 'ele'), ('cli', 'str'), ('json', 'str'), ('xml', None), ('cli', None)):
            c.append(['v:alu:load_configuration', dict(format=fmt, target=tgt, config=cfg, dop='merge' if tgt == 'running' else 'nodop')])
    for src in ('running', 'url-http', 'url-min'):
        for f in ('nofilter', 'subtree', 'xpath'):
            c.append(['v:h3c:get_bulk_config', dict(source=src, filter=f)])
    return c

def other_calls():
    """argument catalogue: locally refused arguments in front of / behind the check; every class without a dependency"""
    C = c09()
    c = []
    for tgt in C.DS:
        for fmt, cfg in (('xml', 'ele'), ('xml', 'str'), ('cli', 'str'), ('cli', 'ele'), ('cli', 'str-ctl'), ('', 'str'), ('xml', None)):
            for dop in ('nodop', 'dop-ctl') if tgt in C.DS_BAD else ('nodop', 'merge', 'free', 'dop-ctl', 'dop-int'):
                c.append(['v:alu:load_configuration', dict(format=fmt, target=tgt, config=cfg, dop=dop)])
    for v in ALU_GET: c.append(['v:alu:get_configuration', dict(variant=v)])
    for src in C.DS:
        for f in C.FILTER:
            if src in C.DS_GOOD or f in ('nofilter', 'badroot', 'xpath'):
                c.append(['v:h3c:get_bulk_config', dict(source=src, filter=f)])
    for f in C.FILTER: c.append(['v:h3c:get_bulk', dict(filter=f)])
    for (prof, meth), (k, variants) in PLAIN.items():
        for i in range(len(variants)): c.append(['v:%s:%s' % (prof, meth), dict(variant=i)])
    return c

def profile_of(call): return call[0].split(':')[1]

def gen_cases(rng, tier, sets):
    C = c09()
    cases = []
    core = core_calls(); other = other_calls()
    # every core vendor call x all 2^8 capability subsets x {form A, form B, mixed}
    for call in core:
        for uris in sets:
            cases.append(dict(profile=profile_of(call), uris=uris, call=call))
    # catalogue x :url present/absent (both forms), the other capabilities random; plus the empty and the full list
    url = 5
    for call in other:
        for on in (0, 1):
            for form in (C.A, C.B):
                idx = sorted(({url} if on else set()) | {i for i in range(8) if i != url and rng.random() < 0.5})
                uris = [form + C.ATOMS[i] for i in idx]; rng.shuffle(uris)
                cases.append(dict(profile=profile_of(call), uris=uris, call=call))
        cases.append(dict(profile=profile_of(call), uris=[], call=call))
        cases.append(dict(profile=profile_of(call), uris=[':url'], call=call))
    # look-alikes of :url
    odd = [['urn:ietf:params:foo:netconf:capability:url:1.0'], [C.A + 'url'], [C.A + 'url:1.0:x'], [C.A + 'Url:1.0'], ['url'],
           ['urn:ietf:params:netconf:url:1.0?scheme=file'], [C.A + 'url:1.0', C.A + 'url:1.0'], [C.B + 'url:1.0?scheme=http,ftp,file'], [':url:1.0']]
    for uris in odd:
        for call in core: cases.append(dict(profile=profile_of(call), uris=uris, call=call))
    # a session without server capabilities (`except AttributeError: pass` of RPC.__init__; _assert raises AttributeError)
    for call in core[::2] + other[::5]:
        cases.append(dict(profile=profile_of(call), uris=[], call=call, no_attr=True))
    # random lists
    n = 600 if tier == 'quick' else 20000
    pool = [f + a for f in (C.A, C.B) for a in C.ATOMS] + ['http://example.com/yang', C.A + 'xpath:1.0', ':url', 'urn:ietf:params:netconf:base:1.1']
    allc = core + other
    for _ in range(n):
        uris = [rng.choice(pool) for _ in range(rng.choice([0, 1, 2, 4, 6, 9]))]
        call = rng.choice(allc)
        cases.append(dict(profile=profile_of(call), uris=uris, call=call))
    return cases
