"""C02 under the scheduler: scenarios, schedule enumeration, trace validation against coq/Model/WriterSched.v
(`wstep`, through fn 6 of Glue/C02_glue.v) and the property's own oracle on the observables of each run
(a strict RFC 4742 / RFC 6242 receiver on the octets the transport accepted vs the messages in put order)."""
import re
from .wr_sched import Run, err_unsent

CHUNK_MAX = 4294967295
EOM = b']]>]]>'
_hdr = re.compile(rb'\n#([1-9][0-9]*)\n')

def describe(spec, decisions):
    return {'kind': 'wsched', 'base': spec['base'], 'spec': spec, 'decisions': list(decisions)}

def run_case(spec, decisions=None, seed=0, rng_after=True):
    return Run(spec, decisions=decisions, seed=seed, rng_after=rng_after).run()

def dfs_schedules(spec, bound, cap, rng=None, stats=None):
    """Enumeration of the schedules with at most `bound` departures from run-to-completion: complete when it ends before
    `cap` runs (recorded in `stats`); with `rng` the next schedule is drawn from the frontier at random, so that a cut
    enumeration is not biased towards late pre-emptions."""
    stack = [([], 0)]
    n = 0
    while stack and n < cap:
        prefix, pre = stack.pop(rng.randrange(len(stack)) if rng is not None else -1)
        sc = run_case(spec, decisions=list(prefix), rng_after=False)
        n += 1
        yield sc
        ch = sc.S.choices
        for j in range(len(prefix), len(ch)):
            i, nopts, default = ch[j]
            if pre + 1 > bound:
                break
            for alt in range(nopts):
                if alt != i:
                    stack.append(([c[0] for c in ch[:j]] + [alt], pre + 1))
    if stats is not None:
        stats.append(dict(runs=n, complete=not stack))

# ---------------------------------------------------------------- model side
def model_call(sc):
    spec = sc.spec
    return [6, spec['base'], 1 if spec.get('pending') else 0, [[m.encode() for m in p] for p in spec['progs']], sc.labels()]

WPC = {'q.empty': 0, 'ready': 1, 'q.get': 2, 'pend.get': 3, 'pend.set': 4, 'base.get': 5, 'write': 6, 'select': 7, 'disp': 8, 'acq': 9, 'close': 9}

def put_log(sc):
    """(thread, text) of every queue put, in the order in which the puts took place"""
    return [(int(e[0][1:]), e[2]) for e in sc.effects() if e[1] == 'q.put']

def compare(sc, mo):
    """None, or a description of the first difference between what the model accepts/predicts and the run"""
    labs = sc.labels()
    if mo[0] == 0:
        i = mo[1]
        def short(l):
            return [x if not isinstance(x, bytes) else x[:12] for x in l] if isinstance(l, list) else l
        return 'label %d %r is not accepted by WriterSched.wstep after %r' % (i, short(labs[i]) if i < len(labs) else None, [short(l) for l in labs[max(0, i - 5):i]])
    _, wire, puts, q, wpc, err, conn, ndone, base, pend, subs = mo
    fin = sc.final
    if wire != sc.wire:
        return 'octets accepted: model %r, implementation %r' % (wire[-40:], sc.wire[-40:])
    mp = [(p[0], p[1].decode()) for p in puts]
    if mp != put_log(sc):
        return 'put order: model %r, implementation %r' % (mp, put_log(sc))
    tags = [0 if t == 1 else 1 for t in fin['tags']]
    if [p[2] for p in puts] != tags:
        return '_base at the puts: model %r, implementation %r' % ([p[2] for p in puts], tags)
    if [x[1].decode() for x in q] != fin['q']:
        return 'queue left: model %r, implementation %r' % ([x[1] for x in q], fin['q'])
    if bool(conn) != bool(fin['connected']):
        return 'connected: model %r, implementation %r' % (conn, fin['connected'])
    if base != (1 if fin['base'] == 2 else 0) or bool(pend) != fin['pend']:
        return '_base/_hello_pending: model %r, implementation %r' % ((base, pend), (fin['base'], fin['pend']))
    ie = [list(err_unsent(e, sc.writes)) for e in sc.errors]
    if (err == []) != (ie == []) or (err != [] and [err[0], err[1]] != ie[0]):
        return 'error dispatched: model %r, implementation %r' % (err, ie)
    at = 10 if fin['worker_done'] else WPC.get(sc.blocked_at.get('W'), -1)
    if at != wpc and sc.result != 'step-limit':
        return 'worker stands at: model pc %r, implementation %r' % (wpc, sc.blocked_at.get('W'))
    return None

# ---------------------------------------------------------------- the property on the observables (independent of the model)
def take10(wire, pos):
    k = wire.find(EOM, pos)
    if k < 0: return None
    return wire[pos:k], k + len(EOM)

def take11(wire, pos):
    """one Chunked-Message (RFC 6242 4.2) starting at pos, or None when the octets from pos on are not one"""
    chunks = []
    while True:
        if wire[pos:pos + 4] == b'\n##\n':
            if not chunks: return None
            return b''.join(chunks), pos + 4
        m = _hdr.match(wire, pos)
        if not m: return None
        n = int(m.group(1))
        if n > CHUNK_MAX or m.end() + n > len(wire): return None
        chunks.append(wire[m.end():m.end() + n]); pos = m.end() + n

def receive(wire, framings):
    """a strict receiver that is told the framing of each successive message: (messages, position after the last whole frame)"""
    msgs, pos = [], 0
    for f in framings:
        if pos >= len(wire): break
        r = (take11 if f == 1 else take10)(wire, pos)
        if r is None: break
        msgs.append(r[0]); pos = r[1]
    return msgs, pos

def oracle(sc):
    """Returns None or (what, expected, actual).  Clauses of C02 on one scheduled run."""
    spec = sc.spec
    effs = sc.effects()
    if sc.result == 'step-limit':
        return ('the run does not end (scheduler step limit)', 'termination', sc.blocked_at)
    puts = put_log(sc)
    tags = [0 if t == 1 else 1 for t in sc.final['tags']]
    if spec.get('pending') and tags: tags[0] = 0                 # the queued <hello> is never chunked
    texts = [m.encode() for _, m in puts]
    # (1) submission order of each thread, nothing invented
    for t, prog in enumerate(spec['progs']):
        mine = [m for tt, m in puts if tt == t]
        if mine != list(prog[:len(mine)]):
            return ('the puts of one thread are not its send calls in program order', list(prog), mine)
    # (2) what the transport accepted, read by a strict receiver
    got, pos = receive(sc.wire, tags)
    rest = sc.wire[pos:]
    if got != texts[:len(got)]:
        return ('strict receiver does not get the submitted messages in put order', [m.hex() for m in texts], [m.hex() for m in got])
    refusals = [i for i, (d, a) in enumerate(sc.writes) if a[0] != 'a']
    if not sc.errors:
        if refusals:
            return ('transport refused a write but no error was dispatched', 'an error', [])
        if rest:
            return ('accepted octets that are no frame of a put message in the framing in force at its put, although the worker is between messages', b'', rest[:60])
        if len(got) != len(texts) or sc.final['q']:
            return ('a message whose put completed was not written although the transport accepts', [m.hex() for m in texts], [m.hex() for m in got])
        if sc.blocked_at.get('W') != 'select':
            return ('the worker does not return to its select', 'select', sc.blocked_at.get('W'))
    else:
        # (3) failure: exactly one error, caused by a refusal, carrying the unsent rest; nothing written afterwards
        if not refusals:
            return ('session failed although the transport accepted every write', [], [type(e).__name__ for e in sc.errors])
        if len(sc.errors) != 1:
            return ('more than one error dispatched', 1, len(sc.errors))
        if refusals[0] != len(sc.writes) - 1:
            return ('a write call was made after the transport refused one', refusals[0] + 1, len(sc.writes))
        kind, unsent = err_unsent(sc.errors[0], sc.writes)
        last = tuple(sc.writes[-1][1])
        want_kind = 1 if last[0] == 'x' else (None if last == ('r', None) else 0)      # an answer that is no count: an error, the property does not say which
        if want_kind is not None and kind != want_kind:
            return ('wrong error for a refused write', ['SessionCloseError', 'the transport exception'][want_kind], type(sc.errors[0]).__name__)
        if kind == 0:
            if not unsent:
                return ('SessionCloseError does not carry the unsent octets', 'non-empty out buffer', unsent)
            k = len(got)
            if k >= len(texts):
                return ('failure although nothing was left to write', None, unsent[:40])
            g2, p2 = receive(rest + unsent, tags[k:k + 1])
            if g2 != texts[k:k + 1] or p2 != len(rest + unsent):
                return ('accepted octets + unsent rest of the error are not the frame of the next message', texts[k].hex(), (rest + unsent).hex())
        if sc.final['connected']:
            return ('session still reports connected after the failure', False, True)
    # (4) a frame is started only after a positive _send_ready() answer; a send is refused iff the session had been closed
    ready = False
    closed_at = None
    calls = {}
    for i, e in enumerate(effs):
        if e[0] == 'W' and e[1] == 'ready': ready = bool(e[2])
        elif e[0] == 'W' and e[1] == 'q.get':
            if not ready:
                return ('a frame was started without a positive _send_ready() answer', 'ready', 'not ready')
            ready = False
        elif e[0] == 'W' and e[1] == 'close': closed_at = i
        elif e[1] == 'call': calls[e[0]] = closed_at is not None
        elif e[1] == 'refused' and closed_at is None:
            return ('send() refused a message although the session was not closed', 'queued', 'TransportError')
        elif e[1] == 'q.put' and calls.get(e[0]):
            return ('send() called after the session failed queued the message instead of raising', 'TransportError', 'queued')
    return None

# ---------------------------------------------------------------- scenarios
A1, A2, B1, B2, C1 = ('<rpc message-id="a1"><get/></rpc>', '<rpc message-id="a2">naïve garçon</rpc>', '<rpc message-id="b1">\n#5\n日本</rpc>',
                      '<b2>]]> \n##\n</b2>', '<c1>\U0001F600</c1>')

def S(progs, base=1, **kw):
    d = dict(base=base, pending=0, progs=progs, readys=[], answers=[], setbase=None, ticks=0)
    d.update(kw)
    return d

def small_specs():
    """scenarios enumerated depth-first (every schedule within the pre-emption bound)"""
    return [
        S([[A1], [B1]]),                                                        # two submitters, whole writes
        S([[A1, A2], [B1]], answers=[['a', 7], ['a', 30]]),                     # puts while a frame is in flight
        S([[A1], [B1]], base=0, readys=[0, 1, 0], ticks=1),                     # not-ready windows
        S([[A1]], base=0, setbase=1, ticks=1),                                  # _base assigned while the worker runs
        S([[A1], [B2]], base=0, setbase=1, ticks=1),
        S([[A1, A2], [B1]], answers=[['a', 5], ['r', 0]]),                      # refused inside the first frame
        S([[A1], [B1], [C1]], answers=[['a', 9999], ['x']]),                    # the transport raises at the second frame
        S([[A2, A1], [B2]], base=0, answers=[['a', 3], ['a', 3], ['r', -1]]),   # negative count
        S([[A1, A2], [B2]], answers=[['a', 4], ['r', None]]),                   # a write call answered with None (no count) after a short write
        S([[A1], [B1], [C1]], base=0),                                          # three submitters
        S([[A1, A2]], pending=1),                                               # _hello_pending: first frame end-of-message
    ]

POOL = [A1, A2, B1, B2, C1, 'a', 'éb', '<x>' + 'q' * 300 + '</x>', '<rpc>]]></rpc>', 'x\n#3\nabc\n##\ny']
def gen_spec(rng):
    nthreads = rng.choice([1, 2, 2, 3, 3, 4])
    progs = [['%s<!--t%d.%d-->' % (rng.choice(POOL), t, i) for i in range(rng.choice([1, 1, 2, 3]))] for t in range(nthreads)]
    total = sum(len(p) for p in progs)
    answers = []
    style = rng.choice(['whole', 'short', 'short', 'tiny', 'fail', 'fail'])
    if style != 'whole':
        for _ in range(rng.randint(1, 6 * total)):
            answers.append(['a', rng.choice([1, 2, 3, 5, 8, 13, 40, 100000])] if style != 'tiny' else ['a', 1])
        if style == 'tiny': answers = answers[:40]
    if style == 'fail':
        answers = answers[:rng.randint(0, min(len(answers), 3 * total))]
        answers.append(rng.choice([['r', 0], ['r', -1], ['r', -7], ['r', None], ['x']]))
    readys = [int(rng.random() < 0.5) for _ in range(rng.choice([0, 0, 1, 3, 5]))]
    base = rng.choice([0, 1])
    return dict(base=base, pending=0, progs=progs, readys=readys, answers=answers,
                setbase=(1 - base) if rng.random() < 0.25 else None, ticks=rng.choice([0, 0, 1, 2]))

def normalise(spec):
    spec = dict(spec)
    spec['answers'] = [list(a) for a in spec.get('answers', [])]
    return spec

# ---------------------------------------------------------------- driver used by tools/props/c02.py
def check(ctx, n_random, dfs_bound, dfs_cap, corpus=(), sig_of=None):
    from . import wr_sched
    runs = []
    try:
        for doc in corpus:
            runs.append(run_case(normalise(doc['spec']), decisions=list(doc['decisions']), rng_after=False))
        stats = []
        for spec in small_specs():
            for sc in dfs_schedules(spec, 1, dfs_cap, stats=stats):           # every single pre-emption
                runs.append(sc)
            for sc in dfs_schedules(spec, dfs_bound, dfs_cap, rng=ctx.rng, stats=stats):
                runs.append(sc)
        ctx.extra['wsched_enumeration'] = stats
        for i in range(n_random):
            runs.append(run_case(gen_spec(ctx.rng), seed=ctx.rng.randrange(1 << 30)))
    finally:
        wr_sched.uninstall()
    outs = ctx.model.batch([model_call(sc) for sc in runs]) if ctx.model else [None] * len(runs)
    ndis = nfail = 0
    for sc, mo in zip(runs, outs):
        case = describe(sc.spec, sc.decisions_used)
        ctx.count(case, nontrivial=True, key=['wsched', sc.spec, sc.decisions_used])
        ctx.traces += 1
        puts = put_log(sc)
        ctx.hist('wsched_end', sc.result + ('/failed' if sc.errors else ''))
        ctx.hist('wsched_threads', len(sc.spec['progs']))
        ctx.hist('wsched_put_interleaved', sum(1 for a, b in zip(puts, puts[1:]) if a[0] != b[0]))
        first_write = next((i for i, e in enumerate(sc.effects()) if e[1] == 'write'), None)
        ctx.hist('wsched_puts_after_first_write', first_write is not None and any(e[1] == 'q.put' for e in sc.effects()[first_write:]))
        ctx.hist('wsched_labels', len(sc.labels()) // 20 * 20)
        if ctx.evaluations % 397 == 1:
            ctx.sample({'case': case, 'puts': puts, 'end': sc.result, 'labels': len(sc.labels()), 'wire_octets': len(sc.wire)})
        if mo is not None and ndis < 8:
            d = compare(sc, mo)
            if d:
                ndis += 1
                ctx.disagree(case, 'WriterSched accepts the trace and predicts the observables', d,
                             'trace validation against Model/WriterSched.v', theorem='C02_sched_*')
        if nfail < 4:
            f = oracle(sc)
            if f:
                nfail += 1
                ctx.fail(case, f[0], sig=None, expected=f[1], actual=f[2])
    return len(runs)

def search(ctx, seeds, n=400):
    from . import wr_sched
    def hit(sc):
        f = oracle(sc)
        return None if not f else dict(case=describe(sc.spec, sc.decisions_used), what=f[0], sig=None, expected=f[1], actual=f[2])
    try:
        for c in seeds:
            if c.get('kind') != 'wsched': continue
            spec = normalise(c['spec'])
            for extra in range(30):
                r = hit(run_case(spec, decisions=list(c['decisions']) if extra == 0 else None, seed=extra, rng_after=(extra != 0)))
                if r: return r
        for spec in small_specs():
            for sc in dfs_schedules(spec, 3, 800):
                r = hit(sc)
                if r: return r
        for i in range(n):
            r = hit(run_case(gen_spec(ctx.rng), seed=i))
            if r: return r
    finally:
        wr_sched.uninstall()
    return None

def replay(doc):
    from . import wr_sched
    c = doc['case']
    spec = normalise(c['spec'])
    try:
        sc = run_case(spec, decisions=list(c['decisions']), rng_after=False)
    finally:
        wr_sched.uninstall()
    f = oracle(sc)
    print('case      :', {'spec': spec, 'decisions': c['decisions']})
    print('schedule  :', ' '.join('%s:%s' % (e[0], e[1]) for e in sc.effects() if e[1] not in ('call', 'returned'))[:1200])
    print('put order :', put_log(sc))
    print('accepted  :', sc.wire[:300])
    print('end       : %s, worker at %r, errors %r' % (sc.result, sc.blocked_at.get('W'), [type(e).__name__ for e in sc.errors]))
    if f:
        print('FAILS     :', f[0]); print('expected  :', f[1]); print('actual    :', f[2])
    else:
        print('holds')
    return f is None

if __name__ == '__main__':
    # oracle-only run of the scheduled scenarios (no model): python -m harness.wr_check [bound] [cap] [n_random]
    import sys, random, json
    from vlib import paths
    paths.use_repo()
    from . import wr_sched
    bound, cap, nrand = (int(x) for x in (sys.argv[1:4] + ['2', '300', '300'][len(sys.argv) - 1:]))
    rng = random.Random(0)
    n = 0
    def runs():
        for spec in small_specs():
            yield from dfs_schedules(spec, bound, cap, rng=rng)
        for i in range(nrand):
            yield run_case(gen_spec(rng), seed=i)
    try:
        for sc in runs():
            n += 1
            f = oracle(sc)
            if f:
                print('after %d runs FAILS: %s' % (n, f[0])); print(json.dumps(describe(sc.spec, sc.decisions_used))[:400]); break
        else:
            print('%d runs, oracle holds on all' % n)
    finally:
        wr_sched.uninstall()
