"""Real TLS / SSH (and Unix) peers for the session level of C01 (and the outbound direction, C02).

A case is one connection: the harness plays a scripted NETCONF server behind the real transport
  tls  : `ssl` server on 127.0.0.1 (CA / certificates made by the openssl CLI, harness/c12_peers.tls_material),
         client = the real TLSSession.connect
  ssh  : in-process `paramiko.ServerInterface` over one end of a socketpair (harness/c12_peers.ssh_hostkey),
         client = the real SSHSession.connect(sock=other end)
  unix : one end of a socketpair, client = UnixSocketSession with `_socket` preset and the real `_post_connect`
does a real hello exchange (server hello advertising base:1.0, plus base:1.1 for a 1.1 case), then writes the octet stream
of the case to the transport piece by piece.  After each piece one action:
  'n' nothing (pieces may coalesce on the way), 'p' a short pause, 's' settle: wait (bounded) until the client has read
  every octet written so far, 'h' hold: settle, wait a grace period, note how many messages the listener has - the piece
  ended one octet before the end of a terminator - then go on.
No hook in the source: the session class is subclassed (`rec_class`) and `_transport_read` / `_dispatch_message` are wrapped
to record the octets of every read, the parser state found at the entry of the following read, and the read during which
each message was dispatched.  A registered SessionListener records (root, raw) and errback calls.
Everything written lives under <framework>/run/c01/p<pid>/ (removed at exit)."""
import os, socket, ssl, threading, time, shutil, atexit

from vlib import paths
from harness import c12_peers as P12
from harness import framing as F

RUNDIR = os.path.join(paths.RUN, 'c01', 'p%d' % os.getpid())
atexit.register(lambda: shutil.rmtree(RUNDIR, ignore_errors=True))

B10, B11 = 'urn:ietf:params:netconf:base:1.0', 'urn:ietf:params:netconf:base:1.1'
SETTLE_BOUND = 2.0          # s: a written piece not read by the client within this time = stall
DELIVER_BOUND = 5.0         # s: all messages delivered after the last octet was written
HOLD_GRACE = 0.03           # s: time given to a (wrong) early delivery to show itself


def now():
    return time.monotonic()


def server_hello(base):
    caps = [B10] + ([B11] if base == 11 else [])
    return ('<hello xmlns="urn:ietf:params:xml:ns:netconf:base:1.0"><capabilities>%s</capabilities>'
            '<session-id>4</session-id></hello>' % ''.join('<capability>%s</capability>' % c for c in caps)).encode() + F.DELIM10


_files = [None]
def tls_files():
    if _files[0] is None:
        os.makedirs(RUNDIR, exist_ok=True)
        _files[0] = P12.tls_material(RUNDIR)
    return _files[0]


# ------------------------------------------------------------------ server side
class _Srv(object):
    """common part: after the transport is up, send the server hello, read the client hello (kept in
    `client_hello`), then hand the connection to the thread that runs the script (`ready`)."""
    def __init__(self, base):
        self.base, self.conn, self.err, self.client_hello = base, None, None, None
        self.ready = threading.Event()
        self.rbuf = b''

    def _greet(self, conn):
        conn.sendall(server_hello(OVERRIDE.get('hello_base', self.base)))      # OVERRIDE: the server offers 1.1, the client withdrew it
        self.client_hello = self.read_frames(1, conn=conn, term=F.DELIM10)
        self.conn = conn

    def read_frames(self, n, bound=5.0, conn=None, term=None):
        """octets the client wrote, up to and including the n-th terminator (what follows stays buffered)"""
        conn = conn or self.conn
        term = term or (F.END11 if self.base == 11 else F.DELIM10)
        t = now() + bound
        conn.settimeout(0.05)
        def cut():
            p, k = 0, 0
            while k < n:
                i = self.rbuf.find(term, p)
                if i < 0: return None
                p = i + len(term); k += 1
            return p
        while cut() is None and now() < t:
            try:
                d = conn.recv(65536)
            except (socket.timeout, ssl.SSLWantReadError):
                continue
            except Exception:
                break
            if not d: break
            self.rbuf += d
        p = cut()
        if p is None:
            out, self.rbuf = self.rbuf, b''
        else:
            out, self.rbuf = self.rbuf[:p], self.rbuf[p:]
        conn.settimeout(30)
        return out

    def read_until(self, done, bound=5.0, quiet=0.05):
        """octets the client wrote until done(octets) holds (or the bound is over), then until nothing arrives for `quiet` s"""
        conn = self.conn
        t = now() + bound
        conn.settimeout(0.05)
        last = now()
        ok = done(self.rbuf)
        while now() < t and not (ok and now() - last >= quiet):
            try:
                d = conn.recv(65536)
            except (socket.timeout, ssl.SSLWantReadError):
                continue
            except Exception:
                break
            if not d: break
            self.rbuf += d; last = now()
            if not ok: ok = done(self.rbuf)
        out, self.rbuf = self.rbuf, b''
        conn.settimeout(30)
        return out

    def read_rest(self, want_len, bound=10.0, quiet=1.0):
        """everything the client wrote that is still to be had: until end of stream (the client closed, or the transport
        reports an error), or until `want_len` octets are there and nothing more arrives for 50 ms, or until nothing
        arrives for `quiet` s (longer than the client's socket timeout: a send that is still waiting has given up by then),
        or for `bound` s.  Returns (octets, how the reading ended)."""
        conn = self.conn
        t = now() + bound
        conn.settimeout(0.05)
        last = now()
        how = 'bound'
        while now() < t:
            if now() - last >= (0.05 if len(self.rbuf) >= want_len else quiet):
                how = 'quiet'; break
            try:
                d = conn.recv(1 << 18)
            except (socket.timeout, ssl.SSLWantReadError):
                continue
            except Exception as e:
                how = 'error:' + type(e).__name__; break
            if not d:
                how = 'eof'; break
            self.rbuf += d; last = now()
        out, self.rbuf = self.rbuf, b''
        try: conn.settimeout(30)
        except Exception: pass
        return out, how

    def send(self, data):
        try:
            self.conn.sendall(data); return True
        except Exception as e:
            self.err = 'send: ' + type(e).__name__; return False


class TlsSrv(_Srv):
    kind = 'tls'
    def __init__(self, base, rcvbuf=None):
        _Srv.__init__(self, base)
        files = tls_files()
        self.ctx = ssl.SSLContext(ssl.PROTOCOL_TLS_SERVER)
        self.ctx.load_cert_chain(files['srv'])
        self.ctx.verify_mode = ssl.CERT_NONE
        self.ls = socket.socket(socket.AF_INET, socket.SOCK_STREAM)
        self.ls.setsockopt(socket.SOL_SOCKET, socket.SO_REUSEADDR, 1)
        if rcvbuf:                              # a peer with a fixed, small receive buffer (inherited by the accepted socket)
            self.ls.setsockopt(socket.SOL_SOCKET, socket.SO_RCVBUF, rcvbuf)
        self.ls.bind(('127.0.0.1', 0)); self.ls.listen(1)
        self.port = self.ls.getsockname()[1]
        self.th = threading.Thread(target=self._acc, daemon=True, name='c01-tls-acceptor'); self.th.start()
    def _acc(self):
        c = None
        try:
            self.ls.settimeout(20)
            c, _ = self.ls.accept()
            c.settimeout(30)
            c.setsockopt(socket.IPPROTO_TCP, socket.TCP_NODELAY, 1)
            sc = self.ctx.wrap_socket(c, server_side=True); c = sc
            self._greet(sc)
        except Exception as e:
            self.err = 'accept: %s: %s' % (type(e).__name__, e)
            if c is not None:
                try: c.close()
                except Exception: pass
        finally:
            self.ready.set()
    def connect(self, sess, timeout=10):
        f = tls_files()
        sess.connect(host='127.0.0.1', port=self.port, certfile=f['cli'], ca_certs=f['ca'], protocol=ssl.PROTOCOL_TLS_CLIENT, timeout=timeout)
    def stop(self):
        for x in (self.conn, self.ls):
            if x is None: continue
            try: x.close()
            except Exception: pass
        self.th.join(5)


class SshSrv(_Srv):
    kind = 'ssh'
    def __init__(self, base):
        import paramiko
        _Srv.__init__(self, base)
        outer = self
        class SI(paramiko.ServerInterface):
            def check_auth_password(self, username, password):
                return paramiko.AUTH_SUCCESSFUL if (username, password) == ('u', 'pw') else paramiko.AUTH_FAILED
            def get_allowed_auths(self, username): return 'password'
            def check_channel_request(self, kind, chanid):
                return paramiko.OPEN_SUCCEEDED if kind == 'session' else paramiko.OPEN_FAILED_ADMINISTRATIVELY_PROHIBITED
            def check_channel_subsystem_request(self, channel, name):
                if name == 'netconf':
                    outer.chan_ready.set(); return True
                return False
        self.chan_ready = threading.Event()
        self.a, self.b = socket.socketpair()
        self.t = paramiko.Transport(self.b, **SSH_OPTS)      # e.g. a small window / packet size: short writes on the client
        self.t.add_server_key(P12.ssh_hostkey())
        self.si = SI()
        self.th = threading.Thread(target=self._serve, daemon=True, name='c01-ssh-acceptor'); self.th.start()
    def _serve(self):
        try:
            self.t.start_server(server=self.si)
            chan = self.t.accept(10)
            if chan is None or not self.chan_ready.wait(5):
                self.err = 'accept: no netconf channel'; return
            chan.settimeout(30)
            self._greet(chan)
        except Exception as e:
            self.err = 'accept: %s: %s' % (type(e).__name__, e)
        finally:
            self.ready.set()
    def connect(self, sess, timeout=10):
        sess.connect(host='c01', sock=self.a, hostkey_verify=False, username='u', password='pw', allow_agent=False,
                     look_for_keys=False, timeout=timeout)
    def stop(self):
        try: self.t.close()
        except Exception: pass
        self.th.join(5)
        self.t.join(5)
        for x in (self.a, self.b):
            try: x.close()
            except Exception: pass


_useq = [0]
class UnixSrv(_Srv):
    kind = 'unix'
    def __init__(self, base, listen=False):
        """listen=False: a socketpair, the client end is handed to the session (no timeout on it).
        listen=True: a listening socket bound to a path; the client is the real UnixSocketSession.connect(path, timeout),
        which leaves its timeout on the socket (as manager.connect_uds(timeout=...) does)."""
        _Srv.__init__(self, base)
        self.ls = self.path = self.a = self.b = None
        if listen:
            os.makedirs(RUNDIR, exist_ok=True)
            _useq[0] += 1
            self.path = os.path.join(RUNDIR, 'u%d.sock' % _useq[0])
            self.ls = socket.socket(socket.AF_UNIX, socket.SOCK_STREAM)
            self.ls.bind(self.path); self.ls.listen(1)
        else:
            self.a, self.b = socket.socketpair()
        self.th = threading.Thread(target=self._serve, daemon=True, name='c01-unix-acceptor'); self.th.start()
    def _serve(self):
        try:
            if self.ls is not None:
                self.ls.settimeout(20)
                self.b, _ = self.ls.accept()
            self.b.settimeout(30)
            self._greet(self.b)
        except Exception as e:
            self.err = 'accept: %s: %s' % (type(e).__name__, e)
        finally:
            self.ready.set()
    def connect(self, sess, timeout=10):
        if self.ls is not None:
            sess.connect(path=self.path, timeout=timeout)
            return
        sess._socket = self.a
        sess._connected = True
        sess._post_connect(timeout)
    def stop(self):
        for x in (self.a, self.b, self.ls):
            if x is None: continue
            try: x.close()
            except Exception: pass
        if self.path:
            try: os.unlink(self.path)
            except OSError: pass
        self.th.join(5)


SRV = {'tls': TlsSrv, 'ssh': SshSrv, 'unix': UnixSrv}


# ------------------------------------------------------------------ client side: recording subclass
_classes = {}
def rec_class(kind):
    if kind in _classes: return _classes[kind]
    import ncclient.transport as T
    base = {'unix': T.UnixSocketSession, 'tls': T.TLSSession, 'ssh': T.SSHSession}[kind]

    class Rec(base):
        def __init__(self, dh):
            base.__init__(self, dh)
            self.c01_armed = False
            self.c01_reads = []       # octets of every non-empty read (after arm())
            self.c01_states = []      # parser state after read i, seen by the session thread when it enters read i+1
            self.c01_disp = []        # (index of the read in progress, raw) for every _dispatch_message
            self.c01_total = 0
            self.c01_eof = False
            self.c01_writes = []      # (head..tail of the data offered, its length, count returned | 'raise:<class>') for every _transport_write
        def c01_state(self):
            b10 = self._base != 2
            third = self.parser._parsing_pos10 if b10 else b''.join(
                x if isinstance(x, (bytes, bytearray)) else str(x).encode('utf-8', 'surrogatepass') for x in self._message_list)
            return [self._buffer.getvalue(), third]
        def _transport_read(self):
            if self.c01_armed and len(self.c01_states) < len(self.c01_reads):
                self.c01_states.append(self.c01_state())
            d = base._transport_read(self)
            if self.c01_armed:
                if d:
                    self.c01_reads.append(bytes(d)); self.c01_total += len(d)
                else:
                    self.c01_eof = True
            return d
        def _dispatch_message(self, raw):
            if self.c01_armed:
                self.c01_disp.append((len(self.c01_reads) - 1, raw))
            return base._dispatch_message(self, raw)
        def _transport_write(self, data):
            head = bytes(data) if len(data) <= 64 else bytes(data[:32]) + b'..' + bytes(data[-30:])
            try:
                n = base._transport_write(self, data)
            except BaseException as e:
                if self.c01_armed:
                    self.c01_writes.append((head, len(data), 'raise:' + type(e).__name__))
                raise
            if self.c01_armed:
                self.c01_writes.append((head, len(data), n))
            return n
    Rec.__name__ = 'Rec' + base.__name__
    _classes[kind] = Rec
    return Rec


def _root_canon(root):
    try:
        tag, attrs = root
        return [str(tag), sorted([str(k), str(v)] for k, v in dict(attrs).items())]
    except Exception:
        return ['?', repr(root)[:80]]


class Conn(object):
    """one real session + its scripted server; always close()"""
    def __init__(self, kind, base, device_params=None, timeout=10, srv_kw=None):
        from ncclient.transport.session import SessionListener
        self.kind, self.base = kind, base
        self.srv = SRV[kind](base, **(srv_kw or {}))
        if device_params:                       # e.g. {'name': 'junos', 'use_filter': True}: the vendor parser SSHSession.connect installs
            from ncclient.manager import make_device_handler
            dh = make_device_handler(dict(device_params), None)
        else:
            dh = P12.device_handler()
        self.sess = rec_class(kind)(dh)
        if OVERRIDE.get('client_drop11'):
            # the application pins the session to base:1.0 by withdrawing base:1.1 from the client capabilities before connect
            try: self.sess._client_capabilities.remove('urn:ietf:params:netconf:base:1.1')
            except KeyError: pass
        self.events = []                       # ('cb', raw, root, n_reads) | ('err', class name)
        conn = self
        class L(SessionListener):
            def callback(self, root, raw): conn.events.append(('cb', raw, _root_canon(root), len(conn.sess.c01_reads)))
            def errback(self, ex): conn.events.append(('err', type(ex).__name__))
        self.listener = L()
        self.open_error = None
        self.closed = False
        try:
            self.srv.connect(self.sess, timeout=timeout)
            if not self.srv.ready.wait(10) or self.srv.conn is None:
                raise RuntimeError('scripted server not ready: %s' % self.srv.err)
            want = 2 if base == 11 else 1
            if self.sess._base != want:
                raise RuntimeError('session negotiated base %r, the case needs %r' % (self.sess._base, want))
            self.sess.add_listener(self.listener)
            self.sess.c01_armed = True
        except Exception as e:
            self.open_error = '%s: %s' % (type(e).__name__, e)
            self.close()

    def cbs(self):
        return [e for e in self.events if e[0] == 'cb']
    def errs(self):
        return [e[1] for e in self.events if e[0] == 'err']

    def wait(self, pred, bound):
        t = now() + bound
        while now() < t:
            if pred(): return True
            time.sleep(0.0005)
        return pred()

    def close(self):
        if self.closed: return
        self.closed = True
        try:
            if self.sess._connected or self.sess.is_alive():
                self.sess.close()
        except Exception:
            pass
        try: self.srv.stop()
        except Exception: pass
        try:
            if self.sess.is_alive(): self.sess.join(5)
        except Exception:
            pass
        if self.kind == 'ssh':
            t = getattr(self.sess, '_transport', None)
            try:
                if t is not None:
                    t.close(); t.join(5)
            except Exception:
                pass


def run_inbound(case):
    """Execute one inbound case.  case: transport, base, pieces [hex], actions (one letter per piece: n p s h).
    Returns a dict of observations (all canonical / JSON-able except 'reads' = list of bytes)."""
    kind, base = case['transport'], case['base']
    pieces = [bytes.fromhex(h) for h in case['pieces']]
    actions = case['actions']
    obs = dict(open_error=None, callbacks=[], roots=[], errors_before_close=[], holds=[], stalled_at=None, reads=[], states=[],
               disp=[], final_state=None, worker_alive_after_close=None, eof_seen=False, send_error=None)
    c = Conn(kind, base, case.get('device_params'))
    if c.open_error:
        obs['open_error'] = c.open_error
        return obs
    s = c.sess
    try:
        sent = 0
        for i, (p, a) in enumerate(zip(pieces, actions)):
            if p and not c.srv.send(p):
                obs['send_error'] = c.srv.err; break
            sent += len(p)
            if a == 'p':
                time.sleep(case.get('pause_ms', 2) / 1000.0)
            elif a in 'sh':
                if not c.wait(lambda: s.c01_total >= sent or c.errs(), SETTLE_BOUND):
                    obs['stalled_at'] = [i, sent, s.c01_total]
                    break
                if a == 'h':
                    time.sleep(HOLD_GRACE)
                    obs['holds'].append([i, sent, len(c.cbs())])
        total = sum(len(p) for p in pieces)
        if obs['stalled_at'] is None and obs['send_error'] is None:
            c.wait(lambda: len(c.cbs()) >= case['n_expected'] or c.errs(), DELIVER_BOUND)
            c.wait(lambda: s.c01_total >= total or c.errs(), 0.5)
            time.sleep(0.005)
        obs['final_state'] = s.c01_state() if not c.errs() else None
        evs = list(c.events)
        obs['callbacks'] = [e[1] for e in evs if e[0] == 'cb']
        obs['roots'] = [e[2] for e in evs if e[0] == 'cb']
        obs['cb_reads'] = [e[3] for e in evs if e[0] == 'cb']
        obs['errors_before_close'] = [e[1] for e in evs if e[0] == 'err']
        obs['reads'] = list(s.c01_reads)
        obs['states'] = list(s.c01_states)
        obs['disp'] = list(s.c01_disp)
        obs['eof_seen'] = s.c01_eof
    finally:
        c.close()
    obs['worker_alive_after_close'] = s.is_alive()
    return obs


SSH_OPTS = {}
OVERRIDE = {}

def run_outbound(case, done):
    """C02, outbound direction through the real transport: after the hello exchange the client submits case['msgs'] with
    Session.send; the scripted server reads until done(octets) holds (the caller's receiver has all messages; a terminator
    look-alike inside a 1.1 payload must not end the reading) and nothing more arrives for 50 ms, or for 10 s.
    Returns dict(open_error, client_hello (bytes), wire (bytes), errors_before_close, worker_alive_after_close)."""
    kind, base = case['transport'], case['base']
    obs = dict(open_error=None, client_hello=b'', wire=b'', errors_before_close=[], worker_alive_after_close=None)
    SSH_OPTS.clear()
    if case.get('ssh_window'):
        SSH_OPTS.update(default_window_size=case['ssh_window'][0], default_max_packet_size=case['ssh_window'][1])
    OVERRIDE.clear()
    if case.get('client_drop11'):
        OVERRIDE.update(client_drop11=True, hello_base=11)
    try:
        c = Conn(kind, base)
    finally:
        SSH_OPTS.clear(); OVERRIDE.clear()
    if c.open_error:
        obs['open_error'] = c.open_error
        return obs
    try:
        obs['client_hello'] = c.srv.client_hello
        for m in case['msgs']:
            c.sess.send(m)
        if case.get('reader_delay_ms'):
            time.sleep(case['reader_delay_ms'] / 1000.0)      # the transport fills up: real short writes
        obs['wire'] = c.srv.read_until(done, bound=2 * DELIVER_BOUND)
        obs['errors_before_close'] = c.errs()
        obs['writes'] = list(c.sess.c01_writes)
        obs['queue_left'] = c.sess._q.qsize()
    finally:
        c.close()
    obs['worker_alive_after_close'] = c.sess.is_alive()
    return obs


def run_outbound_stalled(case, want_len):
    """C02, a peer that stops reading: the session is opened with the short timeout case['timeout_ms'] (TLSSession.connect /
    UnixSocketSession.connect(path) leave it on the socket), after the hello exchange the scripted server reads NOTHING while the
    client submits case['msgs'] (case['gap_ms'] apart; far more than the transport buffers).  The stall lasts case['stall_ms']
    (longer than the timeout), or until the session has reported an error and its thread is gone (nothing can change any more).
    Then the server reads everything that is still to be had.  Returns dict(open_error, client_hello, wire, how the reading
    ended, accepted (number of send() calls that returned), send_refused, errors (before close), connected / thread alive after
    the stall and at the end, later_send (class of what a further send() raises), writes, queue_left, worker_alive_after_close)."""
    kind, base = case['transport'], case['base']
    T = case['timeout_ms'] / 1000.0
    obs = dict(open_error=None, client_hello=b'', wire=b'', errors_before_close=[], worker_alive_after_close=None)
    srv_kw = {'unix': {'listen': True}, 'tls': {'rcvbuf': 65536}}.get(kind)
    c = Conn(kind, base, timeout=T, srv_kw=srv_kw)
    if c.open_error:
        obs['open_error'] = c.open_error
        return obs
    s = c.sess
    try:
        obs['client_hello'] = c.srv.client_hello
        t0 = now()
        accepted, refused = 0, None
        for m in case['msgs']:
            try:
                s.send(m); accepted += 1
            except Exception as e:                       # the session is down already: the caller is told
                refused = type(e).__name__; break
            if case.get('gap_ms'): time.sleep(case['gap_ms'] / 1000.0)
        obs['accepted'], obs['send_refused'] = accepted, refused
        c.wait(lambda: c.errs() and not s.is_alive(), max(0.0, t0 + case['stall_ms'] / 1000.0 - now()))
        obs['stalled_s'] = round(now() - t0, 3)
        obs['after_stall'] = dict(errors=c.errs(), connected=bool(s.connected), alive=s.is_alive(), n_writes=len(s.c01_writes))
        obs['wire'], obs['read_end'] = c.srv.read_rest(want_len, bound=2 * DELIVER_BOUND, quiet=min(T, 1.0) + 0.3)
        obs['errors_before_close'] = c.errs()
        obs['connected_end'], obs['alive_end'] = bool(s.connected), s.is_alive()
        if obs['errors_before_close']:
            try:
                s.send('<late/>'); obs['later_send'] = None
            except Exception as e:
                obs['later_send'] = type(e).__name__
        obs['writes'] = list(s.c01_writes)
        obs['queue_left'] = s._q.qsize()
    finally:
        c.close()
    obs['worker_alive_after_close'] = s.is_alive()
    return obs


# ------------------------------------------------------------------ resource accounting
def resources():
    import gc
    gc.collect()                # a finished Session thread keeps its selector (an epoll fd) until it is collected
    return P12.fd_count(), sorted(P12.live_threads())

def settle_resources(base, bound=5.0):
    """wait (bounded) until fd count and thread set are back to `base`; returns (fd delta, extra thread names)"""
    fd0, th0 = base
    t = now() + bound
    while now() < t:
        fd, th = resources()
        if fd <= fd0 and len(th) <= len(th0): break
        time.sleep(0.02)
    fd, th = resources()
    extra = list(th)
    for x in th0:
        if x in extra: extra.remove(x)
    return fd - fd0, extra


# ------------------------------------------------------------------ inbound cases: generator and property oracle
TINY_XML = ['<a/>', '<ok/>', '<r>1</r>', '<a>é</a>', '<b>€</b>', '<c>\U0001F600</c>', '<d>x </d>', '<e a="1">中</e>', '\ufeff<n/>',
            '\ufeff<?xml version="1.0"?><o/>']       # a byte order mark is the first character of the text
PIECE_KINDS = ['whole', 'random', 'adversarial_some', 'adversarial_all', 'fixed4096', 'size1', 'big', 'around_term']
MODES = ['settle', 'pause', 'burst', 'mixed']
MAX_STREAM = 40000
MAX_PIECES = 48

def gen_inbound_case(rng, kind, base, size=None, msg_gen=None):
    """One connection: messages (each an XML document element so that Session._dispatch_message hands it to the listeners),
    1.1 chunking, the cut of the stream into written pieces, the action after each piece.  Returns (case, tags).
    msg_gen(rng, base, i, size, big): the text of message i, instead of the built-in choice."""
    size = size or rng.choice(['tiny', 'small', 'small', 'multi'])
    while True:
        n = rng.choice([1, 2, 3, 5])
        big_at = rng.randrange(n)
        msgs = []
        for i in range(n):
            if msg_gen is not None:
                m = msg_gen(rng, base, i, size, i == big_at)
            elif size == 'tiny' or (size == 'small' and rng.random() < 0.3):
                m = rng.choice(TINY_XML)
            elif size == 'multi' and i == big_at:
                m = (F.gen_message(rng, base, 'long', i + 1, long_range=(4200, 18000)) if rng.random() < 0.5 else
                     '<rpc-reply message-id="%d"><data>%s</data></rpc-reply>' % (i + 1, ('<v>é€\U0001F600</v>' + F._body(rng, 12, True)) * rng.randint(140, 500)))
                if base == 10: m = m.replace(']]>]]>', ']]> ]]>')
            else:
                m = F.gen_xml_message(rng, base, i + 1)
            msgs.append(m)
        if base == 11:
            cks = [rng.choice(F.CHUNKINGS) for _ in msgs]
            chunked = [F.gen_chunking(rng, m.encode('utf-8'), ck) for m, ck in zip(msgs, cks)]
            stream, ends = F.encode11(chunked), F.ends11(chunked)
            expected = list(msgs)
        else:
            cks = ['-']
            stream, ends = F.encode10([m.encode('utf-8') for m in msgs]), F.ends10([m.encode('utf-8') for m in msgs])
            expected = [m.strip() for m in msgs]
        if len(stream) <= MAX_STREAM and (size != 'multi' or len(stream) > 4200):
            break
    orc = F.oracle(base, stream)
    if orc != [('msg', e.encode('utf-8'), end) for e, end in zip(expected, ends)]:      # two independent statements of the framing
        raise AssertionError('harness: oracle%d disagrees with the encoder on %s' % (base, stream[:200].hex()))
    N = len(stream)
    pk = rng.choice(PIECE_KINDS)
    if pk == 'size1' and N > 150: pk = 'random'
    term = len(F.END11 if base == 11 else F.DELIM10)
    if pk == 'big':
        cuts, p = [], 0
        while True:
            p += rng.randint(4097, 16000)
            if p >= N: break
            cuts.append(p)
    elif pk == 'around_term':
        cuts = set()
        for e in ends:
            cuts.update([e - 1, e - term, e, e + rng.randint(-7, 7), e - rng.randint(1, term)])
        cuts = sorted(c for c in cuts if 0 < c < N)
    else:
        cuts = F.gen_cuts(rng, base, stream, pk)
    if len(cuts) > MAX_PIECES: cuts = sorted(rng.sample(cuts, MAX_PIECES))
    held = [e for e in ends if rng.random() < 0.5]
    if not held and rng.random() < 0.8: held = [rng.choice(ends)]
    cuts = sorted(set(cuts) | set(e - 1 for e in held))
    pieces = F.segment(stream, cuts)
    mode = rng.choice(MODES)
    acts, pos = [], 0
    for p in pieces:
        pos += len(p)
        if pos + 1 in held: acts.append('h')
        elif mode == 'mixed': acts.append(rng.choice('nps'))
        else: acts.append({'settle': 's', 'pause': 'p', 'burst': 'n'}[mode])
    case = {'level': 'peer', 'transport': kind, 'base': base, 'pieces': [p.hex() for p in pieces], 'actions': ''.join(acts),
            'pause_ms': rng.choice([1, 2, 5]), 'expected': expected, 'n_expected': len(expected)}
    tags = dict(size=size, piece_kind=pk, mode=mode, chunkings=cks, holds=len(held), stream=N, pieces=len(pieces))
    return case, tags


def _first_tag(text):
    import re
    m = re.search(r'<([A-Za-z_][\w.-]*)', text)
    return m.group(1) if m else None


def judge_inbound(case, obs):
    """The property sentence on one run through a real transport.  Returns (ok, what, expected, actual)."""
    base = case['base']
    pieces = [bytes.fromhex(h) for h in case['pieces']]
    stream = b''.join(pieces)
    oev = F.oracle(base, stream)                              # what a correct receiver frames out of the written octets
    exp_msgs = list(case['expected'])
    reads = obs['reads']
    actual = {'callbacks': obs['callbacks'], 'errors_before_close': obs['errors_before_close'], 'holds': obs['holds'],
              'stalled_at': obs['stalled_at'], 'read_sizes': [len(r) for r in reads], 'worker_alive_after_close': obs['worker_alive_after_close'],
              'open_error': obs['open_error']}
    holds_exp = []
    pos = 0
    for i, (p, a) in enumerate(zip(pieces, case['actions'])):
        pos += len(p)
        if a == 'h': holds_exp.append([i, pos, len([e for e in oev if e[2] <= pos])])
    expected = {'callbacks': exp_msgs, 'errors_before_close': [], 'holds': holds_exp, 'stalled_at': None, 'worker_alive_after_close': False,
                'open_error': None}
    def bad(what): return False, what, expected, actual
    if obs['open_error']:
        return bad('the session could not be opened against the scripted server: %s' % obs['open_error'])
    if obs.get('send_error'):
        return bad('the scripted server could not write (%s): the client end went away; errors %r' % (obs['send_error'], obs['errors_before_close']))
    got = b''.join(reads)
    if not stream.startswith(got):
        k = next(j for j in range(len(got)) if got[j:j + 1] != stream[j:j + 1])
        return bad('the octets returned by _transport_read are not the octets written to the transport: first difference at offset %d of %d '
                   '(read no. %d), written %r, read %r' % (k, len(stream), sum(1 for j in range(len(reads)) if sum(len(r) for r in reads[:j + 1]) <= k) + 1,
                                                         stream[max(k - 6, 0):k + 6], got[max(k - 6, 0):k + 6]))
    if obs['stalled_at']:
        i, sent, got = obs['stalled_at']
        return bad('stall: %d octets were written to the transport (piece %d), the session read only %d within %.0f s '
                   '(%d message(s) delivered, %d complete on the wire)' % (sent, i, got, SETTLE_BOUND, len(obs['callbacks']), len([e for e in oev if e[2] <= sent])))
    for (i, sent, n), (_, _, want) in zip(obs['holds'], holds_exp):
        if n > want:
            return bad('%d message(s) delivered while the last octet of the terminator of message %d had not been written (after piece %d, %d octets)' % (n, want + 1, i, sent))
    if obs['callbacks'] != exp_msgs:
        k = next((j for j, (a, b) in enumerate(zip(obs['callbacks'], exp_msgs)) if a != b), min(len(obs['callbacks']), len(exp_msgs)))
        return bad('listener received %d message(s), %d were sent; first difference at message %d' % (len(obs['callbacks']), len(exp_msgs), k + 1))
    if obs['errors_before_close']:
        return bad('errback %r on a valid stream' % obs['errors_before_close'])
    for j, (root, m) in enumerate(zip(obs['roots'], exp_msgs)):
        tag = root[0].split('}')[-1]
        if tag != _first_tag(m):
            return bad('root handed to the listener with message %d is %r, the message starts with <%s' % (j + 1, root[0], _first_tag(m)))
    if b''.join(reads) != stream:
        return bad('the octets returned by _transport_read (%d) are not the octets written (%d)' % (len(b''.join(reads)), len(stream)))
    exp_t = F.expected_timeline(oev, [len(r) for r in reads])
    act_t = [(i, [0, raw.encode('utf-8')]) for i, raw in obs['disp']]
    if exp_t != act_t:
        for (ei, e), (ai, _) in zip(exp_t, act_t):
            if ai < ei: return bad('message dispatched during read %d, the last octet of its terminator arrived with read %d' % (ai, ei))
            if ai > ei: return bad('message complete with read %d was dispatched only during read %d' % (ei, ai))
        return bad('dispatch timeline differs from the framing of the reads')
    if obs['worker_alive_after_close']:
        return bad('session thread still alive after close()')
    return True, '', expected, actual


def impl_records(case, obs):
    """per-read records in the shape of the model runner: [events, buffer, pos | pending chunk octets, dead]"""
    recs = []
    n = len(obs['reads'])
    for i in range(n):
        evs = [[0, raw.encode('utf-8')] for j, raw in obs['disp'] if j == i]
        st = obs['states'][i] if i < len(obs['states']) else obs['final_state']
        if st is None: return None
        recs.append([evs, st[0], st[1], 0])
    return recs


def size_bucket(n):
    return ('1' if n == 1 else '2-15' if n < 16 else '16-255' if n < 256 else '256-4095' if n < 4096 else '4096' if n == 4096 else
            '4097-16384' if n <= 16384 else '>16384')
