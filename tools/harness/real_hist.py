"""C04 over HISTORIES of one session object, on the real transport classes with real in-process peers.

The property is stated for "the session", whatever happened to that object before the connection that is lost.  A case is

    kind   ssh | tls | unix
    steps  what is done to ONE SSHSession / TLSSession / UnixSocketSession object before it is connected for good:
             ('fail', variant)  a connect() attempt that fails before the session thread is started
                                ssh : badpw (authentication), unknown_host (host key refused), negotiation (peer hangs up
                                      during key exchange), subsystem (netconf subsystem refused, after authentication)
                                tls : refused (no listener), badca (server certificate not trusted), nocert (no client cert)
                                unix: nopath, notsocket
             ('close',)         session.close() (an exception out of close() on a never-connected object is recorded, not judged)
             ('mgr_close',)     what manager.connect_* does after a failed connect: close() if a transport / socket exists
    n_out  requests outstanding (received by the peer, unanswered) when the connection is lost; 0 = idle session
    loss   close (the peer closes its end) | transport (ssh: the peer closes the whole SSH transport) | reset (tls: RST, no FIN)

then `connect()` succeeds against a scripted server (paramiko ServerInterface over a socketpair, TLS server on loopback, a
listening AF_UNIX socket: tools/harness/c12_peers.py), requests are made through `Manager`, the peer loses the connection.

Oracle = the property sentence on observables, the same for EVERY history: each outstanding request raises a TransportError
promptly (far inside its timeout), never returns a reply; the session thread ends; `Session.connected` / `Manager.connected`
are False; a later request is refused with a TransportError promptly.  Nothing looks at the source or at flags of the session.
Wall-clock bounds are wide (PROMPT 1.5 s against a 4 s timeout); the caller repeats a failing case once before reporting it."""
import os, socket, ssl, struct, threading, time
from vlib import paths
from . import c12_peers as P

TIMEOUT, PROMPT = 4.0, 1.5
KINDS = ('ssh', 'tls', 'unix')
FAILS = {'ssh': ('badpw', 'unknown_host', 'negotiation', 'subsystem'),
         'tls': ('refused', 'badca', 'nocert'),
         'unix': ('nopath', 'notsocket')}
LOSSES = {'ssh': ('close', 'transport'), 'tls': ('close', 'reset'), 'unix': ('close',)}
_counter = [0]

def now():
    return time.monotonic()

def rundir():
    d = os.path.join(paths.RUN, 'c04h')
    os.makedirs(d, exist_ok=True)
    return d

def tls_files():
    return P.tls_material(rundir())

class UnixListener(object):
    """accepts ONE connection on a listening AF_UNIX socket and runs a c12 Peer on it"""
    def __init__(self):
        _counter[0] += 1
        self.path = os.path.join(rundir(), 'u%d-%d.sock' % (os.getpid(), _counter[0]))
        try: os.unlink(self.path)
        except OSError: pass
        self.ls = socket.socket(socket.AF_UNIX, socket.SOCK_STREAM)
        self.ls.bind(self.path); self.ls.listen(1)
        self.peer = None
        self.ready = threading.Event()
        self.t = threading.Thread(target=self._acc, daemon=True, name='c04h-unix-acceptor'); self.t.start()
    def _acc(self):
        try:
            self.ls.settimeout(20)
            c, _ = self.ls.accept()
            c.settimeout(30)
            self.peer = P.Peer(c, 'ok', 'hold'); self.peer.start()
        except Exception:
            pass
        finally:
            self.ready.set()
            self.stop()
    def stop(self):
        try: self.ls.close()
        except Exception: pass
        try: os.unlink(self.path)
        except OSError: pass

class Rig(object):
    """one session object + everything created around it (for cleanup)"""
    def __init__(self, kind):
        from ncclient import manager
        self.kind = kind
        self.dh = manager.make_device_handler({'name': 'default'})
        if kind == 'ssh':
            from ncclient.transport.ssh import SSHSession as cls
        elif kind == 'tls':
            from ncclient.transport.tls import TLSSession as cls
        else:
            from ncclient.transport.unixSocket import UnixSocketSession as cls
        self.ses = cls(self.dh)
        self.files = tls_files() if kind == 'tls' else None
        self.trash = []           # callables
        self.peer = None
        self.srv = None
        self.log = []

    # ---- steps ----------------------------------------------------------------------------------
    def fail_connect(self, variant):
        """a connect() that must fail; returns None or a text if it did NOT fail"""
        ses = self.ses
        try:
            if self.kind == 'ssh':
                a, b = socket.socketpair()
                self.trash += [a.close, b.close]
                kw = dict(host='c04h', sock=a, hostkey_verify=False, username='u', password='pw', allow_agent=False,
                          look_for_keys=False, timeout=5)
                if variant == 'negotiation':
                    b.close()
                else:
                    srv = P.SshServer(b, 'ok', 'hold', subsystem_ok=(variant != 'subsystem'))
                    self.trash.append(srv.stop)
                if variant == 'badpw': kw['password'] = 'wrong'
                if variant == 'unknown_host': kw.update(hostkey_verify=True, unknown_host_cb=lambda host, fp: False)
                ses.connect(**kw)
            elif self.kind == 'tls':
                f = self.files
                kw = dict(host='127.0.0.1', certfile=f['cli'], ca_certs=f['ca'], protocol=ssl.PROTOCOL_TLS_CLIENT, timeout=5)
                if variant == 'refused':
                    s = socket.socket(socket.AF_INET, socket.SOCK_STREAM); s.bind(('127.0.0.1', 0))
                    kw['port'] = s.getsockname()[1]; s.close()
                elif variant == 'badca':
                    srv = P.TlsServer(f, 'ok', 'hold')
                    kw.update(port=srv.port, ca_certs=f['badca'])
                else:
                    kw.update(port=1, certfile=None)
                ses.connect(**kw)
            else:
                path = os.path.join(rundir(), 'absent-%d.sock' % os.getpid())
                if variant == 'notsocket':
                    path = os.path.join(rundir(), 'plain-%d' % os.getpid())
                    open(path, 'w').close()
                    self.trash.append(lambda: os.unlink(path))
                ses.connect(path=path, timeout=5)
        except Exception as e:
            self.log.append(('fail', variant, type(e).__name__))
            return None
        return 'connect (%s) was expected to fail and did not' % variant

    def close(self):
        try:
            self.ses.close()
            self.log.append(('close', 'ok'))
        except Exception as e:
            self.log.append(('close', type(e).__name__))

    def mgr_close(self):
        has = self.ses.transport if self.kind == 'ssh' else self.ses._socket
        if has:
            self.close()
        else:
            self.log.append(('mgr_close', 'nothing to close'))

    def connect_ok(self):
        ses = self.ses
        if self.kind == 'ssh':
            a, b = socket.socketpair()
            self.trash += [a.close, b.close]
            srv = P.SshServer(b, 'ok', 'hold'); self.trash.append(srv.stop)
            ses.connect(host='c04h', sock=a, hostkey_verify=False, username='u', password='pw', allow_agent=False,
                        look_for_keys=False, timeout=10)
            t0 = now()
            while srv.peer is None and now() - t0 < 5: time.sleep(0.005)
            self.srv, self.peer = srv, srv.peer
        elif self.kind == 'tls':
            f = self.files
            srv = P.TlsServer(f, 'ok', 'hold')
            ses.connect(host='127.0.0.1', port=srv.port, certfile=f['cli'], ca_certs=f['ca'], protocol=ssl.PROTOCOL_TLS_CLIENT, timeout=10)
            srv.ready.wait(10)
            self.srv, self.peer = srv, srv.peer
        else:
            srv = UnixListener(); self.trash.append(srv.stop)
            ses.connect(path=srv.path, timeout=10)
            srv.ready.wait(10)
            self.srv, self.peer = srv, srv.peer

    def lose(self, loss):
        p = self.peer
        if loss == 'transport':
            p.closed_own = True
            self.srv.t.close()
        elif loss == 'reset':
            # RST instead of FIN: wake the peer's own reader without sending anything, then close with linger 0
            p.closed_own = True
            raw = p.chan
            try:
                raw.setsockopt(socket.SOL_SOCKET, socket.SO_LINGER, struct.pack('ii', 1, 0))
                raw.shutdown(socket.SHUT_RD)
            except Exception:
                pass
            p.join(1)
            try: raw.close()
            except Exception: pass
        else:
            p._close_own()

    def cleanup(self):
        try: self.ses.close()
        except Exception: pass
        if self.peer is not None:
            try: self.peer._close_own()
            except Exception: pass
        for f in reversed(self.trash):
            try: f()
            except Exception: pass
        t = getattr(self.ses, '_transport', None)
        try:
            if t is not None: t.close()
        except Exception: pass

def describe(case):
    return '%s after %s' % (case['kind'], ' > '.join('/'.join(s) for s in case['steps']) or 'nothing')

def run_hist(case):
    """-> None (the property holds on this history) or a text"""
    from ncclient import manager
    from ncclient.transport.errors import TransportError
    kind, steps, n_out, loss = case['kind'], [tuple(s) for s in case['steps']], case.get('n_out', 1), case.get('loss', 'close')
    tag = describe(case)
    rig = Rig(kind)
    try:
        flags = case['_flags'] = dict(steps=[], connected=None, end=None)     # for the correspondence with Model/SessionHist.v only
        peek = lambda: [1 if rig.ses._closing.is_set() else 0, 1 if rig.ses._connected else 0]
        for st in steps:
            if st[0] == 'fail':
                f = rig.fail_connect(st[1])
                if f: return 'rig: %s: %s' % (tag, f)
            elif st[0] == 'close': rig.close()
            elif st[0] == 'mgr_close': rig.mgr_close()
            flags['steps'].append(peek())
        try:
            rig.connect_ok()
        except Exception as e:
            return '%s: the session object could not be connected: %s: %s' % (tag, type(e).__name__, e)
        ses = rig.ses
        flags['connected'] = peek()
        if rig.peer is None:
            return 'rig: %s: no peer' % tag
        if not ses.connected:
            return '%s: connect() returned but the session does not report connected' % tag
        m = manager.Manager(ses, rig.dh, timeout=TIMEOUT)
        res = {}
        def call(slot):
            t0 = now()
            try: res[slot] = ('value', m.get_config(source='running'))
            except BaseException as e: res[slot] = ('error', e)
            res[slot + '_t'] = now() - t0; res[slot + '_end'] = now()
        ths = [threading.Thread(target=call, args=('out%d' % i,), daemon=True) for i in range(n_out)]
        for th in ths: th.start()
        t0 = now()
        while len(rig.peer.held) < n_out and now() - t0 < 5 and (ses.is_alive() or now() - t0 < 0.3): time.sleep(0.002)
        if len(rig.peer.held) < n_out:
            if not ses.is_alive() and ses.connected:
                return ('%s: the session thread has ended on a live connection but the session still reports connected: a request was '
                        'accepted, never sent, and can only wait out its timeout' % tag)
            return '%s: a request did not reach the peer within %.0f s' % (tag, now() - t0)
        t_loss = now()
        rig.lose(loss)
        for i, th in enumerate(ths):
            th.join(max(0.0, t_loss + TIMEOUT + 2 - now()))
            slot = 'out%d' % i
            if th.is_alive() or slot not in res:
                return '%s: an outstanding request did not return within its timeout after the connection was lost' % tag
            k, v = res[slot]
            if k != 'error':
                return '%s: an outstanding request returned a reply although the peer never answered it' % tag
            if not isinstance(v, TransportError) and loss != 'reset':
                return '%s: an outstanding request ended with %s instead of a transport error after the peer closed' % (tag, type(v).__name__)
            if type(v).__name__ == 'TimeoutExpiredError' or res[slot + '_end'] - t_loss > PROMPT:
                return '%s: an outstanding request was failed only %.1f s after the loss (timeout %.0f s): it waited instead of being failed' % (tag, res[slot + '_end'] - t_loss, TIMEOUT)
        ses.join(max(0.0, t_loss + PROMPT + 1.5 - now()))
        if ses.is_alive():
            return '%s: the session thread is still running after the connection was lost' % tag
        flags['end'] = [1 if ses._connected else 0, 10]
        if ses.connected or m.connected:
            return '%s: the session still reports connected after the connection was lost' % tag
        th2 = threading.Thread(target=call, args=('later',), daemon=True); th2.start(); th2.join(TIMEOUT + 2)
        if th2.is_alive() or 'later' not in res:
            return '%s: a request made after the loss did not return within its timeout' % tag
        k, v = res['later']
        if k != 'error' or not isinstance(v, TransportError):
            return '%s: a request made after the loss ended with %s instead of being refused with a transport error' % (tag, type(v).__name__ if k == 'error' else 'a reply')
        if res['later_t'] > PROMPT:
            return '%s: a request made after the loss was refused only after %.1f s' % (tag, res['later_t'])
        return None
    finally:
        case['_log'] = rig.log
        rig.cleanup()

# ---------------------------------------------------------------------------------------------------
# generator
# ---------------------------------------------------------------------------------------------------
def core_cases():
    """the histories named in the property's anchors: what manager.connect_* leaves behind after a failed connect, a
    close() before the first connect, a failed connect without any close, twice failed"""
    out = []
    for kind in KINDS:
        f0 = FAILS[kind][0]
        for steps in ([('fail', f0), ('mgr_close',)], [('close',)], [('fail', f0), ('close',)]):
            out.append(dict(kind=kind, steps=[list(s) for s in steps], n_out=1, loss='close'))
    return out

def gen_case(rng, kind=None):
    kind = kind or rng.choice(KINDS)
    steps = []
    for _ in range(rng.choice([0, 1, 1, 2, 2, 3, 4])):
        r = rng.random()
        if r < 0.45: steps.append(['fail', rng.choice(FAILS[kind])])
        elif r < 0.8: steps.append(['close'])
        else: steps.append(['mgr_close'])
    return dict(kind=kind, steps=steps, n_out=rng.choice([0, 1, 1, 2, 3]), loss=rng.choice(LOSSES[kind] + ('close',)))

def all_cases():
    """every kind x every failing variant x the short prefixes x every loss (thorough tier)"""
    out = []
    for kind in KINDS:
        for fv in FAILS[kind]:
            for steps in ([['fail', fv]], [['fail', fv], ['close']], [['fail', fv], ['mgr_close']],
                          [['fail', fv], ['close'], ['fail', fv], ['mgr_close']]):
                for loss in LOSSES[kind]:
                    out.append(dict(kind=kind, steps=steps, n_out=1, loss=loss))
        for steps in ([], [['close']], [['close'], ['close']], [['mgr_close']]):
            for loss in LOSSES[kind]:
                out.append(dict(kind=kind, steps=steps, n_out=1, loss=loss))
            out.append(dict(kind=kind, steps=steps, n_out=0, loss='close'))
    return out

def judge(case, tries=2):
    """wall-clock rig: report only what fails `tries` times in a row"""
    from . import lts
    was = bool(lts._installed)
    lts.uninstall()
    try:
        f = None
        for _ in range(tries):
            c = dict(case)
            f = run_hist(c)
            case['_log'] = c.get('_log'); case['_flags'] = c.get('_flags')
            if f is None: return None
        return f
    finally:
        if was: lts.install()

# ---------------------------------------------------------------------------------------------------
# correspondence with Model/SessionHist.v (runner HIST): the flags the model predicts after every step of the history,
# after the successful connect and after the loss, against the flags of the real object (model vs implementation; the
# oracle above does not use them)
# ---------------------------------------------------------------------------------------------------
_model = [None, False]
def hist_model(ctx=None):
    if not _model[1]:
        _model[1] = True
        from vlib import build
        from vlib.model import Model
        with build.Lock():
            ok, log, _ = build.make(['Glue/HIST_glue.vo'])
            if ok:
                ok, log = build.build_runner('HIST')
        if ok:
            _model[0] = Model('HIST')
        elif ctx is not None:
            ctx.disagree({'hist': 'runner'}, 'HIST runner builds', log[-400:], 'extraction of Glue/HIST_glue.v')
    return _model[0]

def model_call(case):
    code = lambda st: (1 if (case['kind'] == 'ssh' and st[1] == 'subsystem') else 0) if st[0] == 'fail' else (2 if st[0] == 'close' else 3)
    return [KINDS.index(case['kind']), [code(tuple(st)) for st in case['steps']]]

def compare(case, flags, mo):
    """-> None or the first difference between the model's prediction and the flags of the real object"""
    if not flags: return None
    if isinstance(mo, str) or not isinstance(mo, list) or len(mo) != 3:
        return 'model runner rejected the call: %r' % (mo,)
    for i, (got, want) in enumerate(zip(flags['steps'], mo[0])):
        if list(got) != list(want):
            return 'after step %d (%s) the object has (closing, connected) = %r, the model %r' % (i, '/'.join(case['steps'][i]), got, want)
    if flags.get('connected') is not None and list(flags['connected']) != list(mo[1]):
        return 'after the successful connect the object has (closing, connected) = %r, the model %r' % (flags['connected'], mo[1])
    if flags.get('end') is not None and list(flags['end']) != list(mo[2]):
        return 'after the loss (connected, worker pc) = %r, the model %r' % (flags['end'], mo[2])
    return None
