#!/venv/bin/python
"""Mutation self-test of the C16 check (developer tool, not part of ./check).
Applies hand-made mutations of the anchored code to the repo worktree ($VERIF_REPO, must be a
clean git worktree), runs ./check C16 for each, prints the verdict and restores the file."""
import os, sys, subprocess, json, glob

REPO = os.environ['VERIF_REPO']
VERIF = os.path.dirname(os.path.dirname(os.path.dirname(os.path.abspath(__file__))))

MUTATIONS = [
    ('M1 default.get_capabilities returns the class-level list itself when there are no user capabilities',
     'ncclient/devices/default.py',
     '        return self._BASE_CAPABILITIES + self.capabilities\n',
     '        return self._BASE_CAPABILITIES + self.capabilities if self.capabilities else self._BASE_CAPABILITIES\n'),
    ('M2 nexus.get_ssh_subsystem_names no longer filters the preferred name out of the built-in list',
     'ncclient/devices/nexus.py',
     '[ n for n in name_list if n != preferred_ssh_subsystem ]', 'name_list'),
    ('M3 Manager.__getattr__ looks in OPERATIONS before the vendor table',
     'ncclient/manager.py',
     '        if method in self._vendor_operations:\n            return functools.partial(self.execute, self._vendor_operations[method])\n        elif method in OPERATIONS:\n            return functools.partial(self.execute, OPERATIONS[method])\n',
     '        if method in OPERATIONS:\n            return functools.partial(self.execute, OPERATIONS[method])\n        elif method in self._vendor_operations:\n            return functools.partial(self.execute, self._vendor_operations[method])\n'),
    ('M4 Manager keeps the vendor operations in a class-level dict shared by all managers',
     'ncclient/manager.py',
     '        self._vendor_operations = {}\n', '        self._vendor_operations = Manager.__dict__.setdefault("_shared_vendor", {}) if False else _SHARED_VENDOR\n'),
    ('M5 alu advertises only the xml:ns form of base:1.0',
     'ncclient/devices/alu.py',
     '            "urn:ietf:params:netconf:base:1.0",\n', '            "urn:ietf:params:xml:ns:netconf:base:1.0",\n'),
    ('M6 a device name is advertised that has no module',
     'ncclient/devices/__init__.py',
     '    "iosxr": "Cisco IOS XR",\n', '    "iosxr": "Cisco IOS XR",\n    "iosxr7": "Cisco IOS XR 7",\n'),
    ('M7 DefaultDeviceHandler.__init__ extends the class-level _EXEMPT_ERRORS in place',
     'ncclient/devices/default.py',
     '        self._EXEMPT_ERRORS = ignore_errors or self._EXEMPT_ERRORS\n',
     '        self._EXEMPT_ERRORS += (ignore_errors or [])\n'),
    ('M8 sros adds the private-candidate capability for every config_mode',
     'ncclient/devices/sros.py',
     "        if self.device_params.get('config_mode') == ConfigMode.PRIVATE:\n", "        if self.device_params.get('config_mode'):\n"),
    ('M9 huawei get_xml_base_namespace_dict returns a module-level dict (shared, mutable by callers)',
     'ncclient/devices/huawei.py',
     '    def get_xml_base_namespace_dict(self):\n        return {None: BASE_NS_1_0}\n',
     '    def get_xml_base_namespace_dict(self, _d={None: BASE_NS_1_0}):\n        return _d\n'),
]
EXTRA = {'M4': ('ncclient/manager.py', 'class Manager:\n', '_SHARED_VENDOR = {}\n\nclass Manager:\n')}

def main():
    sel = sys.argv[1:]
    assert subprocess.run(['git', 'status', '--porcelain'], cwd=REPO, capture_output=True, text=True).stdout.strip() == '', 'repo worktree not clean'
    for name, rel, old, new in MUTATIONS:
        tag = name.split()[0]
        if sel and tag not in sel: continue
        p = os.path.join(REPO, rel)
        s = open(p).read()
        assert s.count(old) == 1, (tag, 'pattern not unique/found')
        s = s.replace(old, new)
        if tag in EXTRA:
            r2, o2, n2 = EXTRA[tag]; assert r2 == rel and s.count(o2) == 1; s = s.replace(o2, n2)
        open(p, 'w').write(s)
        try:
            for f in glob.glob(os.path.join(VERIF, 'replays', 'C16-*.json')): os.remove(f)
            r = subprocess.run([os.path.join(VERIF, 'check'), 'C16'], cwd=VERIF, capture_output=True, text=True)
            last = [l for l in r.stdout.strip().split('\n') if l][-2:]
            print('==', name); print('   rc=%d' % r.returncode, ' | '.join(last))
            for f in sorted(glob.glob(os.path.join(VERIF, 'replays', 'C16-*.json'))):
                d = json.load(open(f))
                print('   replay:', d.get('found_by'), '|', (d.get('what') or d.get('note') or '')[:230])
                print('   case  :', json.dumps(d.get('case'))[:300])
                print('   broken:', [b['kind'] + ':' + b['detail'][:80].replace('\n', ' ') for b in d.get('broken', [])])
                rr = subprocess.run([os.path.join(VERIF, 'check'), 'C16', '--replay', f], cwd=VERIF, capture_output=True, text=True)
                print('   replay rc on mutant = %d' % rr.returncode)
        finally:
            subprocess.run(['git', 'checkout', '--', rel], cwd=REPO, check=True)
    for f in glob.glob(os.path.join(VERIF, 'replays', 'C16-*.json')): os.remove(f)

if __name__ == '__main__':
    main()
