"""Deterministic cooperative scheduler over real ncclient threads (DESIGN App. B).

One OS thread runs at a time. Managed threads park at `point()` BEFORE performing the instrumented
operation; the scheduler (harness main thread) picks the next enabled thread from a decision list
(replay / exhaustive enumeration) or a seeded PRNG. Blocking operations are enabledness predicates,
time is virtual (a wait with a timeout offers a 'timeout' option). Shared-state effects are appended
to `Sched.effects` in the global order in which they take place; they are the labels of the session
LTS (coq/Model/SessionLTS.v)."""
import threading, random, collections, queue as _q

_Sem = threading.Semaphore

class Deadlock(Exception):
    pass

class Sched:
    def __init__(self, decisions=None, seed=0, eager_timeouts=False, rng_after=True):
        self.rng = random.Random(seed)
        self.decisions = list(decisions) if decisions is not None else None
        self.rng_after = rng_after          # after the decision list is exhausted: PRNG (True) or default policy (False)
        self.eager_timeouts = eager_timeouts
        self.threads = {}
        self.order = []
        self.effects = []
        self.choices = []                   # (chosen index, number of options, index of default option)
        self.clock = 0
        self.main_sem = _Sem(0)
        self.tls = threading.local()
        self.last = None
        self.steps = 0
        self.handles = []
        self.stalls = []                    # (thread whose timed wait expired, thread it kept blocked on a lock it holds)
    # ---- called by managed threads
    def name(self):
        return getattr(self.tls, 'name', None)
    def effect(self, *e):
        self.effects.append((self.name() or 'main',) + e)
    def point(self, label, enabled=None, timeout_ok=False):
        n = self.name()
        if n is None:
            return 'go'                     # unmanaged (set-up code in the harness main thread)
        t = self.threads[n]
        t['enabled'], t['label'], t['timeout_ok'], t['why'] = enabled, label, timeout_ok, None
        self.main_sem.release()
        t['sem'].acquire()
        return t['why']
    def _begin(self, name):
        self.tls.name = name
        self.threads[name]['sem'].acquire()
    def _end(self):
        n = self.name()
        self.threads[n]['done'] = True
        self.main_sem.release()
    # ---- harness side
    def adopt(self, name):
        self.threads[name] = dict(sem=_Sem(0), enabled=None, done=False, label='start', timeout_ok=False, why=None, started=False)
        self.order.append(name)
    def spawn(self, name, fn):
        self.adopt(name)
        def body():
            self._begin(name)
            try:
                fn()
            finally:
                self._end()
        th = threading.Thread(target=body, daemon=True, name='sched-' + name)
        self.handles.append(th)
        th.start()
        return th
    def wrap_run(self, name, run):
        """Wrap a Thread.run (the session worker) so that it is managed under `name`."""
        def body(*a, **k):
            self._begin(name)
            try:
                return run(*a, **k)
            finally:
                self._end()
        return body
    def options(self):
        go, to = [], []
        for n in self.order:
            t = self.threads[n]
            if t['done']:
                continue
            en = t['enabled']
            if en is None or en():
                go.append((n, 'go'))
            elif t['timeout_ok']:
                to.append((n, 'timeout'))
        if go and not self.eager_timeouts:
            return go
        return go + to
    def run(self, max_steps=4000, stop_when=None):
        while self.steps < max_steps:
            opts = self.options()
            if not opts:
                if all(t['done'] for t in self.threads.values()):
                    return 'finished'
                return 'blocked'
            if stop_when is not None and stop_when():
                return 'stopped'
            default = 0
            for i, (n, why) in enumerate(opts):
                if n == self.last and why == 'go':
                    default = i
                    break
            if self.decisions:
                i = self.decisions.pop(0) % len(opts)
            elif self.decisions is not None and not self.rng_after:
                i = default
            else:
                i = self.rng.randrange(len(opts))
            self.choices.append((i, len(opts), default))
            n, why = opts[i]
            t = self.threads[n]
            t['why'] = why
            if why == 'timeout':
                self.clock += 1
                for n2, t2 in self.threads.items():
                    lk = t2.get('waiting_lock')
                    if n2 != n and not t2['done'] and lk is not None and lk.owner == n:
                        self.stalls.append((n, n2))
            self.last = n
            self.steps += 1
            t['sem'].release()
            self.main_sem.acquire()
        return 'step-limit'
    def abandon(self):
        """Release every parked thread so daemon threads do not pile up (they run freely to their end)."""
        for n, t in self.threads.items():
            if not t['done']:
                t['enabled'] = None
                t['why'] = 'abandon'
        # threads blocked on their semaphore are daemon threads; they are left parked (no CPU use)

S = None          # the current scheduler (set by the scenario runner)

class SLock:
    def __init__(self):
        self.owner = None; self.S = S
    def acquire(self, blocking=True, timeout=-1):
        me = self.S.name()
        if me is not None and me in self.S.threads: self.S.threads[me]['waiting_lock'] = self
        self.S.point('acq', enabled=lambda: self.owner is None)
        if me is not None and me in self.S.threads: self.S.threads[me]['waiting_lock'] = None
        self.owner = self.S.name() or 'main'
        return True
    def release(self):
        self.owner = None
        if getattr(self.S, 'release_points', False):
            # the statement after a critical section is not atomic with it: another thread may run right after the release
            # (opt-in per harness: the decision lists of recorded schedules count the schedule points)
            self.S.point('rel.done')
    def locked(self):
        return self.owner is not None
    def __enter__(self):
        self.acquire(); return self
    def __exit__(self, *a):
        self.release()

class SEvent:
    """threading.Event whose set() is a schedule point and an effect ('evset', <this event>)."""
    def __init__(self):
        self.flag = False; self.S = S
    def set(self):
        self.S.point('ev.set')
        self.flag = True
        self.S.effect('evset', self)
        self.S.point('ev.set.done')      # a waiter may run before the setter's next statement
    def clear(self):
        self.flag = False
    def is_set(self):
        return self.flag
    isSet = is_set
    def wait(self, timeout=None):
        self.S.point('ev.wait', enabled=lambda: self.flag, timeout_ok=timeout is not None)
        self.S.effect('waitres', self, self.flag)
        return self.flag

class SQueue:
    def __init__(self, maxsize=0, name='q'):
        self.d = collections.deque(); self.qname = name; self.S = S; self.maxsize = maxsize
    def put(self, x, block=True, timeout=None):
        self.S.point(self.qname + '.put', enabled=(None if self.maxsize <= 0 else (lambda: len(self.d) < self.maxsize)))
        self.d.append(x)
        self.S.effect(self.qname + '.put', x)
    def empty(self):
        self.S.point(self.qname + '.empty')
        return not self.d
    def qsize(self):
        return len(self.d)
    def get(self, block=True, timeout=None):
        if not block:
            self.S.point(self.qname + '.get_nowait')
            if not self.d:
                self.S.effect(self.qname + '.get', None)
                raise _q.Empty
        else:
            why = self.S.point(self.qname + '.get', enabled=lambda: bool(self.d), timeout_ok=timeout is not None)
            if why == 'timeout' and not self.d:
                self.S.effect(self.qname + '.get', None)
                raise _q.Empty
        x = self.d.popleft()
        self.S.effect(self.qname + '.get', x)
        return x
