"""C12: the worker is INSIDE a transport read (not in select) when the session is closed.

Session.run waits in select() and then calls `_transport_read()`.  Normally that read returns at once, but the
environment may make it sleep:
  * TLS: select reports the TCP socket readable as soon as ANY octet of a TLS record is there, `SSLSocket.recv` then
    waits inside OpenSSL for the rest of the record.  `BioTlsServer` is a TLS peer driven through `ssl.MemoryBIO`,
    so that it can put a truncated record on the wire (`BioChan.send_truncated`) and stay silent afterwards;
  * Unix / SSH (and TCP in general, select(2) BUGS: "select() may report a socket file descriptor as ready for
    reading, while nevertheless a subsequent read blocks"): spurious readiness.  Provoked by holding the worker
    between select and recv (the harness gate) and taking the octets that made the handle readable out of the
    socket / channel buffer before the worker is let into recv (`steal`).
`block_worker` puts a real session into that state and returns only once the worker has been sleeping inside
`_transport_read` for `settle` seconds; `scenario_blocked` then drives one close path.  Model: worker state
`WBlocked`, labels `Block` / `Unblock`, oracle hypothesis O6 of coq/Model/Close.v (a read sleeping on a handle is
woken by the local shutdown/close of that handle and returns no data).
"""
import socket, ssl, threading, time

from harness import c12_peers as P

NOTE = (b'<notification xmlns="urn:ietf:params:xml:ns:netconf:notification:1.0"><eventTime>2026-01-01T00:00:00Z'
        b'</eventTime><pad>')

# ----------------------------------------------------------------------------------------------------
# TLS peer over memory BIOs
# ----------------------------------------------------------------------------------------------------
class BioChan(object):
    """socket-like (recv / sendall / shutdown / close / settimeout) server end of a TLS connection whose records pass
    through memory BIOs: what goes on the wire is under the harness's control"""
    def __init__(self, conn, ctx):
        self.conn = conn
        self.inc, self.out = ssl.MemoryBIO(), ssl.MemoryBIO()
        self.obj = ctx.wrap_bio(self.inc, self.out, server_side=True)
        self.lock = threading.RLock()
        self.cut = False                # a truncated record is on the wire: nothing more can be sent
        self.wire_sent = 0
    def _flush(self):
        with self.lock:
            data = self.out.read()
        if data and not self.cut:
            self.conn.sendall(data); self.wire_sent += len(data)
    def _pump(self):
        d = self.conn.recv(65536)
        if not d: return False
        with self.lock: self.inc.write(d)
        return True
    def handshake(self):
        while True:
            try:
                with self.lock: self.obj.do_handshake()
                break
            except ssl.SSLWantReadError:
                self._flush()
                if not self._pump(): raise EOFError('client went away during the handshake')
        self._flush()                   # TLS 1.3: the session tickets
    def recv(self, n):
        while True:
            try:
                with self.lock: d = self.obj.read(n)
                return d
            except ssl.SSLWantReadError:
                self._flush()
                if not self._pump(): return b''
            except (ssl.SSLZeroReturnError, ssl.SSLEOFError):
                return b''
    def sendall(self, data):
        if self.cut: raise OSError('a truncated record is on the wire')
        with self.lock:
            self.obj.write(data)
        self._flush()
    def send_truncated(self, data, mode):
        """one record carrying `data`, of which only a part reaches the wire. mode: 'tail' all but the last 40 octets |
        'half' the first half | 'header' 3 of the 5 octets of the record header | 'byte' one octet"""
        with self.lock:
            self.obj.write(data)
            rec = self.out.read()
            self.cut = True
        keep = {'tail': len(rec) - 40, 'half': len(rec) // 2, 'header': 3, 'byte': 1}[mode]
        assert 0 < keep < len(rec), (keep, len(rec))
        self.conn.sendall(rec[:keep]); self.wire_sent += keep
        return keep, len(rec)
    def settimeout(self, t): self.conn.settimeout(t)
    def shutdown(self, how):
        self.conn.shutdown(how)
    def close(self):
        self.conn.close()

class BioTlsServer(object):
    """accepts ONE connection on 127.0.0.1:port, TLS handshake through memory BIOs, then a scripted `Peer` on it"""
    def __init__(self, files, hello='ok', rpc='hold', close_rpc='ok_close'):
        self.ctx = ssl.SSLContext(ssl.PROTOCOL_TLS_SERVER)
        self.ctx.load_cert_chain(files['srv'])
        self.ctx.verify_mode = ssl.CERT_NONE
        self.ls = socket.socket(socket.AF_INET, socket.SOCK_STREAM)
        self.ls.bind(('127.0.0.1', 0)); self.ls.listen(1)
        self.port = self.ls.getsockname()[1]
        self.args = (hello, rpc, close_rpc)
        self.peer = None; self.chan = None; self.hs_error = None
        self.ready = threading.Event()
        self.t = threading.Thread(target=self._acc, daemon=True, name='c12-biotls-acceptor'); self.t.start()
    def _acc(self):
        try:
            self.ls.settimeout(20)
            c, _ = self.ls.accept()
            c.settimeout(30)
            ch = BioChan(c, self.ctx)
            try:
                ch.handshake()
            except Exception as e:
                self.hs_error = type(e).__name__; c.close(); return
            self.chan = ch
            self.peer = P.Peer(ch, *self.args); self.peer.start()
        finally:
            self.ready.set()
            self.ls.close()

def open_tls_bio(files, hello='ok', rpc='hold', close_rpc='ok_close', hello_timeout=5, sock_timeout=10):
    srv = BioTlsServer(files, hello, rpc, close_rpc)
    s = P.probe_class('tls')(P.device_handler())
    s.HELLO_TIMEOUT = hello_timeout
    try:
        s.connect(host='127.0.0.1', port=srv.port, certfile=files['cli'], ca_certs=files['ca'],
                  protocol=ssl.PROTOCOL_TLS_CLIENT, timeout=sock_timeout)
        err = None
    except Exception as e:
        err = e
    srv.ready.wait(10)
    return s, srv.peer, err

# ----------------------------------------------------------------------------------------------------
# putting the worker to sleep inside _transport_read
# ----------------------------------------------------------------------------------------------------
def worker_in_read(s):
    """(True, since) when the last thing the worker logged is ReadBegin (it is inside _transport_read)"""
    with s._plock:
        for i in range(len(s._plog) - 1, -1, -1):
            lab, arg, w = s._plog[i]
            if not w: continue
            return (lab == 'ReadBegin'), s._ptimes[i]
    return False, None

def wait_asleep(s, settle, limit=3.0):
    t0 = P.now()
    while P.now() - t0 < limit:
        inside, since = worker_in_read(s)
        if inside and P.now() - since >= settle: return True
        time.sleep(0.005)
    return False

def steal(s, kind, n):
    """take n octets out of the session's receive side behind the worker's back (it is held at the gate)"""
    got = b''
    t0 = P.now()
    if kind == 'ssh':
        ch = P.unwrap(s._channel)
        while len(got) < n and P.now() - t0 < 2:
            if len(ch.in_buffer) > 0: got += ch.recv(n - len(got))
            else: time.sleep(0.002)
    else:
        sk = P.unwrap(s._socket)
        while len(got) < n and P.now() - t0 < 2:
            try: got += sk.recv(n - len(got), socket.MSG_DONTWAIT)
            except (BlockingIOError, InterruptedError, ssl.SSLWantReadError): time.sleep(0.002)
    return got

def block_worker(case, r, settle=0.2):
    """make the worker of r.s sleep inside _transport_read; the peer stays silent afterwards"""
    s, kind, how = r.s, case['transport'], case['block']
    if how in ('tail', 'half', 'header', 'byte'):
        assert kind == 'tls'
        keep, total = r.peer.chan.send_truncated(NOTE + b'x' * case.get('size', 600), how)
        r.extra['truncated_record'] = dict(on_wire=keep, record=total)
    elif how == 'spurious':
        s.at_gate.clear(); gate = threading.Event(); s.read_gate = gate
        frag = b'\n' * case.get('size', 1)
        assert r.peer._send(frag)
        assert s.at_gate.wait(3), 'the worker did not reach the gate'
        got = steal(s, kind, len(frag))
        assert got == frag, got
        s.read_gate = None; gate.set()
    else:
        raise ValueError(how)
    r.extra['asleep'] = wait_asleep(s, settle)      # reported in the evidence; the close path is checked all the same

def scenario_blocked(case, r, opn, submit, files, rpc_timeout=0.2):
    """case: transport, block (how the read is made to sleep), via (close | close_twice | close_session | with_ok | with_exc),
    pending (requests in flight)"""
    from ncclient.manager import Manager
    kind, via = case['transport'], case['via']
    if kind == 'tls' and case['block'] != 'spurious':
        r.s, r.peer, err = open_tls_bio(files, rpc='hold', close_rpc='silent')
    else:
        r.s, r.peer, err = opn(rpc='hold', close_rpc='silent')
    assert err is None, err
    s = r.s
    s._plog_add('HelloOk')
    submit(r, case.get('pending', 0))
    block_worker(case, r)
    if via in ('close', 'close_twice'):
        s.close(); r.t_ret = P.now()
        if via == 'close_twice':
            try: s.close()
            except Exception as e: r.raised = 'second close: ' + type(e).__name__
            r.t_ret = P.now()
    else:
        m = Manager(s, P.device_handler(), timeout=rpc_timeout)
        try:
            if via == 'close_session':
                s._plog_add('CsBegin'); m.close_session()
            elif via == 'with_ok':
                with m:
                    s._plog_add('MgrExit', 0); s._plog_add('CsBegin')
            else:
                with m:
                    s._plog_add('MgrExit', 1); s._plog_add('CsBegin')
                    raise KeyError('body failed')
        except Exception as e:
            r.raised = type(e).__name__
        r.t_ret = P.now()
        s._plog_add('CsRet')
    return r

def slept_reads(plog, ptimes, min_sleep=0.15):
    """indices (into plog) of the worker's ReadBegin entries whose read took at least min_sleep seconds (or never
    returned): the read slept inside the transport"""
    res = []
    for i, (lab, arg, w) in enumerate(plog):
        if not (w and lab == 'ReadBegin'): continue
        t_end = None
        for j in range(i + 1, len(plog)):
            if plog[j][2] and plog[j][0] == 'Read': t_end = ptimes[j]; break
        if t_end is None or t_end - ptimes[i] >= min_sleep: res.append(i)
    return res

def quick_cases(rng):
    """quick tier: the worker asleep in a read on every transport x the close paths"""
    cs = []
    for i, (how, via, n) in enumerate([('tail', 'close', 1), ('header', 'close_session', 0), ('half', 'with_exc', 2),
                                       ('byte', 'with_ok', 1)]):
        cs.append(dict(transport='tls', path='blocked_read', block=how, via=via, pending=n, size=rng.choice([300, 600, 2000, 6000])))
    cs.append(dict(transport='unix', path='blocked_read', block='spurious', via='close', pending=1))
    cs.append(dict(transport='unix', path='blocked_read', block='spurious', via=rng.choice(['close_session', 'with_ok', 'with_exc']), pending=rng.randint(0, 2)))
    cs.append(dict(transport='ssh', path='blocked_read', block='spurious', via='close', pending=1))
    cs.append(dict(transport='ssh', path='blocked_read', block='spurious', via=rng.choice(['close_session', 'with_ok', 'with_exc']), pending=rng.randint(0, 2)))
    return cs

def thorough_cases(kind, rng):
    cs = []
    vias = ['close', 'close_twice', 'close_session', 'with_ok', 'with_exc']
    if kind == 'tls':
        for how in ('tail', 'half', 'header', 'byte'):
            for via in vias:
                cs.append(dict(transport='tls', path='blocked_read', block=how, via=via, pending=rng.randint(0, 3),
                               size=rng.choice([100, 600, 2000, 6000, 15000])))
    for via in (vias if kind != 'tls' else []):      # SSLSocket.recv takes no flags: nothing can be taken from under it
        cs.append(dict(transport=kind, path='blocked_read', block='spurious', via=via, pending=rng.randint(0, 3), size=rng.choice([1, 3])))
    return cs
