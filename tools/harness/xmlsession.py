"""Sessions: several INDEPENDENT constructor programs run in one process (C17).

xml_.py's constructors are lambdas with a mutable default (`attrs={}`) and keyword attributes (`**extra`).  A process
builds many trees; nothing a call is given may show in a tree that a LATER call builds (through the default objects,
module state or a dictionary the caller passes again).  This module holds what is independent of the implementation:

  * `SpecForest`  - the tree every program specifies, read off its own calls (no ncclient, no lxml);
  * `defaults_snapshot` - the default arguments of every function of a module, by value;
  * `gen_session` - the generator.

case  : {'kind': 'session', 'dicts': [[[k, v]..]..], 'steps': [step..]}
step  : ['new_ele', tag, aarg, kw] | ['new_ele_ns', tag, ns, aarg, kw] | ['new_ele_nsmap', tag, [[prefix|None, uri]..], aarg, kw]
      | ['sub_ele', tree, path, tag, aarg, kw] | ['sub_ele_ns', tree, path, tag, ns, aarg, kw]
      | ['dict_set', i, k, v]        the caller's own  d_i[k] = v
      | ['to_xml', tree]             serialise that tree now and read it back
aarg  : None (attrs omitted) | ['d', i, byname] (the caller's i-th dictionary) | ['l', [[k, v]..], byname] (a literal);
        byname: passed as attrs=... instead of positionally
kw    : [[k, v]..] keyword attributes (**{k: v}); never the parameter names of the helpers or of lxml (attrib, nsmap)
"""
import types
from harness import xmlgen as X

B = X.B
BASE = 'urn:ietf:params:xml:ns:netconf:base:1.0'
CTORS = ('new_ele', 'new_ele_ns', 'new_ele_nsmap', 'sub_ele', 'sub_ele_ns')


# ---------------------------------------------------------------- what a program specifies
class SpecForest:
    """The trees a sequence of constructor calls specifies.  Rules (property text + notes/C17.md): new_ele /
    new_ele_nsmap make an element in the NETCONF base namespace, new_ele_ns / sub_ele_ns in the namespace given (none
    given: no namespace, which every reader resolves to the default namespace in scope - only an nsmap declares one),
    sub_ele in its parent's namespace; the attributes are those of the mapping passed (none when omitted) and the
    keyword attributes, a keyword winning; a new element has no text, no tail, no children and is the last child."""

    def __init__(self, dicts):
        self.dicts = [dict((k, v) for k, v in d) for d in dicts]
        self.trees = []

    def attrs(self, aarg, kw):
        if aarg is None: a = {}
        elif aarg[0] == 'd': a = dict(self.dicts[aarg[1]])
        else: a = dict((k, v) for k, v in aarg[1])
        a.update(dict((k, v) for k, v in kw))
        return a

    def node(self, t, path):
        n = self.trees[t]
        for i in path: n = n['kids'][i]
        return n

    @staticmethod
    def mk(ns, tag, attrs, default):
        return {'ns': ns or None, 'tag': tag, 'attrs': attrs, 'kids': [], 'default': default or None}

    def apply(self, st):
        """returns the specification of the element the call makes (None for the caller's own assignment)"""
        k = st[0]
        if k == 'new_ele':
            e = self.mk(BASE, st[1], self.attrs(st[2], st[3]), None); self.trees.append(e)
        elif k == 'new_ele_ns':
            e = self.mk(st[2], st[1], self.attrs(st[3], st[4]), None); self.trees.append(e)
        elif k == 'new_ele_nsmap':
            e = self.mk(BASE, st[1], self.attrs(st[3], st[4]), dict((p, u) for p, u in st[2]).get(None)); self.trees.append(e)
        elif k == 'sub_ele':
            p = self.node(st[1], st[2])
            e = self.mk(p['ns'], st[3], self.attrs(st[4], st[5]), p['default']); p['kids'].append(e)
        elif k == 'sub_ele_ns':
            p = self.node(st[1], st[2])
            e = self.mk(st[4] or p['default'], st[3], self.attrs(st[5], st[6]), p['default']); p['kids'].append(e)
        elif k == 'dict_set':
            self.dicts[st[1]][st[2]] = st[3]; e = None
        else:
            e = None
        return e

    @classmethod
    def xnode_of(cls, e):
        return [0, [[B(e['ns'])] if e['ns'] else [], B(e['tag'])],
                [[X._lx_name(k), B(v)] for k, v in e['attrs'].items()], [cls.xnode_of(c) for c in e['kids']]]

    def xnode(self, t): return self.xnode_of(self.trees[t])


# ---------------------------------------------------------------- default arguments, by value
def freeze(v):
    if isinstance(v, dict): return ['dict', sorted(([freeze(k), freeze(x)] for k, x in v.items()), key=repr)]
    if isinstance(v, (list, tuple)): return [type(v).__name__, [freeze(x) for x in v]]
    if isinstance(v, (set, frozenset)): return [type(v).__name__, sorted((freeze(x) for x in v), key=repr)]
    if v is None or isinstance(v, (str, bytes, int, float, bool)): return repr(v)
    return '<%s>' % type(v).__name__


def defaults_snapshot(mod):
    """{name: [__defaults__, __kwdefaults__] by value} of every function (def or lambda) defined in the module"""
    out = {}
    for name, f in sorted(vars(mod).items()):
        if isinstance(f, types.FunctionType) and f.__module__ == mod.__name__:
            out[name] = [freeze(f.__defaults__), freeze(f.__kwdefaults__)]
    return out


def defaults_diff(a, b):
    for k in sorted(set(a) | set(b)):
        if a.get(k) != b.get(k): return '%s: %r -> %r' % (k, a.get(k), b.get(k))
    return None


def ctor_default_attrs(mod, name):
    """the attrs default object of a constructor as [[k, v]..] (what a call without attrs is bound to)"""
    f = getattr(mod, name, None)
    for d in (getattr(f, '__defaults__', None) or ()):
        if isinstance(d, dict):
            return [[str(k), str(v)] for k, v in d.items()]
    return []


# ---------------------------------------------------------------- generator
TAGS = ['rpc', 'get', 'get-config', 'filter', 'a', 'b', 'config', 'é', 'item', 'close-session']
NSS = [None, BASE, 'urn:u', 'urn:v', 'urn:w']
KW_NAMES = ['operation', 'type', 'key', 'select', 'message-id', 'a', 'b', 'é', '{urn:u}a', '{urn:v}key']
AT_NAMES = ['a', 'b', 'message-id', 'type', 'é', 'operation']


def gen_pairs(rng, names, sizes):
    d = []
    for _ in range(rng.choice(sizes)):
        u = rng.choice([None, None, None, 'urn:u', 'urn:v'])
        l = rng.choice(names)
        k = l if l.startswith('{') or not u else '{%s}%s' % (u, l)
        if k in [x[0] for x in d]: continue
        d.append([k, X.gen_text(rng, 3, 0.1)])
    return d


def gen_aarg(rng, ndicts, bare):
    r = rng.random()
    if bare or r < 0.4: return None
    byname = rng.random() < 0.25
    if ndicts and r < 0.65: return ['d', rng.randrange(ndicts), byname]
    return ['l', gen_pairs(rng, AT_NAMES, [0, 0, 1, 1, 2]), byname]


def gen_kw(rng, bare):
    if bare or rng.random() < 0.5: return []
    return gen_pairs(rng, KW_NAMES, [1, 1, 2])


def gen_nsmap(rng):
    m = []
    for _ in range(rng.choice([0, 1, 1, 2, 3])):
        p = rng.choice([None, None, 'nc', 'p', 'q'])
        if p in [x[0] for x in m]: continue
        m.append([p, rng.choice([BASE, BASE, 'urn:u', 'urn:v'])])
    return m


def gen_session(rng):
    ndicts = rng.choice([0, 1, 1, 2])
    dicts = [gen_pairs(rng, AT_NAMES, [0, 0, 1, 2]) for _ in range(ndicts)]
    steps, kids = [], []                     # kids[t] = {path: number of children}
    def root(bare):
        r = rng.random(); tag = rng.choice(TAGS)
        a, kw = gen_aarg(rng, ndicts, bare), gen_kw(rng, bare)
        if r < 0.4: steps.append(['new_ele', tag, a, kw])
        elif r < 0.7: steps.append(['new_ele_ns', tag, rng.choice(NSS), a, kw])
        else: steps.append(['new_ele_nsmap', tag, gen_nsmap(rng), a, kw])
        kids.append({(): 0})
        return len(kids) - 1
    def sub(t, bare, which=None):
        path = rng.choice(sorted(kids[t])); tag = rng.choice(TAGS)
        a, kw = gen_aarg(rng, ndicts, bare), gen_kw(rng, bare)
        if which == 'sub_ele' or (which is None and rng.random() < 0.55): steps.append(['sub_ele', t, list(path), tag, a, kw])
        else: steps.append(['sub_ele_ns', t, list(path), tag, rng.choice(NSS), a, kw])
        kids[t][path + (kids[t][path],)] = 0; kids[t][path] += 1
    for _ in range(rng.randint(2, 4)):
        # one program: mostly with attributes (keywords, dictionaries), sometimes written entirely without
        bare = rng.random() < 0.3
        t = root(bare)
        for _ in range(rng.randint(0, 4)):
            if ndicts and rng.random() < 0.12:
                steps.append(['dict_set', rng.randrange(ndicts), rng.choice(AT_NAMES), X.gen_text(rng, 3, 0.1)])
            # now and then the caller goes back to a tree it began earlier
            sub(rng.randrange(len(kids)) if rng.random() < 0.2 else t, bare and rng.random() < 0.8)
        if rng.random() < 0.3: steps.append(['to_xml', rng.randrange(len(kids))])
    # the last programs of the process are written without any attribute, through each of the five constructors
    for k in rng.sample(['new_ele', 'new_ele_ns', 'new_ele_nsmap'], 3):
        if k == 'new_ele': steps.append(['new_ele', 'probe', None, []])
        elif k == 'new_ele_ns': steps.append(['new_ele_ns', 'probe', rng.choice(NSS), None, []])
        else: steps.append(['new_ele_nsmap', 'probe', gen_nsmap(rng), None, []])
        kids.append({(): 0})
        t = len(kids) - 1
        if rng.random() < 0.7: sub(t, True, 'sub_ele')
        if rng.random() < 0.7: sub(t, True, 'sub_ele_ns')
    return {'kind': 'session', 'dicts': dicts, 'steps': steps}
