"""Byte-level replay of the scheduled real runs on the composed model (coq/Model/SessionE2E.v, runner E2E).

The LTS harness (lts.py) records every `_transport_read` result in the effect log.  Here the recorded reads are fed, as
OCTETS, to the extracted composed model (framing model of the session's base + concrete classifier + session LTS) in
the global order of the effects; every message label (LRecv kind id / LRaise code) is then COMPUTED by the model from
the octets and compared with the one the harness derived from the real code's `_dispatch_message` / error broadcast,
and the model's final state with the observables of the run (compare() of lts_check).  Two sources of runs:
  * a sample of the runs lts_check.check already made (one read per server message);
  * fresh scenarios whose server stream is RE-CUT into reads of scripted sizes (spec['seg'], cyclic; a read takes
    whatever is available up to that size, so one read may hold several messages or end inside a chunk header / a
    delimiter / a character), under base 1.0 and 1.1, with the same oracles of the property on the real code."""
import os
from . import lts_check
from .lts_check import run_case, describe, gen_spec, qualify_of, ORACLES

# sizes of the successive reads (cyclic). Octet-by-octet reads of long streams exceed the scheduler's step limit: single
# octets are mixed with larger reads here, the pure [1] segmentation is used on the two-message scenarios (PAIRS)
SEGS = [[1, 1, 1, 60], [2, 300], [3, 1, 500], [5, 40], [7, 3, 1000], [64], [1000000], [1000000], [4, 1000000], [97, 1, 30], [13, 29], [200, 1, 1, 1]]

_model = [None, False]
def e2e_model(ctx=None):
    """the extracted runner of Glue/E2E_glue.v (built on first use)"""
    if not _model[1]:
        _model[1] = True
        from vlib import build
        from vlib.model import Model
        with build.Lock():
            ok, log, _ = build.make(['Glue/E2E_glue.vo'])
            if ok:
                ok, log = build.build_runner('E2E')
        if ok:
            _model[0] = Model('E2E')
        elif ctx is not None:
            ctx.disagree({'e2e': 'runner'}, 'E2E runner builds', log[-400:], 'extraction of Glue/E2E_glue.v')
    return _model[0]

def e2e_call(sc):
    """(call for the E2E runner, the LTS labels the harness derived from the real code)"""
    sc.keep_reads = True
    try:
        labs = sc.labels()
    finally:
        sc.keep_reads = False
    effects, expected = [], []
    for l in labs:
        if l[0] == 30:
            effects.append([30, bytes(l[1])])
        elif l[0] in (6, 21):
            effects.append([31]); expected.append(l)          # the model computes the label from the octets
        elif l[0] == 11:
            effects.append([30, b'']); expected.append(l)     # end-of-file is an empty read
        else:
            effects.append(l); expected.append(l)
    ids = [[mid.encode(), 100 + rid] for mid, rid in sc.rid_of_id.items()]
    profile = sc.spec.get('profile', 'default')
    call = [1 if qualify_of(profile) else 0, 1 if sc.spec.get('base11') else 0, 1 if profile == 'huawei' else 0, ids, effects]
    return call, expected

def e2e_compare(sc, call, expected, mo):
    if isinstance(mo, str) or mo[0] == 999:
        return 'E2E runner rejected the call: %r' % (mo,)
    got = mo[10]
    n = min(len(got), len(expected))
    for i in range(n):
        if got[i] != expected[i]:
            return 'label %d: from the octets read the composed model derives %r, the real code did %r' % (i, got[i], expected[i])
    if mo[0] != mo[1]:
        eff = call[4][mo[0]]
        return 'effect %d of %d not accepted by SessionE2E.estep: %r (labels so far %r)' % (mo[0], mo[1], eff if eff[0] != 30 else [30, len(eff[1])], got[-6:])
    if got != expected:
        return 'labels: model %r, real code %r' % (got[n:], expected[n:])
    return lts_check.compare(sc, mo[:10])

# ---- an independent statement on the implementation's observables: what was dispatched = the messages of the stream ----
def stream_messages(stream, base11):
    """(texts of the complete well-framed messages of the octet stream, broken) by a decoder written for this check
    (RFC 4742 delimiter / RFC 6242 chunks, sizes as any digit string like the code); stops at a frame that is not UTF-8"""
    out = []
    if not base11:
        parts = stream.split(b']]>]]>')
        for m in parts[:-1]:
            try: out.append(m.decode('utf-8').strip())
            except UnicodeDecodeError: return out, True
        return out, False
    i, cur = 0, []
    while i < len(stream):
        if stream.startswith(b'\n##\n', i):
            try: out.append(b''.join(cur).decode('utf-8'))
            except UnicodeDecodeError: return out, True
            cur = []; i += 4; continue
        j = i + 2
        if not stream.startswith(b'\n#', i):
            return out, not b'\n#'.startswith(stream[i:i + 2])
        while j < len(stream) and 48 <= stream[j] <= 57: j += 1
        if j >= len(stream):
            return out, False                       # header incomplete
        if j == i + 2 or stream[j] != 10:
            return out, not (j == i + 2 and stream[j:j + 1] == b'#' and j + 1 >= len(stream))
        n = int(stream[i + 2:j])
        if j + 1 + n > len(stream):
            return out, False                       # chunk incomplete
        cur.append(stream[j + 1:j + 1 + n]); i = j + 1 + n
    return out, False

def oracle_stream(sc):
    """Every message the session dispatched is the next complete message of the octets it read (none skipped, altered,
    merged or repeated), and a session thread that went back to wait for input has dispatched every complete message."""
    effs = sc.S.effects[:sc.n_effects]
    stream = b''.join(e[3] for e in effs if e[1] == 'read' and e[2] == 'data')
    msgs, broken = stream_messages(stream, bool(sc.spec.get('base11')))
    disp = [e[2] for e in effs if e[1] == 'dispatch']
    for i, d in enumerate(disp):
        if i >= len(msgs) or d != msgs[i]:
            return ('dispatch %d is not message %d of the octets read: dispatched %r, the stream holds %r' % (i, i, d[:120], (msgs[i][:120] if i < len(msgs) else None)), 'dispatch_not_in_stream')
    ended = any(e[1] in ('errbcast', 'exit') or (e[1] == 'close') for e in effs)
    waiting = sc.result in ('finished', 'blocked') and getattr(sc, 'blocked_at', {}).get('W', ('', False))[0] == 'select'
    if not ended and waiting and len(disp) < len(msgs):
        return ('the session read %d complete messages but dispatched only %d and waits for more input: message %r is held back' % (len(msgs), len(disp), msgs[len(disp)][:120]), 'message_held_back')
    return None

def seg_spec(rng, pid):
    spec = gen_spec(rng, pid)
    spec['seg'] = list(rng.choice(SEGS)) if rng.random() < 0.8 else [rng.randint(8, 300) for _ in range(rng.randint(1, 4))]
    spec['base11'] = rng.random() < 0.6
    return spec

# scenarios in which two replies are certainly available to one read: the server answers only after it has received
# both requests, in reverse order, and the reads are large
PAIRS = {
    'C03': [dict(profile='default', base11=b, seg=s, clients=[[('rpc', True)], [('rpc', True)]], server=[('wait_all',), ('reply', 1), ('reply', 0)], eager=False)
            for b in (False, True) for s in ([1000000], [1], [150, 7], [166, 1000000])],
    'C04': [dict(profile='default', base11=b, seg=s, clients=[[('rpc', True)], [('rpc', False), ('rpc', False)]], server=[('wait_all',), ('reply', 2), ('partial', 0, 1), ('eof',)], eager=False)
            for b in (False, True) for s in ([1000000], [3], [171, 2])],
    'C11': [dict(profile=p, base11=b, seg=s, clients=[[('rpc', True)], [('take', True), ('take', True), ('take', False)]],
                 server=[('notif', 1), ('wait_all',), ('notif', 2), ('reply', 0)], eager=False)
            for b in (False, True) for s in ([1000000], [2], [139, 1000000]) for p in ('default', 'junos')],
}

def replay_runs(ctx, pid, runs, n_sample, n_seg):
    """Byte-level replay (see the module docstring). `runs`: the finished scenarios of lts_check.check."""
    model = e2e_model(ctx)
    oracle = ORACLES[pid]
    rng = ctx.rng
    sample = list(runs) if len(runs) <= n_sample else rng.sample(list(runs), n_sample)
    fresh = []
    for spec in PAIRS.get(pid, []):
        for seed in range(2 if ctx.tier == 'quick' else 12):
            fresh.append(run_case(dict(spec), seed=seed))
    for _ in range(n_seg):
        fresh.append(run_case(seg_spec(rng, pid), seed=rng.randrange(1 << 30)))
    todo = [(sc, False) for sc in sample] + [(sc, True) for sc in fresh]
    calls = [e2e_call(sc) for sc, _ in todo]
    outs = model.batch([c for c, _ in calls]) if model else [None] * len(todo)
    nb = nmsg = 0
    for (sc, is_fresh), (call, expected), mo in zip(todo, calls, outs):
        case = describe(sc.spec, sc.decisions_used)
        case['lts'] = pid; case['e2e'] = True
        reads = [e[1] for e in call[4] if e[0] == 30 and e[1]]
        nb += sum(len(r) for r in reads); nmsg += sum(1 for l in expected if l[0] == 6)
        if is_fresh:
            ctx.count(case, nontrivial=len(sc.rpcs) > 0, key=[sc.spec, sc.decisions_used])
            ctx.traces += 1
            ctx.hist('e2e_seg', str(sc.spec.get('seg'))[:24]); ctx.hist('e2e_base', '1.1' if sc.spec.get('base11') else '1.0')
        ctx.hist('e2e_reads_per_run', min(len(reads), 20) if len(reads) < 20 else '20+')
        ctx.hist('e2e_msgs_in_run', sum(1 for l in expected if l[0] == 6))
        per, cur = 0, 0
        for e in call[4]:
            if e[0] == 30: cur = 0
            elif e[0] == 31: cur += 1; per = max(per, cur)
        ctx.hist('e2e_max_msgs_in_one_read', per)
        if mo is not None:
            d = e2e_compare(sc, call, expected, mo)
            if d:
                ctx.disagree(case, 'SessionE2E derives the labels from the octets read, accepts the trace and predicts the observables', d,
                             'byte-level replay against Model/SessionE2E.v', theorem='E2E_*')
        if is_fresh:
            if sc.result == 'step-limit':
                ctx.disagree(case, 'run terminates', 'step limit reached', 'scheduler step limit')
            f = oracle(sc) or oracle_stream(sc)
            if f:
                ctx.fail(case, f[0], sig=None, expected='property %s' % pid, actual=f[0])
    ctx.extra['e2e_byte_level_replay'] = dict(runs_replayed=len(todo), of_which_resegmented=len(fresh), octets_fed=nb, messages_classified=nmsg)

def search_seg(ctx, pid, n=600):
    """a re-segmented scenario on which the property's oracle fails on the implementation"""
    oracle = ORACLES[pid]
    def hit(sc):
        f = oracle(sc) or oracle_stream(sc)
        if f:
            return dict(case=dict(describe(sc.spec, sc.decisions_used), lts=pid, e2e=True), what=f[0], sig=None, expected='property %s' % pid, actual=f[0])
    for spec in PAIRS.get(pid, []):
        for seed in range(12):
            r = hit(run_case(dict(spec), seed=seed))
            if r: return r
    for i in range(n):
        r = hit(run_case(seg_spec(ctx.rng, pid), seed=i))
        if r: return r
    return None
