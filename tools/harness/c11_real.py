"""C11 on the real stack (no scheduler, no fake transport): the library's own Session / UnixSocketSession,
DefaultXMLParser, NotificationHandler, RPCReplyListener, RPC and Manager.

Three families of cases, each a plain dict that a replay file can carry:

  real_wire  deterministic, single-threaded.  An octet stream = the framed messages of a history (replies to pending
             requests in any order, numbered notifications; small and multi-read sizes; ASCII and multi-byte text; 1.0
             end-of-message framing or 1.1 chunks; optional XML declaration) is handed to `session.parser.parse` read by
             read (the list of read lengths is part of the case: 4096-octet reads of server bursts, the tail of a large
             message sharing a read with whatever follows it, fixed sizes, random cuts, one read).  After EVERY read the
             consumer polls `Manager.take_notification(block=False)` until it gets None.
             Oracle (the property sentence on observables, offsets known from the construction of the stream): the
             notifications taken so far are exactly those whose last terminator octet has been read - each once, in the
             order sent, text equal to what was sent; a request is completed (with its own reply, no error) exactly when
             its reply's last terminator octet has been read; `parse` never raises (in a live session that ends the
             session); no errback; the session still reports connected.
  real_live  the UnixSocketSession worker thread over a socketpair, real hello exchange (`_post_connect`), requests made
             and notifications taken through `Manager`.  The server writes the stream in bursts with short pauses (so the
             tail of a multi-read reply and the messages behind it arrive together); a blocking consumer
             (`take_notification(True, t)`) must get every notification in order, the requests their replies, then
             `take_notification(False)` is None and `Manager.connected` still holds.
  real_take  the (block, timeout) parameter space of `Manager.take_notification` on a live session, positional / keyword /
             default forms, block in {True, False, 1, 0}, timeout in {None, 0, 0.0, small, large}.  Oracle = the last
             sentence of the property read with `queue.Queue.get` semantics: nothing queued and non-blocking -> None at
             once whatever the timeout; nothing queued, blocking, timeout t >= 0 -> None after t (not before t, not later
             than t + slack; t = 0 is "at once"); blocking without timeout -> does not return while nothing is queued and
             returns the notification once one arrives; blocking with a long timeout and an arrival inside it -> that
             notification, at arrival; something queued -> the head of the queue at once for EVERY (block, timeout).

  real_ops   deterministic like real_wire, but the application also ISSUES operations through `Manager` while received
             notifications wait untaken in the queue (second / third create_subscription in every combination of filter,
             stream_name, start_time, stop_time; get, get_config, lock, ... ; the profile's vendor operations; async or
             sync mode), their replies scripted; oracle: an independent FIFO of what has been received and not yet taken -
             every take returns its head, an operation changes nothing (see the section "real_ops" below).

Nothing here looks at the source; timing bounds are wall-clock with wide margins (a hang is 2 s)."""
import socket, threading, time, re

BASE = 'urn:ietf:params:xml:ns:netconf:base:1.0'
NOTIF_NS = 'urn:ietf:params:xml:ns:netconf:notification:1.0'
DELIM = b']]>]]>'
DECL = '<?xml version="1.0" encoding="UTF-8"?>'
PROFILES = ['default', 'junos', 'csr', 'nexus', 'iosxr', 'iosxe', 'huawei', 'huaweiyang', 'alu', 'h3c', 'hpcomware', 'sros',
            'ericsson', 'ciena']
PLACEHOLDER_ID = 'urn:uuid:' + '0' * 36
READ = 4096                       # what the socket transports read at most per call
TRANSPORTS = ('unix', 'ssh', 'tls')
UNI = 'Zürich – café \U0001F600 '

# ------------------------------------------------------------------ texts, framing, layout
def notif_text(n, size=0, uni=False):
    head = ('<notification xmlns="%s"><eventTime>2026-10-01T00:%02d:%02dZ</eventTime><ev xmlns="urn:example:ev"><seq>n%d</seq><t>'
            % (NOTIF_NS, (n // 60) % 60, n % 60, n))
    tail = '</t></ev></notification>'
    unit = (UNI if uni else '') + 'event %d ' % n
    body = ''
    while len((head + body + tail).encode()) < size:
        body += unit
    return head + body + tail

def reply_text(mid, size=0):
    head = '<rpc-reply xmlns="%s" message-id="%s"><data><x xmlns="urn:example:x">' % (BASE, mid)
    tail = '</x></data></rpc-reply>'
    n = max(0, (size - len(head) - len(tail) + 11) // 12)
    return head + ''.join('<i>%05d</i>' % i for i in range(n)) + tail

def frame(octets, base, chunk):
    if base == 10:
        return octets + DELIM
    if not chunk or chunk >= len(octets):
        return b'\n#%d\n' % len(octets) + octets + b'\n##\n'
    out = []
    for i in range(0, len(octets), chunk):
        c = octets[i:i + chunk]
        out.append(b'\n#%d\n' % len(c) + c)
    return b''.join(out) + b'\n##\n'

def layout(case, ids=None):
    """-> (stream octets, [(kind, index, text, start offset, end offset)]); ids[k] = message-id of request k."""
    ids = ids or {}
    out, pos, stream = [], 0, []
    for m in case['msgs']:
        if m[0] == 'reply':
            text = reply_text(ids.get(m[1], PLACEHOLDER_ID), m[2])
        else:
            text = notif_text(m[1], m[2], bool(m[3]) if len(m) > 3 else False)
        if case.get('decl'):
            text = DECL + text
        fr = frame(text.encode(), case['base'], case.get('chunk', 0))
        if case.get('nl') and case['base'] == 10:
            fr = b'\n' + fr                      # servers commonly put a line feed between messages (stripped by the client)
        out.append((m[0], m[1], text, pos, pos + len(fr)))
        stream.append(fr); pos += len(fr)
    return b''.join(stream), out

def split_reads(lengths_or_cuts, total):
    """normalise a list of read lengths to cover exactly `total` octets"""
    reads, s = [], 0
    for n in lengths_or_cuts:
        n = int(n)
        if n <= 0 or s >= total: continue
        n = min(n, total - s); reads.append(n); s += n
    if s < total:
        reads.append(total - s)
    return reads

def bursts_to_reads(cuts, total, read=READ):
    """the server writes [c0,c1), [c1,c2), ...; the client takes each burst in reads of at most `read` octets"""
    pts = sorted({c for c in cuts if 0 < c < total}) + [total]
    reads, a = [], 0
    for b in pts:
        n = b - a
        while n > 0:
            k = min(read, n); reads.append(k); n -= k
        a = b
    return reads

# ------------------------------------------------------------------ real_wire
def _session(profile, base, sax=False):
    from ncclient import manager
    from ncclient.transport.unixSocket import UnixSocketSession
    from ncclient.transport.session import NotificationHandler, NetconfBase, SessionListener
    dh = manager.make_device_handler({'name': profile, 'use_filter': True} if sax else {'name': profile})
    ses = UnixSocketSession(dh)
    ses._connected = True
    if base == 11:
        ses._base = NetconfBase.BASE_11
    ses.add_listener(NotificationHandler(ses._notification_q))       # what _post_connect installs (real_live runs the real one)
    errs = []
    class Watch(SessionListener):
        def callback(self, root, raw): pass
        def errback(self, err): errs.append(err)
    ses.add_listener(Watch())
    if sax:
        # device_params use_filter=True: the profile's own parser (Junos: the streaming SAX filter), installed as
        # SSHSession.connect installs it once the session is established
        ses.parser = dh.get_xml_parser(ses)
    m = manager.Manager(ses, dh, timeout=5)
    m.async_mode = True
    return ses, m, errs

FILTER = '<data><x><i/></x></data>'        # selects every element of reply_text: the filtered reply is the whole reply

def xml_shape(text):
    """independent reading of a message (ElementTree): (tag, attributes, text, children), white space between elements dropped"""
    import xml.etree.ElementTree as ET
    def c(e):
        return (e.tag, tuple(sorted(e.attrib.items())), (e.text or '').strip(), tuple(c(k) for k in e), (e.tail or '').strip())
    try:
        return c(ET.fromstring(text.encode() if isinstance(text, str) else text))
    except Exception as e:
        return ('not well-formed', type(e).__name__)

def run_wire(case):
    """-> None or (what, sig)"""
    ses, m, errs = _session(case['profile'], case['base'], bool(case.get('sax')))
    nreq = 1 + max([x[1] for x in case['msgs'] if x[0] == 'reply'] or [-1])
    rpcs, ids = {}, {}
    filtered = set(case.get('filtered') or [])    # requests issued with filter_xml (streaming-filter mode only)
    def need(k):
        if k not in rpcs:
            rpcs[k] = m.rpc('<get-x xmlns="urn:example:x"/>', filter_xml=FILTER) if k in filtered else m.get()
            ids[k] = rpcs[k].id
            return True
        return False
    if not case.get('lazy'):
        for k in range(nreq): need(k)
    stream, lay = layout(case, ids)
    reads = split_reads(case['reads'], len(stream))
    sent_n = [(i, t) for kind, i, t, a, b in lay if kind == 'notif']
    taken, fed, done = [], 0, set()
    for ri, n in enumerate(reads):
        # a reply can only follow its request: the request exists before the first octet of its reply arrives
        fresh = False
        for kind, i, t, a, b in lay:
            if kind == 'reply' and a < fed + n:
                fresh = need(i) or fresh
        if fresh:
            stream, lay = layout(case, ids)
        data = stream[fed:fed + n]
        where = 'read %d of %d (octets %d..%d)' % (ri + 1, len(reads), fed, fed + n)
        try:
            ses.parser.parse(data)
        except Exception as e:
            return ('%s: parser raised %s: %s - in a running session this ends the session and fails every pending request'
                    % (where, type(e).__name__, str(e)[:120]), 'wire_parse_raised')
        fed += n
        while True:
            try:
                x = m.take_notification(block=False)
            except Exception as e:
                return ('%s: take_notification(block=False) raised %s' % (where, type(e).__name__), 'wire_take_raised')
            if x is None: break
            taken.append(x.notification_xml)
            if len(taken) > len(sent_n) + 2: break
        due = [t for kind, i, t, a, b in lay if kind == 'notif' and b <= fed]
        got = [x.strip() for x in taken]
        if got != due:
            if len(got) < len(due):
                k = len(got)
                if got == due[:k]:
                    return ('%s: notification n%d has been received completely (its terminator ended at octet %d) but take_notification '
                            'returns None: %d taken, %d sent so far' % (where, sent_n[k][0], [b for kd, i, t, a, b in lay if kd == 'notif'][k], k, len(due)),
                            'wire_notif_missing')
            return ('%s: notifications taken %r differ from those sent and completely received %r'
                    % (where, [_short(x) for x in got], [_short(x) for x in due]), 'wire_notif_mismatch')
        for kind, i, t, a, b in lay:
            if kind != 'reply' or i not in rpcs: continue
            r = rpcs[i]
            if r.event.is_set() != (b <= fed):
                return ('%s: request %d %s although the last octet of its reply (ends at %d) %s' %
                        (where, i, 'is completed' if r.event.is_set() else 'is still pending', b,
                         'has not arrived' if b > fed else 'has been read'), 'wire_reply_timing')
            if b <= fed and i not in done:
                done.add(i)
                if r.error is not None:
                    return ('%s: request %d failed with %s in a history of replies and notifications only' % (where, i, type(r.error).__name__), 'wire_request_failed')
                raw = getattr(r.reply, 'xml', None)
                if i in filtered and raw is not None:
                    # the filter selects every element of the reply: the same document up to white space between elements
                    if xml_shape(raw) != xml_shape(t[len(DECL):] if t.startswith(DECL) else t):
                        return ('%s: request %d (issued with a filter that selects the whole reply) completed with %s (%d octets; %s) instead of its own reply (%d octets)'
                                % (where, i, _short(raw), len(raw), xml_shape(raw)[:2] if xml_shape(raw)[0] == 'not well-formed' else 'well-formed', len(t)), 'wire_foreign_reply')
                elif raw is None or raw.strip() != t:
                    return ('%s: request %d completed with %s (%d octets%s) instead of its own reply (%d octets)'
                            % (where, i, _short(raw), len(raw or ''), '' if raw is None or xml_shape(raw)[0] != 'not well-formed' else ', not well-formed', len(t)), 'wire_foreign_reply')
        if errs:
            return ('%s: an error was broadcast to the listeners: %r' % (where, errs[0]), 'wire_errback')
        if not m.connected:
            return ('%s: the session no longer reports connected' % where, 'wire_disconnected')
    return None

def _short(x):
    if x is None: return None
    m = re.search(r'<seq>(n\d+)</seq>', x)
    return m.group(1) if m else (x[:40] + '...' if len(x) > 43 else x)

def _interleave(rng, nreq, nn, rsizes, nsizes, uni_p=0.3):
    items = [['reply', k, rng.choice(rsizes)] for k in range(nreq)]
    rng.shuffle(items)
    # replies keep any order; request k is "the k-th request made", so renumber in order of appearance for lazy creation
    items = items + [['notif', 0, rng.choice(nsizes), 1 if rng.random() < uni_p else 0] for _ in range(nn)]
    rng.shuffle(items)
    if rng.random() < 0.5:
        order = [x[1] for x in items if x[0] == 'reply']
        ren = {old: new for new, old in enumerate(order)}
        items = [[x[0], ren[x[1]]] + x[2:] if x[0] == 'reply' else x for x in items]
    n = 0
    for x in items:
        if x[0] == 'notif':
            n += 1; x[1] = n
    return items

def gen_wire(rng):
    case = dict(check='real_wire', profile=rng.choice(PROFILES), base=rng.choice([10, 10, 11]))
    nreq, nn = rng.choice([0, 1, 1, 2, 3]), rng.randint(1, 4)
    case['msgs'] = _interleave(rng, nreq, nn, [0, 0, 300, 5000, 9000, 13000], [0, 0, 0, 400, 5000, 9000])
    if rng.random() < 0.6 and not any(x[2] > READ for x in case['msgs']):
        case['msgs'][rng.randrange(len(case['msgs']))][2] = rng.choice([4200, 8300, 12400, 20000])
    if case['base'] == 11:
        case['chunk'] = rng.choice([0, 0, 1, 7, 100, 1000, 4096, 5000])
        if case['chunk'] == 1 and sum(x[2] for x in case['msgs']) > 12000:
            case['chunk'] = 100
    if rng.random() < 0.3: case['decl'] = True
    if rng.random() < 0.3: case['nl'] = True
    if rng.random() < 0.5: case['lazy'] = True
    stream, lay = layout(case)
    total = len(stream)
    style = rng.choice(['mtu', 'mtu', 'mtu', 'random', 'fixed', 'whole', 'delims'])
    if style == 'mtu':
        cuts = []
        for kind, i, t, a, b in lay:
            if b - a > READ:
                if rng.random() < 0.8: cuts.append(b - rng.choice([1, 3, 6, 7, 8, 20, 50, 300, 1000, 3000]))
                if rng.random() < 0.3: cuts.append(a + rng.randrange(1, b - a))
            elif rng.random() < 0.25: cuts.append(b)
            elif rng.random() < 0.15: cuts.append(a + rng.randrange(1, b - a))
        reads = bursts_to_reads(cuts, total, rng.choice([READ, READ, READ, 65536, 1024]))
    elif style == 'random':
        reads = bursts_to_reads(rng.sample(range(1, total), min(total - 1, rng.randint(1, 6))), total, 1 << 20)
    elif style == 'fixed':
        k = rng.choice([READ, 1000, 100, 17] if total < 9000 else [READ, 1000, 2048])
        reads = bursts_to_reads([], total, k)
    elif style == 'delims':
        cuts = [b - rng.randint(0, 7) for kind, i, t, a, b in lay] + [a + rng.randint(0, 3) for kind, i, t, a, b in lay]
        reads = bursts_to_reads(cuts, total, rng.choice([READ, 1 << 20]))
    else:
        reads = [total]
    case['reads'] = reads
    case['style'] = style
    if case['profile'] == 'junos' and rng.random() < 0.7:
        # streaming-filter mode (device_params use_filter=True): same histories, same oracle; some requests carry a filter
        case['sax'] = True
        fl = [k for k in range(nreq) if rng.random() < 0.4]
        if fl: case['filtered'] = fl
    return case

def gen_wire_sax(rng):
    """a generated history for the Junos profile in streaming-filter mode, reads cut at random places of the messages (so
    that the read completing one message ends somewhere inside the next one)"""
    case = gen_wire(rng)
    case['profile'] = 'junos'; case['sax'] = True
    nreq = 1 + max([x[1] for x in case['msgs'] if x[0] == 'reply'] or [-1])
    fl = [k for k in range(nreq) if rng.random() < 0.4]
    case.pop('filtered', None)
    if fl: case['filtered'] = fl
    if rng.random() < 0.6:
        stream, lay = layout(case)
        cuts = []
        for kind, i, t, a, b in lay:
            cuts += [a + rng.randrange(1, b - a) for _ in range(rng.choice([1, 1, 2]))]
        case['reads'] = bursts_to_reads(cuts, len(stream), rng.choice([READ, READ, 1 << 20]))
        case['style'] = 'inside'
    return case

def headshare_cases():
    """Deterministic family: a message that needs more than one read (notification, reply, reply to a request with a
    filter) is completed by a read that ALSO carries the first e octets of the message behind it (e from one octet up to
    the middle of that message's terminator); the rest of the second message and a closing notification follow.  Junos in
    streaming-filter mode (use_filter=True; the parser object changes between messages) for both framings, and every
    other profile in turn."""
    out, pi = [], 0
    kinds = {'notif': lambda size: ['notif', 0, size, 0], 'reply': lambda size: ['reply', 0, size], 'freply': lambda size: ['reply', 0, size]}
    others = [p for p in PROFILES if p != 'junos']
    for base in (10, 11):
        for first in ('notif', 'reply', 'freply'):
            for size, d in ((300, 150), (4500, 7), (9000, 300)):
                for second in ('reply', 'freply', 'notif'):
                    for ssize in (0, 5000):
                        msgs = [kinds[first](size), kinds[second](ssize), ['notif', 0, 0, 1]]
                        k = 0
                        for j, x in enumerate(msgs):
                            if x[0] == 'reply': x[1] = k; k += 1
                        n = 0
                        for x in msgs:
                            if x[0] == 'notif': n += 1; x[1] = n
                        fl = [x[1] for x, kd in zip(msgs, (first, second)) if kd == 'freply']
                        for sax in (True, False):
                            if not sax and fl: continue
                            case0 = dict(check='real_wire', profile='junos' if sax else others[pi % len(others)], base=base, msgs=msgs,
                                         style='headshare', lazy=bool(pi % 2))
                            if sax: case0['sax'] = True
                            if fl: case0['filtered'] = fl
                            if base == 11: case0['chunk'] = (0, 4096, 1000)[pi % 3]
                            pi += 1
                            stream, lay = layout(case0)
                            a2, b2 = lay[1][3], lay[1][4]
                            term = len(DELIM) if base == 10 else 4
                            # (chunked framing is put together by the default parser in either mode: fewer cut places)
                            es = sorted({1, 5, 40, (b2 - a2) // 2, b2 - a2 - term - 1, b2 - a2 - term, b2 - a2 - 3} if sax and base == 10
                                        else {1, 40, b2 - a2 - term, b2 - a2 - 3})
                            for e in es:
                                if not 0 < e < b2 - a2: continue
                                case = dict(case0, msgs=[list(x) for x in msgs])
                                # server bursts: [.. end of first - d) [end of first - d .. start of second + e) [rest)
                                case['reads'] = bursts_to_reads([lay[0][4] - term - d, a2 + e], len(stream))
                                out.append(case)
    return out

def tailshare_cases():
    """Deterministic family: a multi-read message (reply or notification) taken in 4096-octet reads up to d octets before
    its end (d = 0: the message text complete, its terminator not yet), then ONE read carrying its tail, its terminator and
    the complete shorter messages the server sent right behind it."""
    out, pi = [], 0
    for base in (10, 11):
        for first in ('reply', 'notif'):
            for size in (4500, 8300, 12500):
                for fi, follow in enumerate(([['notif', 0, 0, 0]], [['notif', 0, 0, 1], ['reply', 1, 0], ['notif', 0, 300, 0]],
                                             [['reply', 1, 0], ['notif', 0, 0, 0]])):
                    for d in (0, 1, 3, 7, 300, 2000):
                        msgs = [['reply', 0, size] if first == 'reply' else ['notif', 0, size, 0]] + [list(x) for x in follow]
                        if first != 'reply':
                            msgs = [[x[0], 0] + x[2:] if x[0] == 'reply' else x for x in msgs]
                        n = 0
                        for x in msgs:
                            if x[0] == 'notif': n += 1; x[1] = n
                        case = dict(check='real_wire', profile=PROFILES[pi % len(PROFILES)], base=base, msgs=msgs, style='tailshare',
                                    lazy=bool((pi // 3) % 2))
                        if base == 11: case['chunk'] = (0, 4096, 1000)[pi % 3]
                        pi += 1
                        stream, lay = layout(case)
                        end_text = lay[0][4] - (len(DELIM) if base == 10 else 4)
                        case['reads'] = bursts_to_reads([end_text - d], len(stream))
                        out.append(case)
    return out

# ------------------------------------------------------------------ real_ops
# Operations issued through Manager WHILE received notifications wait untaken in the queue.  The property: every
# notification the server sends is returned exactly once, in arrival order - whatever else the application does on the
# session in between.  A step list is run on the real Manager / Session / parser (reads as in real_wire):
#   ['srv', [msg, ...], read]   the server sends messages (['notif', n, size, uni] / ['reply', k, size]: the reply to the
#                               k-th operation issued), taken by the client in reads of at most `read` octets (0 = one)
#   ['take', j]                 the consumer calls take_notification(block=False) j times
#   ['op', name, args, kwargs]  the application issues Manager.<name>(*args, **kwargs) (async: returns at once; sync: in
#                               its own thread, completes when its reply has been read)
#   ['drain']                   take_notification(block=False) until None
# Oracle: an independent FIFO - a notification enters when its last octet has been read, a take removes the head; every
# take returns exactly the head of that FIFO (None when empty), an operation changes nothing; replies reach their own
# operation; no exception out of parse / take / the operation; no errback; still connected; after the last step the
# drain returns everything still queued, once, in order, then None.
T1, T2 = '2026-09-30T00:00:00Z', '2026-10-01T00:00:00Z'
EVF = '<ev xmlns="urn:example:ev"/>'
SERVER_CAPS = ['urn:ietf:params:netconf:base:1.0', 'urn:ietf:params:netconf:base:1.1',
               'urn:ietf:params:netconf:capability:notification:1.0', 'urn:ietf:params:netconf:capability:interleave:1.0',
               'urn:ietf:params:netconf:capability:candidate:1.0', 'urn:ietf:params:netconf:capability:confirmed-commit:1.0',
               'urn:ietf:params:netconf:capability:confirmed-commit:1.1',
               'urn:ietf:params:netconf:capability:validate:1.0', 'urn:ietf:params:netconf:capability:validate:1.1',
               'urn:ietf:params:netconf:capability:startup:1.0', 'urn:ietf:params:netconf:capability:xpath:1.0',
               'urn:ietf:params:netconf:capability:writable-running:1.0', 'urn:ietf:params:netconf:capability:rollback-on-error:1.0',
               'urn:ietf:params:netconf:capability:url:1.0?scheme=http,ftp,file',
               'urn:ietf:params:netconf:capability:with-defaults:1.0?basic-mode=explicit&also-supported=report-all',
               'urn:ietf:params:xml:ns:yang:ietf-netconf-monitoring?module=ietf-netconf-monitoring&revision=2010-10-04']

def subscription_calls():
    """create_subscription in every combination of its four parameters (filter forms x stream x start/stop), keyword form,
    plus positional forms"""
    out = []
    filters = [None, ['subtree', EVF], ['xpath', '/ev'], [EVF], '<filter type="subtree">%s</filter>' % EVF]
    for f in filters:
        for s in (None, 'NETCONF', 'other'):
            for st, sp in ((None, None), (T1, None), (T1, T2)):
                kw = {}
                if f is not None: kw['filter'] = f
                if s is not None: kw['stream_name'] = s
                if st is not None: kw['start_time'] = st
                if sp is not None: kw['stop_time'] = sp
                out.append(['create_subscription', [], kw])
    out += [['create_subscription', [None, 'NETCONF', T1], {}], ['create_subscription', [None, None, T1, T2], {}],
            ['create_subscription', [['subtree', EVF], 'other', T2], {}], ['create_subscription', [None, 'NETCONF'], {}]]
    return out

CFG = '<config xmlns="%s"><x xmlns="urn:example:x"><i>1</i></x></config>' % BASE
STANDARD_CALLS = [
    ['get', [], {}], ['get', [], {'filter': ['subtree', '<x xmlns="urn:example:x"/>']}], ['get', [], {'filter': ['xpath', '/x']}],
    ['get_config', ['running'], {}], ['get_config', [], {'source': 'candidate', 'filter': ['subtree', '<x xmlns="urn:example:x"/>']}],
    ['lock', ['running'], {}], ['lock', [], {'target': 'candidate'}], ['unlock', ['running'], {}],
    ['edit_config', [], {'target': 'candidate', 'config': CFG}], ['edit_config', [], {'target': 'running', 'config': CFG, 'default_operation': 'merge'}],
    ['copy_config', [], {'source': 'running', 'target': 'startup'}], ['delete_config', ['startup'], {}], ['validate', ['candidate'], {}],
    ['commit', [], {}], ['commit', [], {'confirmed': True, 'timeout': '60'}], ['discard_changes', [], {}], ['cancel_commit', [], {}],
    ['get_schema', ['ietf-netconf-monitoring'], {}], ['kill_session', ['99'], {}],
    ['dispatch', ['get-frob'], {}], ['rpc', ['get-frob'], {}]]
VENDOR_CALLS = {
    'junos': [['rpc', ['<get-software-information/>'], {}], ['get_configuration', [], {}], ['get_configuration', [], {'format': 'text'}],
              ['load_configuration', [], {'format': 'text', 'config': 'system { host-name a; }'}],
              ['compare_configuration', [], {}], ['command', ['show version'], {}], ['reboot', [], {}], ['halt', [], {}], ['commit', [], {}],
              ['rollback', [], {'rollback': 1}]],
    'alu': [['get_configuration', [], {}], ['show_cli', ['show version'], {}], ['load_configuration', [], {'format': 'cli', 'config': 'exit all'}]],
    'h3c': [['get_bulk', [], {}], ['get_bulk_config', ['running'], {}], ['cli', ['<Execution>display version</Execution>'], {}], ['save', ['a.cfg'], {}],
            ['load', ['a.cfg'], {}], ['rollback', ['a.cfg'], {}]],
    'hpcomware': [['cli_display', [['display version']], {}], ['cli_config', [['vlan 2']], {}], ['save', ['a.cfg'], {}], ['rollback', ['a.cfg'], {}]],
    'huawei': [['cli', ['<cmd><id>1</id><cmdline>display version</cmdline></cmd>'], {}], ['action', ['<save/>'], {}]],
    'iosxe': [['save_config', [], {}]], 'nexus': [['exec_command', [['show version']], {}]],
    'sros': [['md_cli_raw_command', ['show version'], {}], ['commit', [], {}]]}

def op_calls(profile):
    # a vendor operation replaces the standard one of the same name on that profile's Manager
    v = VENDOR_CALLS.get(profile, [])
    return subscription_calls() + [c for c in STANDARD_CALLS if c[0] not in [x[0] for x in v]] + v

def _arg(x):
    """JSON form -> call form: a 2-list whose head is a filter type is the (type, criteria) tuple of the API"""
    if isinstance(x, list) and len(x) == 2 and x[0] in ('subtree', 'xpath'):
        return (x[0], x[1])
    return x

def _show_call(c):
    return '%s(%s)' % (c[0], ', '.join([repr(_arg(a)) for a in c[1]] + ['%s=%r' % (k, _arg(v)) for k, v in sorted(c[2].items())]))

def run_ops(case):
    """-> None or (what, sig)"""
    import queue
    from ncclient.capabilities import Capabilities
    ses, m, errs = _session(case['profile'], case['base'], bool(case.get('sax')))
    ses._server_capabilities = Capabilities(SERVER_CAPS)
    sync = bool(case.get('sync'))
    m.async_mode = not sync
    fifo = []                    # the oracle's queue: (n, text) received completely and not yet taken
    ops = []                     # per operation issued: dict(call, mid, rpc | box, thread)
    tag = '[%s] ' % case['profile']
    hist = []                    # what happened so far, for the message
    def take_once(where):
        try:
            x = m.take_notification(block=False)
        except Exception as e:
            return ('%s%s: take_notification(block=False) raised %s' % (tag, where, type(e).__name__), 'ops_take_raised')
        want = fifo.pop(0) if fifo else None
        got = None if x is None else getattr(x, 'notification_xml', repr(x)).strip()
        if got != (None if want is None else want[1]):
            rest = [want[0]] + [n for n, t in fifo] if want else []
            return ('%s%s: take_notification(block=False) returned %s; received and not yet taken: %s; history: %s'
                    % (tag, where, _short(got) if got else None, ['n%d' % n for n in rest] or 'nothing', ' / '.join(hist)),
                    'ops_notif_lost' if want is not None else 'ops_notif_unexpected')
        return None
    def finished(o):
        """-> (done?, reply or None, error or None)"""
        if 'rpc' in o:
            r = o['rpc']
            return r.event.is_set(), r.reply, r.error
        if o['box']:
            r = o['box'][0]
            return True, (None if isinstance(r, Exception) else r), (r if isinstance(r, Exception) else None)
        return False, None, None
    try:
        for si, step in enumerate(list(case['steps']) + [['drain']]):
            where = 'step %d %s' % (si + 1, step[0])
            if step[0] == 'take':
                for _ in range(int(step[1])):
                    f = take_once(where)
                    if f: return f
                hist.append('take x%d' % step[1])
            elif step[0] == 'drain':
                for _ in range(len(fifo) + 1):
                    f = take_once(where + (' (end of the history)' if si == len(case['steps']) else ''))
                    if f: return f
                f = take_once(where)
                if f: return f
                hist.append('drain')
            elif step[0] == 'op':
                call = [step[1], step[2], step[3]]
                fn = getattr(m, call[0])
                args, kw = [_arg(a) for a in call[1]], {k: _arg(v) for k, v in call[2].items()}
                o = dict(call=call)
                if sync:
                    o['box'] = []
                    def body(fn=fn, args=args, kw=kw, box=o['box']):
                        try: box.append(fn(*args, **kw))
                        except Exception as e: box.append(e)
                    o['thread'] = threading.Thread(target=body, daemon=True, name='c11-op'); o['thread'].start()
                else:
                    try:
                        o['rpc'] = fn(*args, **kw)
                    except Exception as e:
                        return ('%s%s: %s raised %s: %s' % (tag, where, _show_call(call), type(e).__name__, str(e)[:100]), 'ops_call_raised')
                # the request as the server would see it
                try:
                    req = ses._q.get(timeout=HANG)
                except queue.Empty:
                    if sync and o['box']:
                        return ('%s%s: %s ended with %r before sending a request' % (tag, where, _show_call(call), o['box'][0]), 'ops_call_raised')
                    return ('%s%s: %s queued no request for the server' % (tag, where, _show_call(call)), 'ops_no_request')
                k = re.search(r'message-id="([^"]+)"', req if isinstance(req, str) else req.decode('utf-8', 'replace'))
                if not k:
                    return ('%s%s: the request of %s carries no message-id' % (tag, where, _show_call(call)), 'ops_no_request')
                o['mid'] = k.group(1)
                ops.append(o)
                hist.append(_show_call(call))
            elif step[0] == 'srv':
                texts, frames = [], []
                for msg in step[1]:
                    if msg[0] == 'reply':
                        if msg[1] >= len(ops):
                            return (tag + where + ': the case replies to an operation that has not been issued', 'real_harness_error')
                        t = ok_reply_text(ops[msg[1]]['mid'], msg[2], ops[msg[1]]['call'][0])
                    else:
                        t = notif_text(msg[1], msg[2], bool(msg[3]) if len(msg) > 3 else False)
                    texts.append(t)
                    frames.append(frame(((DECL if case.get('decl') else '') + t).encode(), case['base'], case.get('chunk', 0)))
                stream = b''.join(frames)
                rd = int(step[2]) if len(step) > 2 and step[2] else len(stream)
                for a in range(0, len(stream), rd):
                    try:
                        ses.parser.parse(stream[a:a + rd])
                    except Exception as e:
                        return ('%s%s (octets %d..%d of the burst): parser raised %s: %s' % (tag, where, a, a + rd, type(e).__name__, str(e)[:120]), 'ops_parse_raised')
                for msg, t in zip(step[1], texts):
                    if msg[0] == 'notif':
                        fifo.append((msg[1], (DECL if case.get('decl') else '') + t)); hist.append('n%d arrives' % msg[1])
                    else:
                        o = ops[msg[1]]
                        if 'thread' in o: o['thread'].join(HANG)
                        done, reply, err = finished(o)
                        hist.append('reply to %s' % o['call'][0])
                        if not done:
                            return ('%s%s: %s is still pending although its reply has been read' % (tag, where, _show_call(o['call'])), 'ops_reply_missing')
                        if err is not None:
                            return ('%s%s: %s failed with %s: %s' % (tag, where, _show_call(o['call']), type(err).__name__, str(err)[:100]), 'ops_request_failed')
                        raw = getattr(reply, 'xml', None)
                        if raw is None and reply is not None and 'thread' in o:
                            # a synchronous call may hand out the profile's own view of the reply (Junos: an NCElement with the
                            # name spaces removed) instead of the RPCReply: it must still be the reply to this request
                            ts = getattr(reply, 'tostring', None)
                            ts = ts.decode('utf-8', 'replace') if isinstance(ts, bytes) else str(ts if ts is not None else reply)
                            if o['mid'] not in ts:
                                return ('%s%s: %s returned %s, not the reply to its request' % (tag, where, _show_call(o['call']), ts[:80]), 'ops_foreign_reply')
                        elif raw is None or o['mid'] not in raw or xml_shape(raw) != xml_shape(t):
                            return ('%s%s: %s completed with %s instead of its own reply' % (tag, where, _show_call(o['call']), _short(raw)), 'ops_foreign_reply')
                        o['answered'] = True
            for o in ops:
                if not o.get('answered') and finished(o)[0]:
                    d, r, e = finished(o)
                    return ('%s%s: %s completed (%s) although no reply to it has been sent' % (tag, where, _show_call(o['call']), type(e).__name__ if e else 'reply'), 'ops_request_failed')
            if errs:
                return ('%s%s: an error was broadcast to the listeners: %r' % (tag, where, errs[0]), 'ops_errback')
            if not m.connected:
                return ('%s%s: the session no longer reports connected' % (tag, where), 'ops_disconnected')
        return None
    finally:
        # operations still waiting for a reply (sync mode): end them
        pend = [o for o in ops if 'thread' in o and o['thread'].is_alive()]
        if pend:
            try: ses._dispatch_error(Exception('end of case'))
            except Exception: pass

def ok_reply_text(mid, size=0, op=''):
    if op == 'get_schema':
        return ('<rpc-reply xmlns="%s" message-id="%s"><data xmlns="urn:ietf:params:xml:ns:yang:ietf-netconf-monitoring">module m { }</data></rpc-reply>'
                % (BASE, mid))
    if size:
        return reply_text(mid, size)
    return '<rpc-reply xmlns="%s" message-id="%s"><ok/></rpc-reply>' % (BASE, mid)

def ops_case(profile, base, calls, pattern, pi=0, sync=False):
    """one deterministic history around the given operations.  Notifications n1..n3 are queued and one is taken before the
    first operation; `pattern` places the replies and the further notifications"""
    case = dict(check='real_ops', profile=profile, base=base, style='ops-' + pattern)
    if sync: case['sync'] = True
    if base == 11: case['chunk'] = (0, 7, 1000)[pi % 3]
    st = [['srv', [['notif', 1, 0, 0], ['notif', 2, (0, 300, 5000)[pi % 3], pi % 2], ['notif', 3, 0, 0]], (0, READ, 100)[pi % 3]], ['take', 1]]
    n = 3
    for k, c in enumerate(calls):
        st.append(['op'] + c)
        n += 1
        if pattern == 'reply-first':
            st += [['srv', [['reply', k, 0]], 0], ['srv', [['notif', n, 0, 0]], 0]]
        elif pattern == 'notif-first':
            st += [['srv', [['notif', n, 0, 1], ['reply', k, 300]], (0, 50)[pi % 2]]]
        elif pattern == 'take-between':
            st += [['take', 1], ['srv', [['reply', k, 0], ['notif', n, 300, 0]], 0]]
        else:                                   # 'late': replies at the end (async only)
            st += [['srv', [['notif', n, 0, 0]], 0]]
        if k + 1 < len(calls) and pattern != 'take-between':
            st.append(['take', 1] if k % 2 == 0 else ['take', 0])
    if pattern == 'late':
        st.append(['srv', [['reply', k, 0] for k in reversed(range(len(calls)))], 0])
    case['steps'] = st
    return case

def ops_cases():
    """Deterministic family: for every profile, every call of the table (create_subscription in all parameter combinations,
    the standard operations, the profile's vendor operations) is issued while notifications wait in the queue - two or
    three calls per history, the second/third create_subscription among them; reply placement, framing and sync / async
    mode rotate."""
    out, pi = [], 0
    subs = subscription_calls()
    pats = ('reply-first', 'notif-first', 'take-between', 'late')
    for p_i, p in enumerate(PROFILES):
        calls = op_calls(p)
        others = calls[len(subs):]
        j = 0
        while j < len(calls):
            pat = pats[pi % 4]
            sync = pat != 'late' and (pi // 4 + p_i) % 5 == 0
            # first a plain subscription or another operation, then the call of the table, then (every other case) one more
            lead = subs[0] if pi % 2 == 0 else others[pi % len(others)]
            grp = [lead, calls[j]] + ([calls[j + 1]] if j + 1 < len(calls) and pi % 2 else [])
            j += len(grp) - 1
            out.append(ops_case(p, 10 if pi % 3 else 11, grp, pat, pi, sync))
            pi += 1
    return out

def gen_ops(rng):
    p = rng.choice(PROFILES)
    case = dict(check='real_ops', profile=p, base=rng.choice([10, 10, 11]), style='ops-random')
    if case['base'] == 11: case['chunk'] = rng.choice([0, 0, 1, 7, 100, 1000])
    if rng.random() < 0.2: case['sync'] = True
    if rng.random() < 0.2: case['decl'] = True
    if p == 'junos' and rng.random() < 0.5: case['sax'] = True
    calls, st, n, nops, unanswered = op_calls(p), [], 0, 0, []
    subs = subscription_calls()
    for _ in range(rng.randint(4, 12)):
        r = rng.random()
        if r < 0.4:
            msgs = []
            for _ in range(rng.choice([1, 1, 2, 3])):
                if unanswered and rng.random() < 0.4:
                    k = unanswered.pop(rng.randrange(len(unanswered)) if not case.get('sync') else 0)
                    msgs.append(['reply', k, rng.choice([0, 0, 300, 5000])])
                else:
                    n += 1; msgs.append(['notif', n, rng.choice([0, 0, 0, 400, 5000]), 1 if rng.random() < 0.3 else 0])
            st.append(['srv', msgs, rng.choice([0, 0, READ, 1000, 17])])
        elif r < 0.6:
            st.append(['take', rng.choice([1, 1, 2, 3])])
        elif r < 0.65:
            st.append(['drain'])
        elif not (case.get('sync') and len(unanswered) >= 3):
            st.append(['op'] + (rng.choice(subs) if rng.random() < 0.5 else rng.choice(calls)))
            unanswered.append(nops); nops += 1
    if unanswered and rng.random() < 0.7:
        st.append(['srv', [['reply', k, 0] for k in unanswered], 0])
    case['steps'] = st
    return case

# ------------------------------------------------------------------ live sessions
HANG = 2.0           # s: a call that has not returned by then is reported as blocked
AT_ONCE = 0.5         # s: upper bound for "immediately"
SLACK = 1.0           # s: how much later than its timeout a call may return
EARLY = 0.01          # s: tolerance of the lower bound
QUIET = 0.2           # s: how long an untimed blocking take is watched before the notification is sent

def hello(base11):
    caps = ['urn:ietf:params:netconf:base:1.0', 'urn:ietf:params:netconf:capability:notification:1.0',
            'urn:ietf:params:netconf:capability:interleave:1.0']
    if base11: caps.insert(1, 'urn:ietf:params:netconf:base:1.1')
    return (DECL + '<hello xmlns="%s"><capabilities>%s</capabilities><session-id>11</session-id></hello>'
            % (BASE, ''.join('<capability>%s</capability>' % c for c in caps))).encode() + DELIM

class Live(object):
    """transport: 'unix' = UnixSocketSession on one end of a socketpair; 'ssh' / 'tls' = SSHSession / TLSSession whose channel /
    SSL socket is a minimal stand-in on the socketpair (harness/real_end.py: no handshake, everything else the library's code);
    'ssh+sax' additionally selects the profile's parser after the hello exchange as SSHSession.connect does, with
    device_params use_filter=True (Junos: the SAX parser)."""
    def __init__(self, profile, base11=False, transport='unix', behind=b''):
        from ncclient import manager
        from ncclient.transport.session import SessionListener
        self.cli, self.srv = socket.socketpair(socket.AF_UNIX, socket.SOCK_STREAM)
        self.srv.setsockopt(socket.SOL_SOCKET, socket.SO_SNDBUF, 1 << 20)
        params = {'name': profile}
        if transport == 'ssh+sax': params['use_filter'] = True
        self.dh = manager.make_device_handler(params)
        if transport in ('ssh', 'ssh+sax'):
            from ncclient.transport.ssh import SSHSession
            from .real_end import FakeTransport, FakeChannel
            self.ses = SSHSession(self.dh); self.ses._transport = FakeTransport(self.cli); self.ses._channel = FakeChannel(self.cli)
        elif transport == 'tls':
            from ncclient.transport.tls import TLSSession
            from .real_end import TlsSock
            self.ses = TLSSession(self.dh); self.ses._socket = TlsSock(self.cli)
        else:
            from ncclient.transport.unixSocket import UnixSocketSession
            self.ses = UnixSocketSession(self.dh); self.ses._socket = self.cli
        self.ses._connected = True
        # `behind`: what the server writes right behind its <hello>, in the same write (it is in the socket before the
        # session thread exists; base:1.0 framing, the server has not seen the client's hello)
        self.srv.sendall(hello(base11) + behind)
        self.ses._post_connect(10)
        if transport == 'ssh+sax':
            self.ses.parser = self.dh.get_xml_parser(self.ses)
        self.m = manager.Manager(self.ses, self.dh, timeout=5)
        # the server frames as negotiated: 1.1 only if the client's <hello> advertises it too (some profiles do not)
        buf = b''
        self.srv.settimeout(HANG)
        while DELIM not in buf:
            d = self.srv.recv(65536)
            if not d: break
            buf += d
        self.srv.settimeout(None)
        self.client_hello = buf
        self.base = 11 if base11 and b'netconf:base:1.1<' in buf else 10
        self.seen, self.errs = [], []
        live = self
        class Watch(SessionListener):
            def callback(self, root, raw): live.seen.append(raw)
            def errback(self, err): live.errs.append(err)
        self.ses.add_listener(Watch())
    def send(self, octets):
        self.srv.sendall(octets)
    def send_notif(self, n):
        t = notif_text(n)
        self.srv.sendall(frame(t.encode(), self.base, 0))
        return t
    def wait_seen(self, k, limit=HANG):
        t0 = time.time()
        while len(self.seen) < k and time.time() - t0 < limit:
            time.sleep(0.002)
        time.sleep(0.02)          # every listener of that dispatch has run
        return len(self.seen) >= k
    def close(self):
        try: self.ses.close()
        except Exception: pass
        for s in (self.srv, self.cli):
            try: s.close()
            except OSError: pass

def timed(fn, limit=HANG):
    """-> (returned?, result or exception, seconds); the call runs in its own thread so that a hang is observable"""
    box = []
    def body():
        t0 = time.time()
        try: r = fn()
        except Exception as e: r = e
        box.append((r, time.time() - t0))
    th = threading.Thread(target=body, daemon=True, name='c11-consumer'); th.start()
    th.join(limit)
    if not box:
        return False, None, limit, th
    return True, box[0][0], box[0][1], th

def call_form(m, form, b, t):
    if form == 'pos': return lambda: m.take_notification(b, t)
    if form == 'kw': return lambda: m.take_notification(block=b, timeout=t)
    if form == 'kw_t': return lambda: m.take_notification(timeout=t)        # block defaults to True
    if form == 'kw_b': return lambda: m.take_notification(block=b)          # no timeout
    if form == 'pos_b': return lambda: m.take_notification(b)
    return lambda: m.take_notification()                                     # blocking, no timeout

def show(form, b, t):
    return {'pos': 'take_notification(%r, %r)' % (b, t), 'kw': 'take_notification(block=%r, timeout=%r)' % (b, t),
            'kw_t': 'take_notification(timeout=%r)' % (t,), 'kw_b': 'take_notification(block=%r)' % (b,),
            'pos_b': 'take_notification(%r)' % (b,), 'none': 'take_notification()'}[form]

def take_matrix(pi):
    """the calls of one profile: (form, block, timeout); forms rotate with the profile index so that the union over the
    profiles covers form x block x timeout"""
    forms = ('pos', 'kw')
    nonblocking = [(forms[(pi + j) % 2], b, t) for j, (b, t) in enumerate(
        [(b, t) for b in (False, 0) for t in (None, 0, 0.0, 0.05, 30)])] + [('kw_b', False, None), ('pos_b', 0, None)]
    timed_ = [(forms[(pi + j) % 2], b, t) for j, (b, t) in enumerate(
        [(True, 0), (1, 0.0), (True, 0.0), (1, 0), (True, 0.05), (1, 0.15)])] + [('kw_t', True, 0), ('kw_t', True, 0.1)]
    untimed = [(forms[pi % 2], True, None), ('none', True, None), (('kw_b', 'pos_b')[pi % 2], (True, 1)[(pi // 2) % 2], None)]
    return nonblocking, timed_, untimed

OBS = {}             # (profile, transport) -> observations of the last run_take, for the model comparison

def run_take(case):
    """-> None or (what, sig); the calls made and what was observed are left in OBS for the comparison with the model"""
    profile = case['profile']
    pi = PROFILES.index(profile) if profile in PROFILES else 0
    L = Live(profile, base11=bool(case.get('base11')), transport=case.get('transport', 'unix'))
    m = L.m
    tag = '[%s] ' % profile
    nonblocking, timed_, untimed = take_matrix(pi)
    obs = OBS[(profile, case.get('transport', 'unix'))] = []
    def note(form, b, t, queued, arr, r, dt):
        if r is None: o = ['none', dt]
        elif isinstance(r, Exception): o = ['exc', type(r).__name__, dt]
        elif r == 'blocked': o = ['blocked']
        else:
            k = re.search(r'<seq>n(\d+)</seq>', getattr(r, 'notification_xml', ''))
            o = ['item', int(k.group(1)) if k else -1, dt]
        obs.append(dict(form=form, block=b, timeout=t, queued=list(queued), arrivals=[list(x) for x in arr], observed=o))
    def waiting_call(form, b, t):
        box = []
        fn = call_form(m, form, b, t)
        def body():
            t0 = time.time()
            try: r = fn()
            except Exception as e: r = e
            box.append((r, time.time() - t0))
        th = threading.Thread(target=body, daemon=True, name='c11-consumer'); th.start()
        return th, box
    try:
        # --- nothing queued
        for form, b, t in nonblocking:
            ok, r, dt, _ = timed(call_form(m, form, b, t))
            note(form, b, t, [], [], r if ok else 'blocked', dt)
            if not ok:
                return (tag + '%s with nothing queued did not return within %.0f s: a non-blocking take blocks' % (show(form, b, t), HANG), 'take_nonblocking_blocks')
            if r is not None or dt > AT_ONCE:
                return (tag + '%s with nothing queued: result %r after %.2f s, expected None at once' % (show(form, b, t), r, dt), 'take_nonblocking_wrong')
        for form, b, t in timed_:
            ok, r, dt, _ = timed(call_form(m, form, b, t), limit=t + SLACK + HANG)
            note(form, b, t, [], [], r if ok else 'blocked', dt)
            if not ok:
                return (tag + '%s with nothing queued did not return within %.1f s (given timeout: %r s); connected=%s'
                        % (show(form, b, t), t + SLACK + HANG, t, m.connected), 'take_outlasts_timeout')
            if r is not None:
                return (tag + '%s with nothing queued returned %r, expected None' % (show(form, b, t), r), 'take_timeout_wrong')
            if dt < t - EARLY:
                return (tag + '%s with nothing queued returned None after %.3f s: before the given timeout' % (show(form, b, t), dt), 'take_returns_early')
            if dt > t + SLACK:
                return (tag + '%s with nothing queued returned None only after %.2f s' % (show(form, b, t), dt), 'take_outlasts_timeout')
        # --- a blocking take without timeout waits for the next notification
        nsent = 0
        for form, b, t in untimed:
            th, box = waiting_call(form, b, t)
            th.join(QUIET)
            if box:
                note(form, b, t, [], [], box[0][0], box[0][1])
                return (tag + '%s with nothing queued returned %r after %.2f s: a blocking take without timeout waits for a notification'
                        % (show(form, b, t), box[0][0], box[0][1]), 'take_untimed_returns')
            note(form, b, t, [], [], 'blocked', QUIET)                   # nothing arrived in the time it was watched
            nsent += 1
            text = L.send_notif(nsent)
            th.join(HANG)
            note(form, b, t, [], [[int(QUIET * 1000), nsent]], box[0][0] if box else 'blocked', box[0][1] if box else HANG)
            if not box:
                return (tag + '%s was waiting when notification n%d arrived and did not return it within %.0f s' % (show(form, b, t), nsent, HANG), 'take_misses_arrival')
            r = box[0][0]
            if r is None or isinstance(r, Exception) or r.notification_xml != text:
                return (tag + '%s was waiting when notification n%d arrived and returned %r' % (show(form, b, t), nsent, _res(r)), 'take_misses_arrival')
        # --- blocking with a long timeout, arrival inside it
        form = ('pos', 'kw', 'kw_t')[pi % 3]
        th, box = waiting_call(form, True, 3.0)
        time.sleep(0.08)
        nsent += 1
        text = L.send_notif(nsent)
        th.join(3.0 + SLACK + HANG)
        note(form, True, 3.0, [], [[80, nsent]], box[0][0] if box else 'blocked', box[0][1] if box else 3.0 + SLACK + HANG)
        if not box:
            return (tag + 'take_notification(True, 3.0) did not return although notification n%d arrived after 0.08 s' % nsent, 'take_misses_arrival')
        r, dt = box[0]
        if r is None or isinstance(r, Exception) or r.notification_xml != text or dt > 0.08 + SLACK:
            return (tag + 'take_notification(True, 3.0), notification n%d arrived after 0.08 s: returned %r after %.2f s' % (nsent, _res(r), dt), 'take_misses_arrival')
        # --- something queued: every (block, timeout) returns the head at once, then the queue is empty again
        combos = nonblocking + timed_ + untimed
        k0 = len(L.seen)
        texts = [L.send_notif(nsent + 1 + j) for j in range(len(combos))]
        if not L.wait_seen(k0 + len(combos)):
            return (tag + 'only %d of %d notifications were dispatched within %.0f s' % (len(L.seen) - k0, len(combos), HANG), 'live_not_dispatched')
        for j, (form, b, t) in enumerate(combos):
            ok, r, dt, _ = timed(call_form(m, form, b, t))
            note(form, b, t, range(nsent + 1 + j, nsent + 1 + len(combos)), [], r if ok else 'blocked', dt)
            if not ok:
                return (tag + '%s with %d notification(s) queued did not return within %.0f s' % (show(form, b, t), len(combos) - j, HANG), 'take_queued_blocks')
            if r is None or isinstance(r, Exception) or r.notification_xml != texts[j] or dt > AT_ONCE:
                return (tag + '%s with %d notification(s) queued returned %r after %.2f s, expected n%d at once'
                        % (show(form, b, t), len(combos) - j, _res(r), dt, nsent + 1 + j), 'take_queued_wrong')
        ok, r, dt, _ = timed(call_form(m, 'kw_b', False, None))
        note('kw_b', False, None, [], [], r if ok else 'blocked', dt)
        if not ok or r is not None:
            return (tag + 'after every notification was taken once, take_notification(block=False) returned %r' % _res(r), 'take_dup')
        if not m.connected or L.errs:
            return (tag + 'the session ended (connected=%s, errors %r)' % (m.connected, L.errs[:1]), 'live_session_died')
        return None
    finally:
        L.close()

def model_call(o):
    """one observation -> the call of Glue/C11T_glue.run"""
    form, b, t = o['form'], o['block'], o['timeout']
    vb = [] if form in ('kw_t', 'none') else [1 if b else 0]
    if form in ('kw_b', 'pos_b', 'none'): vt = []
    elif t is None: vt = [0]
    elif t >= 0: vt = [1, int(round(t * 1000))]
    else: vt = [2, int(round(-t * 1000))]
    return [1, vb, vt, [int(x) for x in o['queued']], [[int(a), int(n)] for a, n in o['arrivals']]]

def model_agrees(mo, o):
    """the model's outcome against the observation (times with the tolerances of the oracle) -> None or text"""
    ob = o['observed']
    if isinstance(mo, str) or (mo and mo[0] == 999):
        return 'model runner rejected the call: %r' % (mo,)
    def within(at_ms, dt):
        return at_ms / 1000.0 - EARLY <= dt <= at_ms / 1000.0 + (AT_ONCE if at_ms == 0 else SLACK)
    if mo[0] == 0:
        ok = ob[0] == 'none' and within(mo[1], ob[1])
    elif mo[0] == 1:
        ok = ob[0] == 'item' and ob[1] == mo[1] and within(mo[2], ob[2])
    elif mo[0] == 2:
        ok = ob[0] == 'blocked'
    else:
        ok = ob[0] == 'exc' and ob[1] == 'ValueError'
    if ok: return None
    mtxt = {0: 'None at %s ms', 1: 'notification n%s at %s ms', 2: 'blocks', 3: 'ValueError'}[mo[0]] % tuple(mo[1:])
    return 'model: %s; implementation: %s' % (mtxt, ob)

def _res(r):
    if r is None or isinstance(r, Exception): return repr(r)
    return _short(getattr(r, 'notification_xml', repr(r)))

def run_live(case):
    """-> None or (what, sig).  case: profile, base, msgs, chunk, bursts (cut offsets of the server's writes), pause (s)"""
    profile = case['profile']
    # hello_with = j: the first j messages (notifications) are written together with the server's <hello>, before connect
    hw = int(case.get('hello_with', 0))
    if hw:
        s0, l0 = layout(case)
        if case['base'] != 10 or any(k != 'notif' for k, i, t, a, b in l0[:hw]): hw = 0
    L = Live(profile, base11=case['base'] == 11, transport=case.get('transport', 'unix'), behind=s0[:l0[hw - 1][4]] if hw else b'')
    m = L.m
    case = dict(case, base=L.base)
    tag = '[%s, base 1.%d] ' % (profile, case['base'] - 10)
    try:
        m.async_mode = True
        nreq = 1 + max([x[1] for x in case['msgs'] if x[0] == 'reply'] or [-1])
        early = max(int(case.get('early', 0)), hw)        # leading messages written before any request is made
        stream0, lay0 = layout(case)
        if early:
            if any(k == 'reply' for k, i, t, a, b in lay0[:early]): early = hw
        consumer_first = bool(case.get('consumer_first'))
        rpcs = {}
        sent_n = [t for k, i, t, a, b in lay0 if k == 'notif']
        got, box = [], []
        def consume():
            for _ in sent_n:
                x = m.take_notification(True, HANG + 1.0)
                got.append(None if x is None else x.notification_xml)
                if x is None: break
            box.append(1)
        th = None
        if consumer_first:
            th = threading.Thread(target=consume, daemon=True, name='c11-consumer'); th.start()
        if early > hw:
            L.send(stream0[(lay0[hw - 1][4] if hw else 0):lay0[early - 1][4]]); time.sleep(case.get('pause', 0.03))
        for k in range(nreq):
            if case.get('filtered') and k == 0:
                # Junos streaming-filter mode: this reply is cut down by the SAX parser while it is read
                rpcs[k] = m.rpc('<get-x xmlns="urn:example:x"/>', filter_xml='<data><x><i/></x></data>')
            else:
                rpcs[k] = m.get()
        stream, lay = layout(case, {k: r.id for k, r in rpcs.items()})
        a0 = lay[early - 1][4] if early else 0
        pts = sorted({c for c in case.get('bursts', []) if a0 < c < len(stream)}) + [len(stream)]
        for b in pts:
            L.send(stream[a0:b]); a0 = b
            time.sleep(case.get('pause', 0.03))
        if th is None:
            th = threading.Thread(target=consume, daemon=True, name='c11-consumer'); th.start()
        th.join(len(sent_n) * (HANG + 1.0) + 1)
        due = [t for t in sent_n]
        if got != due:
            if None in got:
                k = got.index(None)
                missing = [_short(t) for t in due if t not in got]
                return (tag + '%d notifications were sent (the whole stream of %d octets has been written%s) but take_notification(True, %.0f) '
                        'returned None after %r: %r never came out; connected=%s' % (len(due), len(stream), ', the first %d in the same write as the server\'s <hello>' % hw if hw else '',
                        HANG + 1.0, [_short(x) for x in got[:k]], missing, m.connected), 'live_notif_missing')
            return (tag + 'notifications taken %r, sent %r' % ([_short(x) for x in got], [_short(x) for x in due]), 'live_notif_mismatch')
        for k, i, t, a, b in lay:
            if k != 'reply': continue
            r = rpcs[i]
            if not r.event.wait(HANG):
                return (tag + 'request %d did not complete within %.0f s although its reply was sent' % (i, HANG), 'live_reply_missing')
            if r.error is not None:
                return (tag + 'request %d failed with %s in a history of replies and notifications only' % (i, type(r.error).__name__), 'live_request_failed')
            if case.get('filtered') and i == 0:
                if r.id not in r.reply.xml or ('<i>00000</i>' in t) != ('<i>00000</i>' in r.reply.xml):
                    return (tag + 'request %d (with a SAX filter) completed with %s' % (i, _short(r.reply.xml)), 'live_foreign_reply')
            elif r.reply.xml.strip() != t:
                return (tag + 'request %d completed with %s' % (i, _short(r.reply.xml)), 'live_foreign_reply')
        x = m.take_notification(False)
        if x is not None:
            return (tag + 'after all %d notifications were taken take_notification(False) returned %s' % (len(due), _res(x)), 'live_dup')
        if not m.connected or L.errs:
            return (tag + 'the session ended (connected=%s, errors %r)' % (m.connected, L.errs[:1]), 'live_session_died')
        return None
    finally:
        L.close()

def live_cases(rng, n_extra=0):
    """per profile one tail-sharing history (a multi-read reply, the first notifications right behind it), bases alternate;
    plus generated ones"""
    out = []
    for pi, p in enumerate(PROFILES):
        base = 10 if pi % 3 != 2 else 11
        first = [['reply', 0, (9000, 13000, 6000)[pi % 3]]] if pi % 4 != 3 else [['notif', 1, 9000, 1]]
        msgs = first + [['notif', 0, 0, pi % 2], ['reply', 1 if first[0][0] == 'reply' else 0, 0], ['notif', 0, 300, 0]]
        n = 0
        for x in msgs:
            if x[0] == 'notif': n += 1; x[1] = n
        case = dict(check='real_live', profile=p, base=base, msgs=msgs, pause=0.03, consumer_first=bool(pi % 2),
                    transport=TRANSPORTS[(pi + 1) % 3])
        if base == 11: case['chunk'] = (0, 4096)[pi % 2]
        stream, lay = layout(case)
        case['bursts'] = [lay[0][4] - (len(DELIM) if base == 10 else 4) - (300, 7, 0, 1)[pi % 4]]
        out.append(case)
    # the connect window, free-running: the first notifications are written together with the server's <hello> (one write,
    # before _post_connect is called), one more and a reply follow later
    for pi, p in enumerate(PROFILES):
        msgs = [['notif', 1, 0, 0], ['notif', 2, (0, 300)[pi % 2], pi % 2], ['notif', 3, 0, 0], ['reply', 0, 0], ['notif', 4, 0, 0]]
        out.append(dict(check='real_live', profile=p, base=10, msgs=msgs, pause=0.02, consumer_first=bool(pi % 2), transport=TRANSPORTS[pi % 3],
                        hello_with=1 + pi % 3, bursts=[]))
    for _ in range(n_extra):
        w = gen_wire(rng)
        case = dict(check='real_live', profile=w['profile'], base=w['base'], msgs=w['msgs'], pause=rng.choice([0.0, 0.01, 0.03]),
                    consumer_first=rng.random() < 0.5, transport=rng.choice(TRANSPORTS))
        for k in ('chunk', 'decl', 'nl'):
            if k in w: case[k] = w[k]
        stream, lay = layout(case)
        cuts, s = [], 0
        for n in w['reads']:
            s += n
            if rng.random() < 0.5: cuts.append(s)
        case['bursts'] = cuts[:8]
        if lay[0][0] == 'notif' and rng.random() < 0.5: case['early'] = 1
        if lay[0][0] == 'notif' and case['base'] == 10 and rng.random() < 0.5: case['hello_with'] = 1
        out.append(case)
    return out

def sax_cases():
    """Junos in streaming-filter mode (device_params use_filter=True -> the SAX parser, installed as SSHSession.connect does):
    notifications before any request, right behind a multi-read reply (DOM-parsed: request without filter; SAX-filtered:
    request with filter_xml), multi-read notifications, both framings."""
    out = []
    shapes = [(10, [['reply', 0, 9000], ['notif', 1, 0, 0], ['reply', 1, 0], ['notif', 2, 300, 1]], 300, False, 0),
              (10, [['notif', 1, 0, 0], ['notif', 2, 9000, 0], ['reply', 0, 0], ['notif', 3, 0, 0]], 0, False, 1),
              (10, [['reply', 0, 6000], ['notif', 1, 0, 1], ['notif', 2, 0, 0]], 7, True, 0),
              (11, [['reply', 0, 9000], ['notif', 1, 0, 0], ['reply', 1, 0], ['notif', 2, 300, 0]], 7, False, 0),
              (10, [['notif', 1, 300, 0], ['reply', 0, 300], ['notif', 2, 0, 0], ['reply', 1, 5000], ['notif', 3, 0, 0]], 1, True, 1),
              (11, [['notif', 1, 5000, 1], ['notif', 2, 0, 0], ['reply', 0, 300]], 300, True, 1)]
    for j, (base, msgs, d, filtered, early) in enumerate(shapes):
        case = dict(check='real_live', profile='junos', transport='ssh+sax', base=base, msgs=msgs, pause=0.03, consumer_first=bool(j % 2))
        if filtered: case['filtered'] = True
        if early: case['early'] = 1
        if base == 11: case['chunk'] = (0, 4096)[j % 2]
        stream, lay = layout(case)
        big = max(range(len(lay)), key=lambda i: lay[i][4] - lay[i][3])
        case['bursts'] = [lay[big][4] - (len(DELIM) if base == 10 else 4) - d]
        out.append(case)
    return out

def sax_tie(ctx):
    """Model/SaxFilter.v (as changed with the fix of C11-sax-notification) against the real SAXParser handler under expat on
    messages that are not replies: same events -> same outcome (switch signal) and output (nothing).  Runner of C18."""
    from vlib import build
    from vlib.model import Model
    from harness import saxpath
    with build.Lock():
        ok, log, _ = build.make(['Glue/C18_glue.vo'])
        if ok:
            ok, log = build.build_runner('C18')
    if not ok:
        ctx.disagree({'check': 'sax_tie'}, 'C18 runner builds', log[-300:], 'extraction of Glue/C18_glue.v'); return
    model = Model('C18')
    docs = [notif_text(1), DECL + notif_text(2, 300, True), '<nc:notification xmlns:nc="%s"><nc:eventTime>2026-10-01T00:00:00Z</nc:eventTime></nc:notification>' % NOTIF_NS,
            '<hello xmlns="%s"><capabilities/></hello>' % BASE, '<frob xmlns="urn:example:x" message-id="m1"><rpc-reply message-id="m1"/></frob>', '<data/>']
    tables = [({}, True), ({'m1': '<data><x/></data>'}, True), ({'m1': None}, True), ({}, False)]
    runs, calls = [], []
    for d in docs:
        for table, listener in tables:
            ev, out, buf = saxpath.handler_run(d.encode(), table, listener=listener)
            rows = [[mid.encode(), [] if f is None else [_ftree(f)]] for mid, f in table.items()]
            evs = [[0, e[1].encode(), [[k.encode(), v.encode()] for k, v in e[2]]] if e[0] == 'S' else ([1, e[1].encode()] if e[0] == 'E' else [2, e[1].encode()]) for e in ev]
            runs.append((d, sorted(table), listener, out, buf)); calls.append([1, [1 if listener else 0, rows], evs])
    names = {0: 'Done', 1: 'Switch', 2: 'Operation', 3: 'Key', 4: 'Index', 5: 'Attr', 8: 'ValueError'}
    for (d, table, listener, out, buf), mo in zip(runs, model.batch(calls)):
        case = {'check': 'sax_tie', 'doc': d, 'table': table, 'listener': listener}
        ctx.count(case, key=case); ctx.hist('sax_tie_outcome', out); ctx.traces += 1
        m = (names.get(mo[0], mo[0]), mo[1]) if not isinstance(mo, str) else (mo, b'')
        if m != (out, buf):
            ctx.disagree(case, [m[0], m[1].decode('utf-8', 'replace')], [out, buf.decode('utf-8', 'replace')],
                         'SaxFilter.runb vs SAXParser under expat on a message that is not a reply', theorem='C11_sax_nonreply_doc')

def _ftree(filter_xml):
    from lxml import etree
    def c(e): return [e.tag.encode(), [c(k) for k in e if isinstance(k.tag, str)]]
    return c(etree.fromstring(filter_xml))

# ------------------------------------------------------------------ entry points
RUNNERS = {'real_wire': run_wire, 'real_live': run_live, 'real_take': run_take, 'real_ops': run_ops}

def run_case(case):
    try:
        if case['check'] == 'real_connect':
            from . import c11_connect
            return c11_connect.run_connect(case)
        return RUNNERS[case['check']](case)
    except Exception as e:
        import traceback
        return ('the harness could not run the case on this tree: %s: %s | %s' % (type(e).__name__, e, traceback.format_exc()[-400:].replace('\n', ' / ')), 'real_harness_error')

def parallel(cases, width):
    """run independent live cases concurrently (each has its own session and socketpair); -> results in order"""
    res = [None] * len(cases)
    it = iter(range(len(cases)))
    lock = threading.Lock()
    def worker():
        while True:
            with lock:
                i = next(it, None)
            if i is None: return
            res[i] = run_case(cases[i])
    ths = [threading.Thread(target=worker, daemon=True) for _ in range(min(width, len(cases)))]
    for t in ths: t.start()
    for t in ths: t.join()
    return res

def all_cases(rng, tier):
    q = tier == 'quick'
    wire = (tailshare_cases() + headshare_cases() + [gen_wire(rng) for _ in range(1000 if q else 12000)]
            + [gen_wire_sax(rng) for _ in range(200 if q else 3000)]
            + ops_cases() + [gen_ops(rng) for _ in range(200 if q else 5000)])
    live = live_cases(rng, n_extra=10 if q else 150) + sax_cases()
    take = [dict(check='real_take', profile=p, base11=bool(i % 2), transport=TRANSPORTS[i % 3]) for i, p in enumerate(PROFILES)]
    take.append(dict(check='real_take', profile='junos', base11=False, transport='ssh+sax'))
    return wire, live, take

def confirm(case, f):
    """timing-dependent families: a failure is reported only if it shows again"""
    if f is None or case['check'] in ('real_wire', 'real_connect'):
        return f
    for _ in range(2):
        f2 = run_case(case)
        if f2 is None:
            return None
        f = f2
    return f

def take_model():
    """the second runner of the C11 check: Glue/C11T_glue.v (Model/TakeNotif.v)"""
    from vlib import build
    from vlib.model import Model
    with build.Lock():
        ok, log, _ = build.make(['Glue/C11T_glue.vo'])
        if ok:
            ok, log = build.build_runner('C11T')
    return (Model('C11T') if ok else None), log

def take_tie(tmodel, case):
    obs = OBS.get((case['profile'], case.get('transport', 'unix')), [])
    outs = tmodel.batch([model_call(o) for o in obs])
    return obs, [(o, d) for o, d in ((o, model_agrees(mo, o)) for o, mo in zip(obs, outs)) if d]

def check(ctx):
    from . import lts
    lts.uninstall()               # the library's own Lock / Event / Queue / selectors
    tmodel, tlog = take_model()
    if tmodel is None:
        ctx.disagree({'check': 'real_take'}, 'C11T runner builds', tlog[-300:], 'extraction of Glue/C11T_glue.v')
    t0 = time.time()
    wire, live, take = all_cases(ctx.rng, ctx.tier)
    def record(case, f):
        key = {k: v for k, v in case.items()}
        ctx.count(case, nontrivial=True, key=key)
        ctx.hist('real_family', case['check']); ctx.hist('real_profile', case['profile'])
        if case['check'] == 'real_connect':
            pass
        elif case['check'] == 'real_ops':
            ctx.hist('real_base', case['base']); ctx.hist('real_ops_style', case.get('style')); ctx.hist('real_ops_mode', 'sync' if case.get('sync') else 'async')
            for st in case['steps']:
                if st[0] == 'op':
                    ctx.hist('real_ops_call', st[1] if st[1] != 'create_subscription' else 'create_subscription(%s)' % ', '.join(sorted(st[3]) or ['positional' if st[2] else '']))
        elif case['check'] != 'real_wire': ctx.hist('real_transport', case.get('transport', 'unix'))
        if case['check'] == 'real_live': ctx.hist('real_live_hello_with', int(case.get('hello_with', 0)))
        if case['check'] not in ('real_take', 'real_connect', 'real_ops'):
            ctx.hist('real_base', case['base'])
            ctx.hist('real_history', '%d replies, %d notifications' % (sum(1 for x in case['msgs'] if x[0] == 'reply'), sum(1 for x in case['msgs'] if x[0] == 'notif')))
        if case['check'] == 'real_wire':
            ctx.hist('real_wire_parser', 'junos use_filter=True (SAX), %d filtered request(s)' % len(case.get('filtered') or []) if case.get('sax') else 'default')
            ctx.hist('real_wire_style', case.get('style')); ctx.hist('real_wire_reads', min(len(case['reads']), 50) // 5 * 5)
        if f:
            ctx.fail(case, f[0], sig=None, expected='property C11 (see tools/harness/c11_real.py)', actual=f[0])
    for case in wire:
        record(case, run_case(case))
    # the connect window under the deterministic scheduler (before the free-running families and sequential: the module-level names of ncclient.transport.session are
    # rebound while a scheduled run is in progress)
    from . import c11_connect
    t1 = time.time()
    c11_connect.check(ctx, tmodel, record)
    ctx.extra['real_connect_s'] = round(time.time() - t1, 2)
    res = parallel(take + live, 14)
    for case, f in zip(take + live, res):
        f0, f = f, confirm(case, f)
        if f0 and not f:
            ctx.note('real stack: a wall-clock failure did not show again (%s | %s)' % (f0[0][:200], {k: case[k] for k in ('check', 'profile', 'transport') if k in case}))
        record(case, f)
        if case['check'] == 'real_take' and tmodel is not None:
            # model (Manager.take_notification -> Queue.get, Model/TakeNotif.v) against what the calls did
            obs, bad = take_tie(tmodel, case)
            for o in obs:
                ctx.hist('take_call', '%s block=%r timeout=%r %s' % (o['form'], o['block'], o['timeout'], 'queued' if o['queued'] else ('arrival' if o['arrivals'] else 'empty')))
            ctx.traces += len(obs)
            if bad and f is None:           # the oracle was satisfied: a difference that does not show again is wall-clock noise
                run_case(case)
                obs, bad = take_tie(tmodel, case)
            if bad:
                o, d = bad[0]
                ctx.disagree(dict(case, call={k: v for k, v in o.items() if k != 'observed'}), 'Model/TakeNotif.v manager_call', d,
                             'Manager.take_notification against the model of the wrapper and Queue.get', theorem='C11_take_*')
    sax_tie(ctx)
    ctx.extra['real_stack_s'] = round(time.time() - t0, 2)

def search(ctx):
    from . import lts
    lts.uninstall()
    wire, live, take = all_cases(ctx.rng, 'quick')
    for case in wire:
        f = run_case(case)
        if f:
            return dict(case=case, what=f[0], sig=None, expected='property C11', actual=f[0])
    for case, f in zip(take + live, parallel(take + live, 14)):
        f = confirm(case, f)
        if f:
            return dict(case=case, what=f[0], sig=None, expected='property C11', actual=f[0])
    from . import c11_connect
    for case in c11_connect.specs(ctx.rng, 40):
        for sc in c11_connect.dfs(case, 1, 12):
            f = c11_connect.oracle(sc)
            if f and f[1] != 'connect_harness_steps':
                return dict(case=dict(case, decisions=list(sc.decisions_used)), what=f[0], sig=None, expected='property C11', actual=f[0])
    return None

def replay(doc):
    from . import lts
    lts.uninstall()
    case = doc['case']
    f = run_case(case)
    if f is None and case['check'] in ('real_live', 'real_take'):
        for _ in range(9):                       # free-running threads: a failure may need several connections to show
            f = run_case(case)
            if f: break
    print('case      :', {k: (v if k != 'reads' or len(v) < 40 else v[:40] + ['...']) for k, v in case.items()})
    print('expected  : property C11 holds (%s)' % {'real_wire': 'every notification completely received is returned by take_notification once, in order, intact; replies reach their requests; the session stays up',
                                                 'real_ops': 'operations issued through Manager while received notifications wait in the queue change nothing: every take_notification(block=False) returns the oldest notification received and not yet taken (None when there is none), replies reach their operations, the session stays up',
                                                 'real_live': 'a blocking consumer gets every notification sent, in order; replies reach their requests; the session stays up',
                                                 'real_take': 'Manager.take_notification(block, timeout) follows queue.Queue.get: None at once when non-blocking, None after the timeout when blocking, the notification otherwise',
                                                 'real_connect': 'every notification the server sent behind its <hello> is returned by take_notification once, in order, intact, under the given schedule of connecting thread / session thread / server; the capability exchange succeeds; the session stays up'}[case['check']])
    print('actual    :', f[0] if f else 'holds')
    return f is None
