"""Dispatch level of C01: the message path  transport read -> Session.run -> session.parser.parse -> _dispatch_message
(parse_root) -> registered listeners  of a REAL session object, without a transport and without a thread.

* The session is an SSHSession (the only transport whose connect() installs the vendor parser) that is never connected:
  a subclass hands prepared segments out of `_transport_read`, registers an always-readable pipe with the real selector and
  the real `Session.run` is executed synchronously in the calling thread.  After construction the rig does what
  SSHSession.connect does once the <hello> exchange is over: `session.parser = device_handler.get_xml_parser(session)`.
  No name of ncclient is rebound except, while requests are issued, `ncclient.operations.rpc.uuid4` (deterministic
  message-ids so that a case is a fixed octet stream) and, while a Junos case runs, `make_parser` of the Junos parser module
  (records what expat is given; only for the model tie) - both restored in `finally`.
* profiles: 'default' (DefaultDeviceHandler, DOM parser) and 'junos_sax' (JunosDeviceHandler with use_filter=True: the
  session's parser is the streaming JunosXMLParser; a message that is not a reply to a request WITH a filter - a
  <notification>, a reply to a request without filter - is handed over to DOM parsing, and the octets after its terminator
  go back to a new streaming parser).
* messages are well-formed XML documents (that is what a NETCONF server sends): notifications, replies to outstanding
  requests (none has a filter), other roots; with an XML declaration / comments / processing instructions / white space
  before the root, comments and white space after it, and root start tags of any length (many xmlns:* declarations, long
  attribute values, non-ASCII values) - `docs()` places the END of the root's start tag at chosen offsets (small, around
  4096, 8192, 16384, 32768, 65536 characters).
* oracle (property sentence, nothing of the implementation): the registered listener gets exactly the sent texts (1.0:
  stripped), once each, in order, each during the read that carries the last octet of its terminator; the (tag, attributes)
  pair handed over with it is the root an independent reader (xml.etree / expat) finds in the sent text; every outstanding
  request whose reply was in the stream holds exactly that text; the notification queue holds the notifications; no errback
  before the end of the stream.
Nothing imports ncclient at module import time."""
import os, io, itertools
import xml.etree.ElementTree as ET

from harness import framing as F

BASE_NS = 'urn:ietf:params:xml:ns:netconf:base:1.0'
NOTIF_NS = 'urn:ietf:params:xml:ns:netconf:notification:1.0'
PROFILES = ('default', 'junos_sax')
WS = b' \t\n\r\x0b\x0c'


def msg_id(k):
    """message-id of the k-th request the rig issues (0-based)"""
    return 'urn:uuid:c01d-%04d' % (k + 1)


_pipe = []
def readable_fd():
    if not _pipe:
        r, w = os.pipe(); os.write(w, b'x'); _pipe.extend([r, w])
    return _pipe[0]


def device_handler(profile):
    from ncclient import manager
    if profile == 'junos_sax':
        return manager.make_device_handler({'name': 'junos', 'use_filter': True})
    if profile == 'default':
        return manager.make_device_handler({'name': 'default'})
    raise ValueError(profile)


_cls = []
def rig_class():
    if _cls: return _cls[0]
    from ncclient.transport.ssh import SSHSession
    from ncclient.transport.session import NetconfBase, SessionListener, NotificationHandler
    from ncclient.capabilities import Capabilities

    class Rig(SSHSession):
        def __init__(self, dh, base):
            SSHSession.__init__(self, dh)
            self._connected = True
            self._base = NetconfBase.BASE_11 if base == 11 else NetconfBase.BASE_10
            self._server_capabilities = Capabilities(['urn:ietf:params:netconf:base:1.0', 'urn:ietf:params:netconf:base:1.1'])
            self._id = '4'
            self.c01_segs, self.c01_i = [], -1
            self.c01_disp = []          # (read in progress, raw) for every _dispatch_message
            self.c01_events = []        # ('cb', read, raw, root) | ('err', read, class name, closing)
            self.c01_sent = []
            self.c01_snap = None        # callable(session) run at the entry of every read after the first (model tie)
            rig = self
            class L(SessionListener):
                def callback(self, root, raw): rig.c01_events.append(('cb', rig.c01_i, raw, root))
                def errback(self, ex): rig.c01_events.append(('err', rig.c01_i, type(ex).__name__, rig._closing.is_set()))
            # what _post_connect leaves registered, then the observer
            self.add_listener(NotificationHandler(self._notification_q))
            self.add_listener(L())
        def _transport_register(self, selector, event): selector.register(readable_fd(), event)
        def _send_ready(self): return True
        def _transport_write(self, data):
            self.c01_sent.append(bytes(data)); return len(data)
        def _transport_read(self):
            if self.c01_i >= 0 and self.c01_snap: self.c01_snap(self)
            if self.c01_segs:
                self.c01_i += 1
                return self.c01_segs.pop(0)
            self._closing.set()
            return b''
        def _dispatch_message(self, raw):
            self.c01_disp.append((self.c01_i, raw))
            return SSHSession._dispatch_message(self, raw)
        def close(self):
            self._closing.set(); self._connected = False
    _cls.append(Rig)
    return Rig


def make_rig(profile, base, n_requests=0):
    """session as it is after connect(): parser chosen by the device handler, n_requests requests without filter outstanding"""
    import ncclient.operations.rpc as R
    from ncclient.operations import RaiseMode
    dh = device_handler(profile)
    s = rig_class()(dh, base)
    s.parser = dh.get_xml_parser(s)                 # SSHSession.connect, after _post_connect
    objs = []
    if n_requests:
        cnt = itertools.count(0)
        class _U:
            def __init__(self, k): self.urn = msg_id(k)
        orig = R.uuid4
        R.uuid4 = lambda: _U(next(cnt))
        try:
            from ncclient.operations.retrieve import Get, GetConfig
            from ncclient.operations.third_party.juniper.rpc import ExecuteRpc, Command
            kw = dict(async_mode=True, raise_mode=RaiseMode.NONE, timeout=1)
            for k in range(n_requests):
                if profile == 'junos_sax' and k % 3 == 1:
                    o = ExecuteRpc(s, dh, **kw); o.request('<get-software-information/>')
                elif profile == 'junos_sax' and k % 3 == 2:
                    o = Command(s, dh, **kw); o.request('show version')
                elif k % 2 == 0:
                    o = Get(s, dh, **kw); o.request()
                else:
                    o = GetConfig(s, dh, **kw); o.request('running')
                objs.append(o)
        finally:
            R.uuid4 = orig
    return s, dh, objs


def run_case(profile, base, segs, n_requests=0, observe=False):
    """Feed the non-empty segments, one per transport read, through the real Session.run.
    -> obs dict: callbacks [(read, raw)], roots, errors [(read, class)], disp [(read, raw)], replies [raw | None per request],
       notifications [raw], log (saxseg-shaped observations of the Junos driver, when observe)"""
    segs = [bytes(x) for x in segs if x]
    log = None
    restore = None
    if observe and profile == 'junos_sax' and base == 10:
        from xml.sax import expatreader
        from ncclient.transport.third_party.junos import parser as P
        log = dict(reads=[], outs=[], fed=[b''], raised=[False], died=None)
        class RecParser(expatreader.ExpatParser):
            def feed(self, data, isFinal=False):
                log['fed'][-1] += bytes(data)
                try:
                    return expatreader.ExpatParser.feed(self, data, isFinal)
                except BaseException:
                    log['raised'][-1] = True
                    raise
        restore = (P, P.make_parser)
        P.make_parser = lambda: RecParser()
    try:
        s, dh, objs = make_rig(profile, base, n_requests)
        if log is not None:
            from ncclient.transport.third_party.junos import parser as P
            def snap(sess):
                p, buf = sess.parser, sess._buffer.getvalue()
                if isinstance(p, P.JunosXMLParser):
                    log['reads'].append((0, p._held, p._head, buf, len(sess.c01_disp), len(log['fed'][-1]), log['raised'][-1]))
                else:
                    log['reads'].append((1, b'', b'', buf.lstrip(WS), len(sess.c01_disp), len(log['fed'][-1]), log['raised'][-1]))
            s.c01_snap = snap
            base_dispatch = s._dispatch_message
            def disp(raw):
                log['outs'].append((isinstance(s.parser, P.JunosXMLParser), raw))
                log['fed'].append(b''); log['raised'].append(False)
                return base_dispatch(raw)
            s._dispatch_message = disp
        s.c01_segs = list(segs)
        s.run()                                     # the real loop, synchronously; ends at the b'' after the last segment
    finally:
        if restore: restore[0].make_parser = restore[1]
    evs = list(s.c01_events)
    errs = [(e[1], e[2]) for e in evs if e[0] == 'err' and not e[3]]
    if log is not None and errs: log['died'] = errs[0][1]
    notes = []
    while True:
        n = s.take_notification(False, None)
        if n is None: break
        notes.append(n.notification_xml)
    return dict(callbacks=[(e[1], e[2]) for e in evs if e[0] == 'cb'], roots=[e[3] for e in evs if e[0] == 'cb'],
                errors=errs, disp=list(s.c01_disp), replies=[(o.reply._raw if o.reply is not None else None) for o in objs],
                notifications=notes, log=log, n_reads=len(segs))


# ------------------------------------------------------------------ independent reader of the root
def et_root(text):
    """(qualified tag, {qualified attribute: value}) of the document element, read by xml.etree (expat) from the text"""
    it = ET.iterparse(io.BytesIO(text.encode('utf-8')), events=('start',))
    for _, el in it:
        return el.tag, dict(el.attrib)
    raise ValueError('no element')


def canon_root(root):
    tag, attrs = root
    return [str(tag), sorted([str(k), str(v)] for k, v in dict(attrs).items())]


# ------------------------------------------------------------------ messages
MB = ['é', '€', '\U0001F600', 'ß', '中', '\U00010348', ' ', '　']

def _text(rng, n, mb=True):
    out = []
    for _ in range(n):
        r = rng.random()
        if mb and r < 0.25: out.append(rng.choice(MB))
        elif r < 0.33: out.append(rng.choice([' ', '\n', '&amp;', '&lt;', '&gt;', '#', ']', ']]', '&#233;']))
        else: out.append(rng.choice('abcdefghijklmnopqrstuvwxyz0123456789'))
    return ''.join(out).replace(']]>', ']] >')

def _attrval(rng, n, mb=True):
    return ''.join(rng.choice(MB[:6]) if mb and rng.random() < 0.2 else rng.choice('abcdefghij:/.-_ 0123456789') for _ in range(n))

def _cbody(rng, n, mb=True):
    """n characters that may stand inside a comment (no '-')"""
    return ''.join(rng.choice(MB[:6]) if mb and rng.random() < 0.1 else rng.choice('abcdefghij <>&\n]#?') for _ in range(n))

def _comment(rng, n): return '<!--' + _cbody(rng, n) + '-->'

PROLOGS = ['', '', 'decl', 'decl+nl', 'comment', 'pi', 'ws', 'decl+comment']
EPILOGS = ['', '', '\n', ' \n', 'comment', 'ws+comment']
HOWS = ['xmlns', 'attr', 'mixed', 'prolog_comment', 'prolog_ws']

def make_doc(rng, base, kind, k=0, prolog='', start_end=None, epilog='', body_len=None, lead='', nc_prefix=False, how=None):
    """One well-formed XML document (str).  kind: 'note' | 'reply' (to request k) | 'other'.  start_end: wanted offset (in
    characters, from the beginning of the text) just past the '>' that ends the root's start tag; reached by lengthening
    the prolog (a comment / white space) or the start tag (xmlns:* declarations, long attribute values), as `how` says;
    non-ASCII characters in about 70 % of the documents so that offsets in characters and in octets differ.
    lead: what the text begins with - white space (no XML declaration then) or U+FEFF, the byte order mark XML 1.0 4.3.3 allows in
    front of a document (with or without XML declaration): for framing the first character of the message text."""
    how = how or rng.choice(HOWS)
    mb = rng.random() < 0.7
    pro = {'': '', 'decl': '<?xml version="1.0" encoding="UTF-8"?>', 'decl+nl': '<?xml version="1.0" encoding="UTF-8"?>\n',
           'comment': _comment(rng, rng.randint(0, 30)) + '\n', 'pi': '<?c01 %s?>' % _attrval(rng, 8),
           'ws': rng.choice([' ', '\n', '\r\n\t ', '\n\n']), 'decl+comment': '<?xml version="1.0"?>\n' + _comment(rng, 12) + '\n'}[prolog]
    if prolog.startswith('decl') and lead != F.BOM: lead = ''          # nothing but a byte order mark may precede an XML declaration
    if kind == 'note':
        name, attrs = 'notification', [('xmlns', NOTIF_NS)]
        inner = '<eventTime>2024-01-0%dT00:00:0%dZ</eventTime><ev xmlns="urn:c01:ev"><seq>%d</seq><t>%s</t></ev>' % (
            rng.randint(1, 9), rng.randint(0, 9), k, _text(rng, body_len if body_len is not None else rng.randint(0, 30), mb))
    elif kind == 'reply':
        if nc_prefix: name, attrs = 'nc:rpc-reply', [('xmlns:nc', BASE_NS), ('message-id', msg_id(k))]
        else: name, attrs = 'rpc-reply', [('xmlns', BASE_NS), ('message-id', msg_id(k))]
        if rng.random() < 0.5: attrs.reverse()
        pre = 'nc:' if nc_prefix else ''
        txt = _text(rng, body_len if body_len is not None else rng.randint(0, 30), mb)
        inner = rng.choice(['<%sok/>' % pre, '<%sdata><v xmlns="urn:c01:v">%s</v></%sdata>' % (pre, txt, pre), '<%sdata>%s</%sdata>' % (pre, txt, pre)])
    else:
        name, attrs = rng.choice(['a', 'r', 'ev:event', 'x-y.z'] + (['\u00e9l'] if mb else [])), []
        if ':' in name: attrs.append(('xmlns:ev', 'urn:c01:other'))
        inner = _text(rng, body_len if body_len is not None else rng.randint(0, 12), mb)
    def start(attrs): return '<' + name + ''.join(' %s="%s"' % kv for kv in attrs) + '>'
    if start_end is not None:
        need = start_end - len(lead) - len(pro) - len(start(attrs))        # characters still to add before the '>'
        if need >= 7 and how == 'prolog_comment':
            pro += '<!--' + _cbody(rng, need - 7, mb) + '-->'
        elif need > 0 and how == 'prolog_ws':
            pro += ''.join(rng.choice(' \n\t') for _ in range(need))
        elif need >= 6:
            i = 0
            while how != 'attr' and need > 400:
                if (how == 'mixed' and i % 2 == 1) or (mb and i % 7 == 3):
                    v = _attrval(rng, rng.randint(1, 300 if how == 'mixed' else 20), mb)
                    attrs.append(('a%d' % i, v)); need -= len(' a%d=""' % i) + len(v)
                else:                                   # a namespace name is a URI: ASCII (libxml2 rejects anything else)
                    v = 'urn:c01:module:%03d:%s' % (i, rng.choice('abcxyz'))
                    attrs.append(('xmlns:p%03d' % i, v)); need -= len(' xmlns:p%03d=""' % i) + len(v)
                i += 1
            attrs.append(('z', _attrval(rng, need - 5, mb)))                  # ' z="' + value + '"'
    ep = {'': '', '\n': '\n', ' \n': ' \n', 'comment': _comment(rng, rng.randint(0, 20)), 'ws+comment': '\n' + _comment(rng, 10) + '\n'}[epilog]
    text = lead + pro + start(attrs) + inner + '</%s>' % name + ep
    if base == 10: text = text.replace(']]>]]>', ']]> ]]>')
    return text


def start_tag_end(text):
    """offset (characters) just past the '>' ending the document element's start tag, found by an independent scan"""
    i, n = 0, len(text)
    while i < n:
        if text.startswith('<?', i): i = text.index('?>', i + 2) + 2
        elif text.startswith('<!--', i): i = text.index('-->', i + 4) + 3
        elif text[i] == '<':
            q = None
            j = i + 1
            while j < n:
                c = text[j]
                if q: q = None if c == q else q
                elif c in '"\'': q = c
                elif c == '>': return j + 1
                j += 1
            return None
        else: i += 1
    return None


BOUNDARIES = [4096, 8192, 16384, 32768, 65536]

def gen_docs(rng, base, profile, size='small'):
    """-> (msgs, kinds, n_requests, tags).  size: 'tiny' (for exhaustive cuts) | 'small' | 'edge' (one message whose root
    start tag ends at / around a power-of-two boundary, counted in characters or in octets) | 'far' (ends far beyond)."""
    n = rng.choice([1, 2, 2, 3]) if size in ('tiny', 'edge', 'far') else rng.choice([1, 2, 3, 4, 6])
    special = rng.randrange(n)
    msgs, kinds, nreq = [], [], 0
    tags = dict(size=size, start_end='-', how='-')
    for i in range(n):
        # after the <hello> a server sends replies and notifications; any other document element only to the default
        # profile (the Junos profile takes every message that is not a notification for a reply: perform_qualify_check)
        kind = rng.choice(['note', 'note', 'reply', 'reply'] + (['other'] if profile == 'default' else []))
        k = i
        if kind == 'reply':
            k = nreq; nreq += 1
        if size == 'tiny':
            m = make_doc(rng, base, kind, k, prolog=rng.choice(['', '', 'ws', 'decl']), epilog=rng.choice(['', '\n']),
                         body_len=rng.randint(0, 3), lead=rng.choice(['', '', ' ', '\n', F.BOM]))
        elif size in ('edge', 'far') and i == special:
            if size == 'edge':
                b = rng.choice(BOUNDARIES[:3] if rng.random() < 0.8 else BOUNDARIES)
                se = b + rng.choice([-2, -1, 0, 1, 2, rng.randint(-40, 40), rng.randint(1, 3000)])
            else:
                se = rng.choice([5000, 9000, 20000, 40000, 70000]) + rng.randint(0, 2000)
            m = make_doc(rng, base, kind, k, prolog=rng.choice(PROLOGS), start_end=se, epilog=rng.choice(EPILOGS),
                         lead=rng.choice(['', '', '\n', F.BOM]), nc_prefix=rng.random() < 0.2)
            tags['start_end'] = 'edge%d' % b if size == 'edge' else 'far'
        else:
            se = rng.choice([None, None, None, rng.randint(120, 1500)])
            m = make_doc(rng, base, kind, k, prolog=rng.choice(PROLOGS), start_end=se, epilog=rng.choice(EPILOGS),
                         lead=rng.choice(['', '', ' ', '\n', '\r\n', F.BOM, F.BOM]), nc_prefix=rng.random() < 0.2)
        ET.fromstring(m.encode('utf-8'))            # harness self-check: the generator produces well-formed documents
        msgs.append(m); kinds.append(kind)
    return msgs, kinds, nreq, tags


def encode(rng, base, msgs, chunking=None):
    """-> (stream, ends, expected texts, chunk kinds)"""
    mb = [m.encode('utf-8') for m in msgs]
    if base == 11:
        cks = [chunking or rng.choice(F.CHUNKINGS) for _ in mb]
        chunked = [F.gen_chunking(rng, b, ck) for b, ck in zip(mb, cks)]
        return F.encode11(chunked), F.ends11(chunked), list(msgs), cks
    gaps = [rng.choice([b'', b'', b'\n', b' \n', b'\r\n']) for _ in mb]     # white space a server writes after the terminator
    stream, ends = b'', []
    for b, g in zip(mb, gaps):
        stream += b + F.DELIM10; ends.append(len(stream)); stream += g
    return stream, ends, [m.strip() for m in msgs], ['-']


def special_cuts(rng, base, stream, msgs, ends):
    """read boundaries near the end of every root start tag and near every multiple of 4096 (octets)"""
    cuts, p0 = set(), 0
    for m, e in zip(msgs, ends):
        se = start_tag_end(m)
        if se:
            o = len(m[:se].encode('utf-8'))
            k = stream.find(m.encode('utf-8')[:40], p0)
            if k >= 0: cuts.update(k + o + d for d in (-2, -1, 0, 1))
        p0 = e
    for b in range(4096, len(stream), 4096): cuts.update([b - 1, b, b + 1])
    return sorted(c for c in cuts if 0 < c < len(stream))


# ------------------------------------------------------------------ oracle
def judge(base, segs, expected, kinds, obs):
    """The property sentence on one run.  expected: texts the listener must get (1.0: stripped), kinds per message.
    -> (ok, what, expected, actual)"""
    segs = [x for x in segs if x]
    stream = b''.join(segs)
    oev = F.oracle(base, stream)
    sent = [('msg', t.encode('utf-8'), e[2]) for t, e in zip(expected, oev)]
    exp_t = [[i, e] for i, e in F.expected_timeline(sent, [len(x) for x in segs])]
    act_t = [[i, [0, raw.encode('utf-8')]] for i, raw in obs['callbacks']]
    exp = dict(timeline=exp_t, errors=[], roots=None, replies=None, notifications=None)
    act = dict(timeline=act_t, errors=obs['errors'])
    def bad(what): return False, what, exp, act
    if len(oev) != len(expected) or any(o[0] != 'msg' or o[1] != (t.encode('utf-8') if base == 11 else t.strip().encode('utf-8'))
                                        for o, t in zip(oev, expected)):
        raise AssertionError('harness: the independent framing of the stream is not the list of sent messages')
    got = [raw for _, raw in obs['callbacks']]
    if got != list(expected):
        k = next((j for j, (a, b) in enumerate(zip(got, expected)) if a != b), min(len(got), len(expected)))
        return bad('listener received %d message(s), %d were sent; first difference at message %d%s' % (
            len(got), len(expected), k + 1, ('; errback %r' % (obs['errors'],)) if obs['errors'] else ''))
    if obs['errors']:
        return bad('errback %r on a valid stream' % (obs['errors'],))
    for (ei, e), (ai, _) in zip(exp_t, act_t):
        if ai < ei: return bad('message delivered during read %d, the last octet of its terminator arrived with read %d' % (ai, ei))
        if ai > ei: return bad('message complete with read %d was delivered only during read %d' % (ei, ai))
    exp['roots'] = [canon_root(et_root(t)) for t in expected]
    act['roots'] = [canon_root(r) for r in obs['roots']]
    if exp['roots'] != act['roots']:
        k = next(j for j, (a, b) in enumerate(zip(exp['roots'], act['roots'])) if a != b)
        return bad('root handed to the listener with message %d is not the root of the sent document' % (k + 1))
    exp['replies'] = [t for t, kd in zip(expected, kinds) if kd == 'reply']
    act['replies'] = obs['replies']
    if exp['replies'] != act['replies']:
        return bad('the requests do not hold the reply texts that were sent')
    exp['notifications'] = [t for t, kd in zip(expected, kinds) if kd == 'note']
    act['notifications'] = obs['notifications']
    if exp['notifications'] != act['notifications']:
        return bad('the notification queue does not hold the notifications that were sent')
    return True, '', exp, act


def execute(case):
    """run + judge one recorded case (replay / reproduce)"""
    segs = [bytes.fromhex(h) for h in case['segs']]
    obs = run_case(case['profile'], case['base'], segs, case.get('n_requests', 0))
    return judge(case['base'], segs, case['expected'], case['kinds'], obs) + (obs,)
