"""C04 on the real transport classes (SSHSession, TLSSession, UnixSocketSession): the connection is lost under a session
with one request outstanding.  The SSH transport/channel and the TLS socket are minimal stand-ins on a socketpair (no
handshake); everything else is the library's own code, free-running threads, wall-clock bounds far below the request
timeout.  Checked: the outstanding request raises a TransportError promptly, the session then reports itself disconnected,
a later request is refused with a TransportError promptly (not queued on the dead session to wait out its timeout)."""
import socket, threading, time

DELIM = b']]>]]>'
HELLO = (b'<?xml version="1.0" encoding="UTF-8"?><hello xmlns="urn:ietf:params:xml:ns:netconf:base:1.0"><capabilities>'
         b'<capability>urn:ietf:params:netconf:base:1.0</capability></capabilities><session-id>7</session-id></hello>' + DELIM)
TIMEOUT, PROMPT = 4.0, 1.5

class FakeTransport(object):
    def __init__(self, sock): self._sock, self.active = sock, True
    def is_active(self): return self.active
    def close(self):
        self.active = False
        try: self._sock.close()
        except OSError: pass

class FakeChannel(object):
    def __init__(self, sock): self._sock = sock
    def fileno(self): return self._sock.fileno()
    def recv(self, n): return self._sock.recv(n)
    def send(self, data): return self._sock.send(data)
    def send_ready(self): return True
    def close(self):
        try: self._sock.close()
        except OSError: pass

class TlsSock(object):
    """what TLSSession uses of an SSLSocket"""
    def __init__(self, sock): self._sock = sock
    def fileno(self): return self._sock.fileno()
    def recv(self, n): return self._sock.recv(n)
    def send(self, data): return self._sock.send(data)
    def pending(self): return 0
    def shutdown(self, how): return self._sock.shutdown(how)
    def close(self): return self._sock.close()

class Server(threading.Thread):
    def __init__(self, sock):
        threading.Thread.__init__(self, daemon=True, name='real-end-server')
        self.sock, self.received, self.cond = sock, [], threading.Condition()
    def run(self):
        try: self.sock.sendall(HELLO)
        except OSError: return
        buf = b''
        while True:
            try: data = self.sock.recv(4096)
            except OSError: return
            if not data: return
            buf += data
            while DELIM in buf:
                msg, _, buf = buf.partition(DELIM)
                with self.cond:
                    self.received.append(msg); self.cond.notify_all()
    def wait_messages(self, n, timeout=5.0):
        with self.cond: return self.cond.wait_for(lambda: len(self.received) >= n, timeout)

KINDS = [('ssh', 'transport_inactive_first'), ('ssh', 'transport_still_active'), ('tls', None), ('unix', None),
         # the earlier history of the session: a payload that is not XML, for which the device handler's handle_raw_dispatch() hands an
         # exception back (junos profile; a custom handler class) - a NON-fatal error broadcast, the session goes on - then the loss
         ('unix', 'after_nonfatal_error/junos'), ('ssh', 'after_nonfatal_error/custom'), ('tls', 'after_nonfatal_error/custom')]
NOTIF = (b'<notification xmlns="urn:ietf:params:xml:ns:netconf:notification:1.0"><eventTime>2026-01-01T00:00:00Z</eventTime>'
         b'<ev xmlns="urn:example:e">1</ev></notification>' + DELIM)

def end_case(kind, variant):
    from ncclient import manager
    from ncclient.transport.errors import TransportError
    nonfatal = (variant or '').startswith('after_nonfatal_error')
    if nonfatal:
        from .real_later import make_handler
        dh = make_handler('junos', None) if variant.endswith('junos') else make_handler('default', 'ValueError')
    else:
        dh = manager.make_device_handler({'name': 'default'})
    a, b = socket.socketpair(socket.AF_UNIX, socket.SOCK_STREAM)
    srv = Server(b); srv.start()
    transport = None
    if kind == 'ssh':
        from ncclient.transport.ssh import SSHSession
        ses = SSHSession(dh); transport = FakeTransport(a); ses._transport = transport; ses._channel = FakeChannel(a)
    elif kind == 'tls':
        from ncclient.transport.tls import TLSSession
        ses = TLSSession(dh); ses._socket = TlsSock(a)
    else:
        from ncclient.transport.unixSocket import UnixSocketSession
        ses = UnixSocketSession(dh); ses._socket = a
    tag = '%s%s' % (kind, '/' + variant if variant else '')
    try:
        ses._connected = True
        ses._post_connect(timeout=5)
        m = manager.Manager(ses, dh, timeout=TIMEOUT)
        res = {}
        def call(slot):
            t0 = time.monotonic()
            try: res[slot] = ('value', m.get_config(source='running'))
            except BaseException as e: res[slot] = ('error', e)
            res[slot + '_t'] = time.monotonic() - t0; res[slot + '_end'] = time.monotonic()
        if nonfatal:
            from .lts import HOSTILE
            for v in (0, 3):
                try: b.sendall(HOSTILE[v].encode('utf-8') + DELIM + NOTIF)
                except OSError: return None
                if m.take_notification(True, 2.0) is None: time.sleep(0.2)     # the notification behind it was dispatched: the payload too
            if not (ses.connected and ses.is_alive()):
                return None                   # the session did not survive the payload (C14's business): no later loss to judge
        th = threading.Thread(target=call, args=('first',), daemon=True); th.start()
        if not srv.wait_messages(2):
            return '%s: the request never reached the peer' % tag
        if transport is not None and variant == 'transport_inactive_first':
            transport.active = False          # paramiko has noticed the loss before the session thread reads end-of-file
        t_loss = time.monotonic()
        try: b.shutdown(socket.SHUT_RDWR)
        except OSError: pass
        b.close()
        th.join(TIMEOUT + 2)
        if th.is_alive() or 'first' not in res:
            return '%s: the outstanding request did not return within its timeout after the connection was lost' % tag
        k, v = res['first']
        if k != 'error' or not isinstance(v, TransportError):
            return '%s: the outstanding request ended with %r instead of a transport error' % (tag, v if k == 'error' else 'a reply')
        if res['first_end'] - t_loss > PROMPT:
            return '%s: the outstanding request was failed only %.1f s after the loss (timeout %.0f s)' % (tag, res['first_end'] - t_loss, TIMEOUT)
        ses.join(3)
        if ses.is_alive():
            return '%s: the session thread is still running after the connection was lost' % tag
        if ses.connected or m.connected:
            return '%s: the session still reports connected after the connection was lost' % tag
        th2 = threading.Thread(target=call, args=('later',), daemon=True); th2.start(); th2.join(TIMEOUT + 2)
        if th2.is_alive() or 'later' not in res:
            return '%s: a request made after the loss did not return' % tag
        k, v = res['later']
        if k != 'error' or not isinstance(v, TransportError):
            return '%s: a request made after the loss ended with %r instead of being refused with a transport error' % (tag, type(v).__name__ if k == 'error' else 'a reply')
        if res['later_t'] > PROMPT:
            return '%s: a request made after the loss was refused only after %.1f s' % (tag, res['later_t'])
        return None
    finally:
        try: ses.close()
        except Exception: pass
        for s in (a, b):
            try: s.close()
            except OSError: pass

def real_end_case():
    from . import lts
    lts.uninstall()
    try:
        for kind, variant in KINDS:
            f = None
            for _ in range(2):              # wall-clock rig: report only what fails twice
                f = end_case(kind, variant)
                if f is None: break
            if f: return f
        return None
    finally:
        lts.install()


def half_built_case():
    """A connection loss while another thread is in the middle of constructing a request (paused at the creation of the
    request's Event, i.e. somewhere inside RPC.__init__) must still fail every outstanding request promptly, and the
    request under construction must end with a transport error as well."""
    from . import lts
    lts.uninstall()
    import ncclient.operations.rpc as R
    from ncclient import manager
    from ncclient.transport.errors import TransportError
    from ncclient.transport.unixSocket import UnixSocketSession
    real_event = R.Event
    gate, reached = threading.Event(), threading.Event()
    paused = {'name': None}
    def event_factory(*a, **k):
        if threading.current_thread().name == paused['name']:
            reached.set(); gate.wait(10)
        return real_event(*a, **k)
    dh = manager.make_device_handler({'name': 'default'})
    a, b = socket.socketpair(socket.AF_UNIX, socket.SOCK_STREAM)
    srv = Server(b); srv.start()
    ses = UnixSocketSession(dh); ses._socket = a
    res = {}
    try:
        ses._connected = True
        ses._post_connect(timeout=5)
        m = manager.Manager(ses, dh, timeout=TIMEOUT)
        def call(slot):
            t0 = time.monotonic()
            try: res[slot] = ('value', m.get_config(source='running'))
            except BaseException as e: res[slot] = ('error', e)
            res[slot + '_end'] = time.monotonic()
        R.Event = event_factory
        paused['name'] = 'half-built'
        tA = threading.Thread(target=call, args=('A',), daemon=True, name='half-built'); tA.start()
        if not reached.wait(5):
            return None                      # the constructor creates no Event of its own any more: nothing to pause at
        tC = threading.Thread(target=call, args=('C',), daemon=True, name='complete'); tC.start()
        if not srv.wait_messages(2):
            return 'half_built: the complete request never reached the peer'
        t_loss = time.monotonic()
        try: b.shutdown(socket.SHUT_RDWR)
        except OSError: pass
        b.close()
        ses.join(3)                          # the worker has broadcast the error and ended
        gate.set()
        tC.join(TIMEOUT + 2); tA.join(TIMEOUT + 2)
        for slot in ('C', 'A'):
            if slot not in res:
                return 'half_built: request %s did not return within its timeout after the connection was lost' % slot
            k, v = res[slot]
            if k != 'error' or not isinstance(v, TransportError):
                return ('half_built: request %s (%s) ended with %s instead of a transport error: the error broadcast did not reach it'
                        % (slot, 'outstanding' if slot == 'C' else 'under construction at the loss', type(v).__name__ if k == 'error' else 'a reply'))
        if res['C_end'] - t_loss > PROMPT + 3.0:
            return 'half_built: the outstanding request was failed only %.1f s after the loss' % (res['C_end'] - t_loss)
        return None
    finally:
        R.Event = real_event
        gate.set()
        try: ses.close()
        except Exception: pass
        for s in (a, b):
            try: s.close()
            except OSError: pass
        lts.install()
