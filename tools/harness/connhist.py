"""Histories of connects that SHARE the caller's parameter objects (C06 round 4).

An application keeps its connection settings in a few dictionaries (`device_params`, `manager_params`, `nc_params`,
`errors_params`) and passes the same objects to several `manager.connect*` calls: a reconnect loop, several devices
of one kind, a retry after a refused connection.  A history case (JSON, replayable) describes

    classes : [ {shape, pats} ]          custom device handler classes of the caller, each with its own _EXEMPT_ERRORS
                                         shape: plain | init (own __init__) | tuple (_EXEMPT_ERRORS a tuple) | sub:<profile>
                                         (subclass of a shipped profile, list = the profile's + pats)
    pool    : [ dict ]                   the caller's dictionaries; a value {"@cls": i} stands for classes[i]
    steps   : [ {route, dp, mp, np, ep, timeout, fail [, over]} ]   (over: a by-hand Manager over the session of the manager of that earlier step)
                                         route: direct | connect | connect_ssh | connect_tls | connect_uds
                                         dp/mp/np/ep: index into pool or None (argument not passed)
                                         timeout: the `timeout=` keyword of the connect (or None); fail: session.connect()
                                         refuses this attempt (OSError)
    probes  : [ reply text ]             replies every manager obtained so far is asked to surface after each step

`run(case, cell)` is a generator: after each step it yields an `Event` (the manager or the exception, which pool
objects differ from their state before the FIRST step, and which differ from their state before THIS step).  The
caller sets `cell['reply']` before calling an operation on a manager.  The `direct` route is what an application does
by hand: `dh = make_device_handler(dp, ep.get('ignore_errors'))`, `Manager(session, dh, **mp [, raise_mode=ep['raise_mode']])`.
ncclient is imported lazily (vlib.paths.use_repo() must have run)."""
from harness.fakesession_rpc import session_class, patched_transports, parse_request

ROUTES = ('direct', 'connect', 'connect_ssh', 'connect_tls', 'connect_uds')
KINDS = ('dp', 'mp', 'np', 'ep')
ARG = {'dp': 'device_params', 'mp': 'manager_params', 'np': 'nc_params', 'ep': 'errors_params'}


class ScriptedRefusal(OSError):
    """what the scripted peer raises from session.connect() for a refused attempt"""


def build_classes(specs):
    """The caller's handler classes (real subclasses of the library's handler classes)."""
    from ncclient.devices.default import DefaultDeviceHandler
    out = []
    for i, sp in enumerate(specs):
        shape, pats = sp['shape'], list(sp['pats'])
        if shape.startswith('sub:'):
            name = shape[4:]
            mod = __import__('ncclient.devices.' + name, fromlist=['x'])
            base = getattr(mod, name.capitalize() + 'DeviceHandler')
            ns = {'_EXEMPT_ERRORS': list(base._EXEMPT_ERRORS) + pats}
        elif shape == 'tuple':
            base, ns = DefaultDeviceHandler, {'_EXEMPT_ERRORS': tuple(pats)}
        else:
            base, ns = DefaultDeviceHandler, {'_EXEMPT_ERRORS': pats}
        if shape == 'init':
            def __init__(self, device_params, ignore_errors=None, _b=base):
                _b.__init__(self, device_params, ignore_errors)
                self.site = (device_params or {}).get('site')
            ns['__init__'] = __init__
        out.append(type('Caller%dDeviceHandler' % i, (base,), ns))
    return out


def materialise(v, classes):
    if isinstance(v, dict):
        if set(v) == {'@cls'}: return classes[v['@cls']]
        return {k: materialise(x, classes) for k, x in v.items()}
    if isinstance(v, list): return [materialise(x, classes) for x in v]
    return v


def snap(v, classes):
    """Canonical, JSON-able picture of a caller-owned object (classes by their index + their class-level exempt list)."""
    if isinstance(v, dict): return ['d', sorted([k, snap(x, classes)] for k, x in v.items())]
    if isinstance(v, bool): return ['n', int(v)]
    if isinstance(v, int): return ['n', v]
    if isinstance(v, str): return ['s', v]
    if isinstance(v, list): return ['l', [snap(x, classes) for x in v]]
    if isinstance(v, tuple): return ['t', [snap(x, classes) for x in v]]
    if v is None: return ['none']
    if isinstance(v, type):
        idx = [i for i, c in enumerate(classes) if c is v]
        return ['h', idx[0] if idx else -1, snap(v.__dict__.get('_EXEMPT_ERRORS'), classes)]
    return ['o', type(v).__name__]


def shipped_classes():
    """the handler classes of the shipped profiles that are loaded right now: {name: class}"""
    import sys
    out = {}
    for mn, mod in list(sys.modules.items()):
        if mn.startswith('ncclient.devices.') and mod is not None:
            name = mn.rsplit('.', 1)[1]
            cls = getattr(mod, name.capitalize() + 'DeviceHandler', None)
            if isinstance(cls, type): out[name] = cls
    return out


def shipped_snap():
    return {n: snap(c.__dict__.get('_EXEMPT_ERRORS'), []) for n, c in shipped_classes().items()}


def idents(d):
    """identity of the values a dict holds (the same list / class object must still be there)"""
    return sorted((k, id(x)) for k, x in d.items())


class Event:
    __slots__ = ('k', 'step', 'manager', 'raised', 'altered', 'altered_now', 'before', 'after', 'handler_class')


def user_of(ep):
    return None if ep is None else ep.get('ignore_errors')


def run(case, cell):
    from ncclient import manager
    classes = build_classes(case.get('classes', []))
    pool = [materialise(p, classes) for p in case['pool']]
    snaps0 = [snap(p, classes) for p in pool]
    ids0 = [idents(p) for p in pool]
    csnap0 = [snap(c, classes) for c in classes]
    state = {'fail': False}
    made = {}                               # step index -> manager (for `over`: a second manager over the same session)

    def server(msg):
        mid = parse_request(msg)[0]
        return [cell['reply'].replace('@MID@', mid or '')]

    def hook(session, args, kwds):
        if state['fail']:
            state['fail'] = False
            raise ScriptedRefusal('connection refused (scripted)')

    with patched_transports(server, connect_hook=hook) as pt:
        for k, st in enumerate(case['steps']):
            arg = {kd: (pool[st[kd]] if st.get(kd) is not None else None) for kd in KINDS}
            before = [snap(p, classes) for p in pool]
            ship_b = shipped_snap()
            ids_b = [idents(p) for p in pool]
            ev = Event(); ev.k = k; ev.step = st; ev.manager = None; ev.raised = None
            state['fail'] = bool(st.get('fail')) and st['route'] != 'direct'
            try:
                if st['route'] == 'direct':
                    dh = manager.make_device_handler(arg['dp'], user_of(arg['ep']))
                    over = st.get('over')
                    # `over`: the application builds another Manager over the SESSION of an earlier one, with its own handler
                    s = made[over]._session if over is not None and made.get(over) is not None else pt.cls(dh)
                    kw = arg['mp'] if arg['mp'] is not None else {}              # unpacked (read) by the caller itself
                    if arg['ep'] is not None and 'raise_mode' in arg['ep']:
                        ev.manager = manager.Manager(s, dh, raise_mode=arg['ep']['raise_mode'], **kw)
                    else:
                        ev.manager = manager.Manager(s, dh, **kw)
                else:
                    kw = dict(host='peer%d' % k)
                    for kd in KINDS:
                        if arg[kd] is not None: kw[ARG[kd]] = arg[kd]
                    if st.get('timeout') is not None: kw['timeout'] = st['timeout']
                    ev.manager = getattr(manager, st['route'])(**kw)
            except Exception as e:                                    # noqa: the history goes on, as a retry loop does
                ev.raised = [type(e).__name__, str(e)[:160]]
            state['fail'] = False
            made[k] = ev.manager
            ev.after = [snap(p, classes) for p in pool]
            ids_a = [idents(p) for p in pool]
            ev.before = before
            ev.altered = [i for i in range(len(pool)) if ev.after[i] != snaps0[i] or ids_a[i] != ids0[i]]
            ev.altered_now = [i for i in range(len(pool)) if ev.after[i] != before[i] or ids_a[i] != ids_b[i]]
            cs = [snap(c, classes) for c in classes]
            ev.altered += ['class%d' % i for i in range(len(classes)) if cs[i] != csnap0[i]]
            ship_a = shipped_snap()
            ev.altered += ['shipped:%s' % n for n in sorted(ship_b) if ship_a.get(n) != ship_b[n]]
            ev.handler_class = None
            if ev.manager is not None:
                t = type(ev.manager._device_handler)
                idx = [i for i, c in enumerate(classes) if c is t]
                ev.handler_class = idx[0] if idx else t.__name__
            yield ev
